//! Hunt H: defects left in the serializer. Every test fails on the current code and passes
//! once the defect is fixed. Public API and existing dev-dependencies only.

use serde::ser::{SerializeMap, Serializer};
use serde::{Deserialize, Serialize};
use serde_saphyr::{
    Commented, FoldStr, RcAnchor, SerializerOptions, from_str, to_string, to_string_with_options,
};
use std::collections::BTreeMap;
use std::rc::Rc;

// ---------------------------------------------------------------------------------------------
// 1. C13: an empty sequence of unknown length (`serialize_seq(None)`) after a block sibling, with
//    compact_list_indent: `[]` is written on a line of its own at the column of its key.
// ---------------------------------------------------------------------------------------------

fn only_even<S: Serializer>(v: &[i32], s: S) -> Result<S::Ok, S::Error> {
    // `Filter` has no exact size hint, so serde's `collect_seq` calls `serialize_seq(None)`.
    s.collect_seq(v.iter().filter(|x| **x % 2 == 0))
}

#[derive(Serialize)]
struct Filtered {
    a: Vec<i32>,
    #[serde(serialize_with = "only_even")]
    b: Vec<i32>,
}

#[derive(Deserialize, Debug, PartialEq)]
struct FilteredBack {
    a: Vec<i32>,
    b: Vec<i32>,
}

#[test]
fn empty_unsized_sequence_after_block_sibling_with_compact_list_indent() {
    let v = Filtered {
        a: vec![1],
        b: vec![1, 3], // nothing passes the filter: an empty sequence of unknown length
    };
    let mut o = SerializerOptions::default();
    o.compact_list_indent = true;
    let yaml = to_string_with_options(&v, o).unwrap();
    // current output: "a:\n- 1\nb:\n[]\n"
    let back: FilteredBack =
        from_str(&yaml).unwrap_or_else(|e| panic!("not readable: {yaml:?}: {e}"));
    assert_eq!(
        back,
        FilteredBack {
            a: vec![1],
            b: vec![]
        },
        "{yaml:?}"
    );
}

// ---------------------------------------------------------------------------------------------
// 2. C20: FoldStr wraps at a space that is followed by a tab; the continuation line then starts
//    with a tab ("more indented"), so the line breaks around it are not folded back.
// ---------------------------------------------------------------------------------------------

#[test]
fn fold_str_wrapped_before_a_tab_changes_the_text() {
    let text = format!("{} \tbbbb cccc", "a".repeat(78));
    let yaml = to_string(&FoldStr(&text)).unwrap();
    let back: String = from_str(&yaml).unwrap_or_else(|e| panic!("not readable: {yaml:?}: {e}"));
    // FoldStr clips: one trailing line break is the documented difference.
    assert_eq!(back.strip_suffix('\n').unwrap_or(&back), text, "{yaml:?}");
}

// ---------------------------------------------------------------------------------------------
// 3. C14 / C13: an anchored block sequence as the value of an explicit `? key` entry (composite
//    key, or a key longer than 1024 characters): after `: &a1` the first dash is written at the
//    parent's column and the others one step deeper.
// ---------------------------------------------------------------------------------------------

#[test]
fn anchored_sequence_as_value_of_a_composite_key() {
    let shared = Rc::new(vec![1, 2, 3]);
    let mut m: BTreeMap<(i32, i32), RcAnchor<Vec<i32>>> = BTreeMap::new();
    m.insert((1, 2), RcAnchor(shared.clone()));
    m.insert((3, 4), RcAnchor(shared.clone()));
    let yaml = to_string(&m).unwrap();
    // current output: "? - 1\n  - 2\n: &a1\n- 1\n  - 2\n  - 3\n? - 3\n  - 4\n: *a1\n"
    let back: BTreeMap<(i32, i32), RcAnchor<Vec<i32>>> =
        from_str(&yaml).unwrap_or_else(|e| panic!("not readable: {yaml:?}: {e}"));
    assert_eq!(*back[&(1, 2)].0, vec![1, 2, 3], "{yaml:?}");
    assert!(Rc::ptr_eq(&back[&(1, 2)].0, &back[&(3, 4)].0), "{yaml:?}");
}

#[test]
fn anchored_sequence_as_value_of_a_long_key() {
    let shared = Rc::new(vec![1, 2, 3]);
    let key = "k".repeat(1030);
    let mut m: BTreeMap<String, RcAnchor<Vec<i32>>> = BTreeMap::new();
    m.insert(key.clone(), RcAnchor(shared));
    let yaml = to_string(&m).unwrap();
    // current output: "? kkk...\n: &a1\n- 1\n  - 2\n  - 3\n"
    let back: BTreeMap<String, RcAnchor<Vec<i32>>> = from_str(&yaml)
        .unwrap_or_else(|e| panic!("not readable: {:?}: {e}", &yaml[1030..]));
    assert_eq!(*back[&key].0, vec![1, 2, 3]);
}

// ---------------------------------------------------------------------------------------------
// 4. C12: the string `<<` as a key that does not go through the scalar-key path (a key under
//    `Commented`, or under `RcAnchor`) is written as plain `? <<`, which is a merge key.
// ---------------------------------------------------------------------------------------------

struct CommentedKeyMap(Vec<(Commented<String>, i32)>);

impl Serialize for CommentedKeyMap {
    fn serialize<S: Serializer>(&self, s: S) -> Result<S::Ok, S::Error> {
        let mut m = s.serialize_map(Some(self.0.len()))?;
        for (k, v) in &self.0 {
            m.serialize_entry(k, v)?;
        }
        m.end()
    }
}

#[test]
fn commented_key_that_looks_like_a_merge_key() {
    let v = CommentedKeyMap(vec![(Commented("<<".to_string(), "note".to_string()), 1)]);
    let yaml = to_string(&v).unwrap();
    // current output: "? << # note\n: 1\n"
    let back: BTreeMap<String, i32> =
        from_str(&yaml).unwrap_or_else(|e| panic!("not readable: {yaml:?}: {e}"));
    assert_eq!(back.get("<<"), Some(&1), "{yaml:?}");
}

#[test]
fn anchored_key_that_looks_like_a_merge_key() {
    struct AnchoredKeyMap(RcAnchor<String>, i32);
    impl Serialize for AnchoredKeyMap {
        fn serialize<S: Serializer>(&self, s: S) -> Result<S::Ok, S::Error> {
            let mut m = s.serialize_map(Some(1))?;
            m.serialize_entry(&self.0, &self.1)?;
            m.end()
        }
    }
    let v = AnchoredKeyMap(RcAnchor(Rc::new("<<".to_string())), 1);
    let yaml = to_string(&v).unwrap();
    // current output: "? &a1 <<\n: 1\n"
    let back: BTreeMap<String, i32> =
        from_str(&yaml).unwrap_or_else(|e| panic!("not readable: {yaml:?}: {e}"));
    assert_eq!(back.get("<<"), Some(&1), "{yaml:?}");
}

// ---------------------------------------------------------------------------------------------
// 5. C12: a plain `String` "\n" (no wrapper) with folded_wrap_chars = 0 is auto-selected for the
//    literal style and written as `|` + one empty line, which is the empty string.
//    (Same encoding as the known `LitStr("\n")` case, reached without any wrapper.)
// ---------------------------------------------------------------------------------------------

#[test]
fn plain_line_break_string_with_zero_wrap_width() {
    let v = vec!["\n".to_string(), "z".to_string()];
    let mut o = SerializerOptions::default();
    o.folded_wrap_chars = 0;
    let yaml = to_string_with_options(&v, o).unwrap();
    // current output: "- |\n  \n- >-\n  z\n"
    let back: Vec<String> =
        from_str(&yaml).unwrap_or_else(|e| panic!("not readable: {yaml:?}: {e}"));
    assert_eq!(back, v, "{yaml:?}");
}

// ---------------------------------------------------------------------------------------------
// 6. C20 / C13: FlowSeq around a value that turns out not to be a sequence (`None`) leaves its
//    flow hint pending; the next sequence anywhere later in the document is written in flow
//    style, and a composite key inside it then makes serialization fail.
// ---------------------------------------------------------------------------------------------

#[derive(Serialize)]
struct Leaky {
    a: serde_saphyr::FlowSeq<Option<Vec<i32>>>,
    c: Vec<BTreeMap<(i32, i32), i32>>,
}

#[derive(Deserialize, Debug, PartialEq)]
struct LeakyBack {
    a: Option<Vec<i32>>,
    c: Vec<BTreeMap<(i32, i32), i32>>,
}

#[test]
fn flow_seq_hint_around_none_leaks_to_the_next_sequence() {
    let mut m = BTreeMap::new();
    m.insert((1, 2), 3);
    let v = Leaky {
        a: serde_saphyr::FlowSeq(None),
        c: vec![m.clone()],
    };
    // current result: Err(Unexpected { msg: "non-scalar key" })
    let yaml = to_string(&v).unwrap_or_else(|e| panic!("cannot serialize: {e}"));
    let back: LeakyBack =
        from_str(&yaml).unwrap_or_else(|e| panic!("not readable: {yaml:?}: {e}"));
    assert_eq!(
        back,
        LeakyBack {
            a: None,
            c: vec![m]
        },
        "{yaml:?}"
    );
}
