//! Defect reproductions for properties C02 (anchors/aliases are transparent) and
//! C06 (scalars are interpreted exactly per requested type and options).
//!
//! Every test asserts the behaviour the property demands and FAILS on the unchanged code.
//! Usable as `tests/hunt.rs`: `cargo test --offline --test hunt`.

use serde::Deserialize;
use serde_json::{Value, json};
use serde_saphyr::{Options, RcAnchor};
use std::borrow::Cow;
use std::collections::BTreeMap;

type OptKeyMap = BTreeMap<Option<String>, String>;

// ---------------------------------------------------------------------------------------------
// Finding 1 (C02): an anchor on an empty node that is used as a mapping key changes the mapping.
// The parser reports an empty node as `~` when it has no properties but as `` (empty text) when
// it carries an anchor; the duplicate-key / merge fingerprint compares text + tag only, so the
// anchored empty key is "the same key" as the quoted string "" and "a different key" than `~`.
// ---------------------------------------------------------------------------------------------

/// Silent wrong value: the explicit `~` entry must win over the merged one, exactly as it does
/// when the `&x` mark is removed.
#[test]
fn c02_anchor_on_empty_merge_key_changes_the_merged_value() {
    let with_anchor = "<<: {? &x : merged}\n~: own\n";
    let without_anchor = "<<: {? : merged}\n~: own\n";

    let expected: OptKeyMap = serde_saphyr::from_str(without_anchor).unwrap();
    assert_eq!(expected, BTreeMap::from([(None, "own".to_string())]));

    let got: OptKeyMap = serde_saphyr::from_str(with_anchor).unwrap();
    assert_eq!(
        got, expected,
        "attaching `&x` to the empty key must not change the value of the mapping"
    );
}

/// Silent loss of an entry: the merged mapping has two different keys (null and the string "").
#[test]
fn c02_anchor_on_empty_merge_key_drops_the_empty_string_entry() {
    let with_anchor = "<<: {? &x : m1, \"\": m2}\nk: v\n";
    let without_anchor = "<<: {? : m1, \"\": m2}\nk: v\n";

    let expected: OptKeyMap = serde_saphyr::from_str(without_anchor).unwrap();
    assert_eq!(expected.len(), 3);
    let got: OptKeyMap = serde_saphyr::from_str(with_anchor).unwrap();
    assert_eq!(got, expected);
}

/// Spurious error: null key and "" key are different keys, with or without the anchor mark.
#[test]
fn c02_anchor_on_empty_key_is_reported_as_duplicate_of_quoted_empty_string() {
    let with_anchor = "\"\": a\n? &x\n: b\n";
    let without_anchor = "\"\": a\n?\n: b\n";

    let expected: OptKeyMap = serde_saphyr::from_str(without_anchor).unwrap();
    let got: Result<OptKeyMap, _> = serde_saphyr::from_str(with_anchor);
    assert_eq!(
        got.map_err(|e| e.to_string()),
        Ok(expected),
        "`? &x` (null key) is not a duplicate of the string key \"\""
    );
}

/// Missed duplicate: two null keys are an error without the anchor, so they must be one with it
/// (here the second value silently overwrites the first one).
#[test]
fn c02_anchor_on_empty_key_hides_a_duplicate_null_key() {
    let with_anchor = "? &x\n: a\n~: b\n";
    let without_anchor = "?\n: a\n~: b\n";

    assert!(serde_saphyr::from_str::<OptKeyMap>(without_anchor).is_err());
    let got = serde_saphyr::from_str::<OptKeyMap>(with_anchor);
    assert!(
        got.is_err(),
        "duplicate null key accepted once the first key is anchored: {got:?}"
    );
}

// ---------------------------------------------------------------------------------------------
// Finding 2 (C06): the words `nan`, `inf`, `infinity` (any case, optional sign) are taken for
// floats; untyped targets even rewrite the text to `.nan` / `.inf`.
// ---------------------------------------------------------------------------------------------

#[test]
fn c06_plain_words_nan_inf_infinity_are_rewritten_in_untyped_targets() {
    let yaml = "name: Nan\nsize: inf\ncity: Infinity\nsign: -infinity\n";
    let got: Value = serde_saphyr::from_str(yaml).unwrap();
    assert_eq!(
        got,
        json!({"name": "Nan", "size": "inf", "city": "Infinity", "sign": "-infinity"}),
        "only the `.nan` / `.inf` forms are floats; these are ordinary strings"
    );
}

#[test]
fn c06_rust_float_words_are_not_yaml_floats() {
    for word in ["nan", "NaN", "inf", "+inf", "-inf", "infinity", "Infinity"] {
        let got = serde_saphyr::from_str::<f64>(word);
        assert!(got.is_err(), "`{word}` accepted as f64: {got:?}");
    }
    // and therefore `no_schema` must not demand quotes for them
    let mut no_schema = Options::default();
    no_schema.no_schema = true;
    let got = serde_saphyr::from_str_with_options::<String>("inf", no_schema);
    assert_eq!(got.map_err(|e| e.to_string()), Ok("inf".to_string()));
}

// ---------------------------------------------------------------------------------------------
// Finding 3 (C06): `!!str` does not protect a null-looking plain scalar in untyped targets.
// ---------------------------------------------------------------------------------------------

#[test]
fn c06_str_tagged_null_like_scalar_is_a_string_for_untyped_targets() {
    // String / Option<String> targets already honour the tag:
    assert_eq!(serde_saphyr::from_str::<String>("!!str null").unwrap(), "null");
    assert_eq!(
        serde_saphyr::from_str::<Option<String>>("!!str ~").unwrap(),
        Some("~".to_string())
    );
    // the untyped target does not:
    let got: Value = serde_saphyr::from_str("[!!str null, !!str ~, !!str Null]").unwrap();
    assert_eq!(got, json!(["null", "~", "Null"]));
}

// ---------------------------------------------------------------------------------------------
// Finding 4 (C06): borrowed string targets (`&str`, `#[serde(borrow)] Cow<str>`), which go
// through `deserialize_str`, skip the rules every other string target follows.
// ---------------------------------------------------------------------------------------------

#[derive(Debug, Deserialize, PartialEq)]
struct Borrowed<'a> {
    #[serde(borrow)]
    s: Cow<'a, str>,
}

/// `!!binary` is documented to be base64-decoded for string targets (unless
/// `ignore_binary_tag_for_string` is set). The borrowed targets hand out the undecoded text.
#[test]
fn c06_binary_tag_is_ignored_by_borrowed_string_targets() {
    let owned: String = serde_saphyr::from_str("!!binary aGk=").unwrap();
    assert_eq!(owned, "hi");

    let got = serde_saphyr::from_str::<Borrowed>("s: !!binary aGk=");
    match got {
        Ok(b) => assert_eq!(b.s, "hi", "raw base64 text delivered instead of the payload"),
        Err(_) => {} // refusing is fine, a different value is not
    }

    let got = serde_saphyr::from_str::<&str>("!!binary aGk=");
    assert_ne!(got.ok(), Some("aGk="), "raw base64 text delivered to &str");
}

/// `no_schema`: an unquoted scalar that reads as a bool/number must be rejected by string targets.
#[test]
fn c06_no_schema_is_not_applied_to_borrowed_string_targets() {
    let mut no_schema = Options::default();
    no_schema.no_schema = true;

    assert!(serde_saphyr::from_str_with_options::<String>("true", no_schema.clone()).is_err());
    let got = serde_saphyr::from_str_with_options::<&str>("true", no_schema.clone());
    assert!(got.is_err(), "no_schema ignored for &str: {got:?}");
    let got = serde_saphyr::from_str_with_options::<Borrowed>("s: 123", no_schema);
    assert!(got.is_err(), "no_schema ignored for Cow<str>: {got:?}");
}

/// `!!str null` is the string "null" (as it is for `String`), and `!!int 5` is no string.
#[test]
fn c06_core_tags_are_mishandled_by_borrowed_string_targets() {
    assert_eq!(serde_saphyr::from_str::<String>("!!str null").unwrap(), "null");
    let got = serde_saphyr::from_str::<&str>("!!str null");
    assert_eq!(got.map_err(|e| e.to_string()), Ok("null"));

    assert!(serde_saphyr::from_str::<String>("!!int 5").is_err());
    let got = serde_saphyr::from_str::<&str>("!!int 5");
    assert!(got.is_err(), "`!!int 5` delivered to &str: {got:?}");
}

// ---------------------------------------------------------------------------------------------
// Finding 5 (C06): `-0` is the integer 0 and fits every unsigned width.
// ---------------------------------------------------------------------------------------------

#[test]
fn c06_minus_zero_fits_unsigned_targets() {
    assert_eq!(serde_saphyr::from_str::<i8>("-0").unwrap(), 0);
    assert_eq!(
        serde_saphyr::from_str::<u8>("-0").map_err(|e| e.to_string()),
        Ok(0)
    );
    assert_eq!(
        serde_saphyr::from_str::<u64>("-0x0").map_err(|e| e.to_string()),
        Ok(0)
    );
    assert_eq!(
        serde_saphyr::from_str::<u128>("-0").map_err(|e| e.to_string()),
        Ok(0)
    );
}

// ---------------------------------------------------------------------------------------------
// Finding 6 (C02): an alias of an anchored node fails for `RcAnchor<T>` when `T` reads an inner
// `RcAnchor<U>` through serde's buffered content (`#[serde(flatten)]`, untagged enums).
// ---------------------------------------------------------------------------------------------

#[derive(Debug, Deserialize)]
struct Inner {
    name: RcAnchor<String>,
}

#[derive(Debug, Deserialize)]
struct Outer {
    id: i64,
    #[serde(flatten)]
    inner: Inner,
}

#[test]
fn c02_alias_of_anchored_node_fails_for_rc_anchor_with_flattened_inner_anchor() {
    // the alias-free expansion is fine
    let expanded = "- {id: 1, name: foo}\n- {id: 1, name: foo}\n";
    let v: Vec<RcAnchor<Outer>> = serde_saphyr::from_str(expanded).unwrap();
    assert_eq!(v.len(), 2);

    // and so is the anchored node on its own
    let v: Vec<RcAnchor<Outer>> = serde_saphyr::from_str("- &x {id: 1, name: foo}\n").unwrap();
    assert_eq!((v[0].id, v[0].inner.name.as_str()), (1, "foo"));

    // but not its alias
    let got = serde_saphyr::from_str::<Vec<RcAnchor<Outer>>>("- &x {id: 1, name: foo}\n- *x\n");
    let v = got.unwrap_or_else(|e| panic!("alias of a valid anchored node rejected: {e}"));
    assert_eq!(v.len(), 2);
    assert_eq!((v[1].id, v[1].inner.name.as_str()), (1, "foo"));
}
