//! Hunt I: defects left in the deserializer (C03 / C04 / C05 / C16).
//! Every test FAILS on the current code and passes once the defect is fixed.
//! Usable as `tests/hunt.rs`: `cargo test --offline --test hunt`.

use serde::Deserialize;
use serde_saphyr::{DuplicateKeyPolicy, Options, Spanned};
use std::collections::BTreeMap;

fn opts(policy: DuplicateKeyPolicy) -> Options {
    serde_saphyr::options! { duplicate_keys: policy }
}

/// Order-preserving list of the pairs of a mapping (keys need neither `Ord` nor `Hash`).
#[derive(Debug)]
struct Pairs<K, V>(Vec<(K, V)>);

impl<'de, K: Deserialize<'de>, V: Deserialize<'de>> Deserialize<'de> for Pairs<K, V> {
    fn deserialize<D: serde::Deserializer<'de>>(d: D) -> Result<Self, D::Error> {
        struct Vis<K, V>(std::marker::PhantomData<(K, V)>);
        impl<'de, K: Deserialize<'de>, V: Deserialize<'de>> serde::de::Visitor<'de> for Vis<K, V> {
            type Value = Pairs<K, V>;
            fn expecting(&self, f: &mut std::fmt::Formatter) -> std::fmt::Result {
                f.write_str("a mapping")
            }
            fn visit_map<A: serde::de::MapAccess<'de>>(
                self,
                mut a: A,
            ) -> Result<Self::Value, A::Error> {
                let mut v = Vec::new();
                while let Some(k) = a.next_key::<K>()? {
                    let val = a.next_value::<V>()?;
                    v.push((k, val));
                }
                Ok(Pairs(v))
            }
        }
        d.deserialize_map(Vis(std::marker::PhantomData))
    }
}

#[derive(Debug, Deserialize, PartialEq)]
enum E {
    U,
    N(i32),
    O(Option<String>),
    OI(Option<i32>),
    J(serde_json::Value),
}

/// C05. `!Variant payload` must give the same value as `{Variant: payload}`.
/// The payload scalar is re-tagged `!!str` (de.rs `deserialize_enum`, `Mode::TaggedNewtype`),
/// so a null payload becomes the text "null" / "~" / "" and an untyped payload a string.
#[test]
fn tagged_newtype_variant_payload_keeps_its_kind() {
    // reference notation
    assert_eq!(serde_saphyr::from_str::<E>("O: null").unwrap(), E::O(None));
    assert_eq!(
        serde_saphyr::from_str::<E>("J: 5").unwrap(),
        E::J(serde_json::json!(5))
    );

    // tag notation
    assert_eq!(
        serde_saphyr::from_str::<E>("!O null").unwrap(),
        E::O(None),
        "`!O null` is Some(\"null\")"
    );
    assert_eq!(
        serde_saphyr::from_str::<E>("!O ~").unwrap(),
        E::O(None),
        "`!O ~` is Some(\"~\")"
    );
    assert_eq!(
        serde_saphyr::from_str::<E>("!OI null").unwrap(),
        E::OI(None),
        "`!OI null` is an error"
    );
    assert_eq!(
        serde_saphyr::from_str::<E>("!J 5").unwrap(),
        E::J(serde_json::json!(5)),
        "`!J 5` is the string \"5\""
    );
}

/// C05. A tagged variant without payload (`!U`, `!U ~`) in an `Option<Enum>` position is the
/// variant, as `U` and `{U: ~}` are - not `None` (de.rs `deserialize_option` looks at the
/// null-like text and ignores the application tag).
#[test]
fn tagged_variant_in_option_position_is_some() {
    let reference: Vec<Option<E>> = serde_saphyr::from_str("- U\n- {U: ~}\n").unwrap();
    assert_eq!(reference, vec![Some(E::U), Some(E::U)]);

    let got: Vec<Option<E>> = serde_saphyr::from_str("- !U\n- !U ~\n").unwrap();
    assert_eq!(got, vec![Some(E::U), Some(E::U)]);

    let got: BTreeMap<String, Option<E>> = serde_saphyr::from_str("a: !U\n").unwrap();
    assert_eq!(got["a"], Some(E::U));

    // `!N ~` is the variant N with a null payload: an error for N(i32), never None
    assert!(serde_saphyr::from_str::<Vec<Option<E>>>("- !N ~\n").is_err());
}

/// C04. The quoted string "~" (or "null") and the null node are different keys: every
/// target reads them as different values, yet the fingerprint (de.rs `KeyNode::fingerprint`,
/// text + tag without style) makes them equal. Error rejects the document, FirstWins silently
/// drops the second entry, LastWins delivers two different keys.
#[test]
fn quoted_tilde_key_is_not_the_null_key() {
    type M = BTreeMap<Option<String>, i32>;
    let doc = "\"~\": 1\n~: 2\n";
    let mut expected = M::new();
    expected.insert(Some("~".to_string()), 1);
    expected.insert(None, 2);

    let last: M = serde_saphyr::from_str_with_options(doc, opts(DuplicateKeyPolicy::LastWins)).unwrap();
    assert_eq!(last, expected); // holds: the keys are different values

    let first: M =
        serde_saphyr::from_str_with_options(doc, opts(DuplicateKeyPolicy::FirstWins)).unwrap();
    assert_eq!(first, expected, "FirstWins dropped the entry of the null key");

    let err: Result<M, _> = serde_saphyr::from_str_with_options(doc, opts(DuplicateKeyPolicy::Error));
    assert_eq!(err.ok(), Some(expected), "Error policy reports a duplicate");
}

/// C04. Sequence keys that differ in their tag are different keys (key identity is structure +
/// text + tag; scalars honour it since the custom-tag fix, `KeyFingerprint::Sequence` does not).
#[test]
fn sequence_keys_with_different_tags_are_not_duplicates() {
    let doc = "? !a [x]\n: 1\n? !b [x]\n: 2\n";
    let got: Pairs<Vec<String>, i32> =
        serde_saphyr::from_str_with_options(doc, opts(DuplicateKeyPolicy::Error))
            .expect("`!a [x]` and `!b [x]` are reported as duplicate keys");
    assert_eq!(got.0.len(), 2);

    let got: Pairs<Vec<String>, i32> =
        serde_saphyr::from_str_with_options(doc, opts(DuplicateKeyPolicy::FirstWins)).unwrap();
    assert_eq!(got.0.len(), 2, "FirstWins dropped the `!b [x]` entry");
}

/// C03 / C04. Repeated keys inside a merge source are resolved "first wins" under every policy
/// (the flush of merged entries skips keys already seen): Error does not report them and
/// LastWins gives the merged mapping another value than the source mapping itself has.
#[test]
fn duplicate_keys_inside_a_merge_source_follow_the_policy() {
    type M = BTreeMap<String, BTreeMap<String, i32>>;
    let doc = "x: &m {a: 1, a: 2}\ny: {<<: *m}\n";
    let got: M = serde_saphyr::from_str_with_options(doc, opts(DuplicateKeyPolicy::LastWins)).unwrap();
    assert_eq!(got["x"]["a"], 2);
    assert_eq!(
        got["y"], got["x"],
        "`y: {{<<: *m}}` differs from the mapping it merges"
    );

    let inline: Result<BTreeMap<String, i32>, _> =
        serde_saphyr::from_str_with_options("<<: {a: 1, a: 2}\n", opts(DuplicateKeyPolicy::Error));
    assert!(
        inline.is_err(),
        "Error policy accepted a mapping with a repeated key: {inline:?}"
    );
}

/// C16. A key reached through a merge has the merge entry as its use site, like the value next
/// to it (and like a key reached through a plain alias); an error raised by such a key reports
/// both places. The pending-entry path passes no use site to `deserialize_recorded_key`.
#[test]
fn merged_key_reports_the_merge_entry_as_use_site() {
    #[derive(Debug, Deserialize)]
    struct D {
        n: Pairs<Spanned<String>, Spanned<i32>>,
    }
    let doc = "m: &m {a: 1}\nn: {<<: *m}\n";
    let d: D = serde_saphyr::from_str(doc).unwrap();
    let (k, v) = &d.n.0[0];
    assert_eq!(k.value, "a");
    // the value: used at `*m` (2:9), defined at `1` (1:11) - correct today
    assert_eq!((v.referenced.line(), v.referenced.column()), (2, 9));
    assert_eq!((v.defined.line(), v.defined.column()), (1, 11));
    // the key: defined at `a` (1:8), used at the same merge entry
    assert_eq!((k.defined.line(), k.defined.column()), (1, 8));
    assert_eq!(
        (k.referenced.line(), k.referenced.column()),
        (2, 9),
        "the merged key names its definition as its use site"
    );

    // the same for errors: a key of the wrong type inside the merged mapping
    let doc = "- &m {a: 2}\n- {<<: *m}\n";
    let err = serde_saphyr::from_str::<(serde::de::IgnoredAny, BTreeMap<i32, i32>)>(doc)
        .map(|_| ())
        .unwrap_err();
    let locs = err.locations().expect("locations");
    assert_eq!(
        (locs.defined_location.line(), locs.defined_location.column()),
        (1, 7)
    );
    assert_eq!(
        (
            locs.reference_location.line(),
            locs.reference_location.column()
        ),
        (2, 8),
        "only the anchored definition is reported, not the `<<: *m` that uses it"
    );
}

/// C16. The span of an omitted value in a flow mapping (`{a, b: x}`, `{a}`) is the following
/// indicator (", " / "}") instead of an empty range; `{a: , b: x}` gives the empty range.
#[test]
fn omitted_flow_mapping_value_has_an_empty_span() {
    type P = Pairs<Spanned<String>, Spanned<Option<String>>>;
    let reference: P = serde_saphyr::from_str("{a: , b: x}\n").unwrap();
    assert_eq!(reference.0[0].1.referenced.span().len(), 0);

    for doc in ["{a, b: x}\n", "{a}\n"] {
        let got: P = serde_saphyr::from_str(doc).unwrap();
        let v = &got.0[0].1;
        assert_eq!(v.value, None);
        let span = v.referenced.span();
        let start = span.byte_offset().unwrap() as usize;
        let text = &doc[start..start + span.byte_len().unwrap() as usize];
        assert_eq!(text, "", "{doc:?}: the null value spans {text:?}");
    }
}
