//! Defects found while checking serde-saphyr against
//!   C09 - all entry points agree (str / slice / reader under any chunking / closure helpers /
//!         borrowed vs owned / BOM), and
//!   C01 - deserialization and error rendering are total (no panic, abort, stack exhaustion, hang).
//!
//! Every test here FAILS on the code as it is and is meant to pass once the defect is repaired.
//! Only the public API and existing dev-dependencies are used.

use serde::Deserialize;
use std::borrow::Cow;
use std::io::{self, Read};
use std::sync::mpsc;
use std::time::Duration;

fn loc_of(e: &serde_saphyr::Error) -> Option<(u64, u64)> {
    e.location().map(|l| (l.line(), l.column()))
}

// ---------------------------------------------------------------------------------------------
// 1. C09: "!!" (a tag handle with an empty suffix) is a null document for from_str, a syntax
//    error for every reader-based entry point.
// ---------------------------------------------------------------------------------------------
#[test]
fn c09_tag_handle_without_suffix_str_vs_reader() {
    for text in ["!!", "- !!", "k: !!\n", "!e! x"] {
        let s = serde_saphyr::from_str::<serde_json::Value>(text);
        let r = serde_saphyr::from_reader::<_, serde_json::Value>(text.as_bytes());
        match (&s, &r) {
            (Ok(a), Ok(b)) => assert_eq!(a, b, "values differ for {text:?}"),
            (Err(a), Err(b)) => assert_eq!(loc_of(a), loc_of(b), "locations differ for {text:?}"),
            _ => panic!(
                "{text:?}: from_str = {:?}, from_reader = {:?}",
                s.as_ref().map_err(|e| e.to_string()),
                r.as_ref().map_err(|e| e.to_string())
            ),
        }
    }
}

// ---------------------------------------------------------------------------------------------
// 2. C09: same error, different column: a comment with a non-ASCII character that runs to the
//    end of the input is measured in characters by the str path and in bytes by the reader path.
// ---------------------------------------------------------------------------------------------
#[test]
fn c09_error_column_after_non_ascii_comment() {
    let text = "x: y\n&b\n #é";
    let s = serde_saphyr::from_str::<serde_json::Value>(text).unwrap_err();
    let r = serde_saphyr::from_reader::<_, serde_json::Value>(text.as_bytes()).unwrap_err();
    assert_eq!(
        loc_of(&s),
        loc_of(&r),
        "from_str: {} / from_reader: {}",
        s.without_snippet(),
        r.without_snippet()
    );
}

// ---------------------------------------------------------------------------------------------
// 3. C09: Spanned<T> read through a reader differs from the one read from a string:
//    (a) the span of a quoted scalar swallows the blanks and the comment after it,
//    (b) character offsets are wrong after a comment with non-ASCII characters.
// ---------------------------------------------------------------------------------------------
#[derive(Debug, Deserialize)]
struct SpannedDoc {
    k: serde_saphyr::Spanned<String>,
}

#[test]
fn c09_spanned_quoted_scalar_length_str_vs_reader() {
    let text = "k: \"a\"   # c\n";
    let s: SpannedDoc = serde_saphyr::from_str(text).unwrap();
    let r: SpannedDoc = serde_saphyr::from_reader(text.as_bytes()).unwrap();
    assert_eq!(s.k.value, r.k.value);
    assert_eq!(
        s.k.referenced.span().len(),
        r.k.referenced.span().len(),
        "character length of the span of the quoted scalar \"a\""
    );
}

#[test]
fn c09_spanned_char_offset_after_non_ascii_comment_str_vs_reader() {
    let text = "# ééé\nk: a\n";
    let s: SpannedDoc = serde_saphyr::from_str(text).unwrap();
    let r: SpannedDoc = serde_saphyr::from_reader(text.as_bytes()).unwrap();
    assert_eq!(
        s.k.referenced.span().offset(),
        r.k.referenced.span().offset(),
        "character offset of the scalar `a` (it is the 10th character of the text)"
    );
}

// ---------------------------------------------------------------------------------------------
// 4. C09 borrowed vs owned: deserialize_str (used by &str and by #[serde(borrow)] Cow<str>)
//    does not follow the rules of deserialize_string.
// ---------------------------------------------------------------------------------------------
#[derive(Debug, Deserialize)]
struct CowDoc<'a> {
    #[serde(borrow)]
    k: Cow<'a, str>,
}
#[derive(Debug, Deserialize)]
struct OwnedDoc {
    k: String,
}

/// `!!binary aGk=` is the text "hi" for String, the text "aGk=" for &str / borrowed Cow.
#[test]
fn c09_borrowed_str_of_binary_scalar_is_not_the_owned_text() {
    let owned: String = serde_saphyr::from_str("!!binary aGk=").unwrap();
    assert_eq!(owned, "hi");
    // Refusing to lend (the decoded text is not in the input) is fine; lending other text is not.
    if let Ok(borrowed) = serde_saphyr::from_str::<&str>("!!binary aGk=") {
        assert_eq!(borrowed, owned, "&str and String disagree on the same scalar");
    }
    let o: OwnedDoc = serde_saphyr::from_str("k: !!binary aGk=").unwrap();
    if let Ok(c) = serde_saphyr::from_str::<CowDoc>("k: !!binary aGk=") {
        assert_eq!(c.k, o.k, "Cow<str> and String disagree on the same scalar");
    }
}

/// `!!str null` is the string "null" (it is verbatim in the input), but &str refuses it as null.
#[test]
fn c09_borrowed_str_of_explicit_str_null() {
    let owned: String = serde_saphyr::from_str("!!str null").unwrap();
    assert_eq!(owned, "null");
    let borrowed = serde_saphyr::from_str::<&str>("!!str null");
    assert_eq!(
        borrowed.as_ref().map_err(|e| e.to_string()).ok().copied(),
        Some("null"),
        "&str: {:?}",
        borrowed.as_ref().map_err(|e| e.without_snippet().to_string())
    );
    let c = serde_saphyr::from_str::<CowDoc>("k: !!str ~");
    assert_eq!(c.map(|c| c.k.into_owned()).map_err(|e| e.to_string()).ok().as_deref(), Some("~"));
}

/// What String rejects, &str must not accept: a scalar tagged !!int, and with no_schema an
/// unquoted number.
#[test]
fn c09_borrowed_str_accepts_scalars_the_owned_string_rejects() {
    assert!(serde_saphyr::from_str::<String>("!!int 12").is_err());
    assert!(
        serde_saphyr::from_str::<&str>("!!int 12").is_err(),
        "&str took a scalar tagged !!int that String rejects"
    );

    let no_schema = || serde_saphyr::options! { no_schema: true };
    assert!(serde_saphyr::from_str_with_options::<String>("12", no_schema()).is_err());
    assert!(
        serde_saphyr::from_str_with_options::<&str>("12", no_schema()).is_err(),
        "no_schema: &str took an unquoted number that String rejects"
    );
}

// ---------------------------------------------------------------------------------------------
// 5. C01: from_multiple / read never terminate for a target type that does not consume input.
// ---------------------------------------------------------------------------------------------
#[derive(Debug)]
struct Inert;
impl<'de> Deserialize<'de> for Inert {
    fn deserialize<D: serde::Deserializer<'de>>(_d: D) -> Result<Self, D::Error> {
        Ok(Inert)
    }
}

#[test]
fn c01_from_multiple_terminates_for_a_type_that_reads_nothing() {
    let (tx, rx) = mpsc::channel();
    std::thread::spawn(move || {
        let r = serde_saphyr::from_multiple::<Inert>("a\n").map(|v| v.len());
        let _ = tx.send(r.map_err(|e| e.to_string()));
    });
    match rx.recv_timeout(Duration::from_secs(5)) {
        Ok(_) => {}
        Err(_) => panic!("from_multiple::<Inert>(\"a\\n\") did not return within 5 seconds"),
    }
}

#[test]
fn c01_read_iterator_ends_for_a_type_that_reads_nothing() {
    let mut reader = "a\n".as_bytes();
    let items = serde_saphyr::read::<_, Inert>(&mut reader).take(10_000).count();
    assert!(
        items < 10_000,
        "the iterator over a one-document stream yielded 10000 items and is still going"
    );
}

// ---------------------------------------------------------------------------------------------
// 6. C01: with the default budget (max_depth 2000) a 1000-deep block sequence exhausts an
//    8 MiB stack in an unoptimised build (about 12 KiB of stack per nesting level).
//    The overflow aborts the process, so it is provoked in a child process.
// ---------------------------------------------------------------------------------------------
#[test]
fn c01_deep_block_sequence_child() {
    if std::env::var_os("HUNT_DEEP_CHILD").is_none() {
        return; // only does something when re-executed by the test below
    }
    let handle = std::thread::Builder::new()
        .stack_size(8 * 1024 * 1024)
        .spawn(|| {
            let text = format!("{}1\n", "- ".repeat(1000));
            // Either a value or an error value is fine.
            let _ = serde_saphyr::from_str::<serde::de::IgnoredAny>(&text).map(|_| ());
            let _ = serde_saphyr::from_reader::<_, serde::de::IgnoredAny>(text.as_bytes()).map(|_| ());
        })
        .unwrap();
    handle.join().unwrap();
}

#[test]
fn c01_deep_block_sequence_default_budget_8mib_stack() {
    let exe = std::env::current_exe().unwrap();
    let out = std::process::Command::new(exe)
        .args(["--exact", "c01_deep_block_sequence_child", "--test-threads=1"])
        .env("HUNT_DEEP_CHILD", "1")
        .output()
        .unwrap();
    assert!(
        out.status.success(),
        "child died ({:?}) on a 1000-deep block sequence with the default budget on an 8 MiB stack: {}",
        out.status,
        String::from_utf8_lossy(&out.stderr).lines().last().unwrap_or("")
    );
}

// ---------------------------------------------------------------------------------------------
// 7. C09 (chunking): ErrorKind::Interrupted is retried for the first byte of a character only;
//    between the bytes of a multi-byte character it is fatal.
// ---------------------------------------------------------------------------------------------
struct Interrupting<'a> {
    data: &'a [u8],
    interrupt_next: bool,
}
impl Read for Interrupting<'_> {
    fn read(&mut self, buf: &mut [u8]) -> io::Result<usize> {
        self.interrupt_next = !self.interrupt_next;
        if !self.interrupt_next {
            return Err(io::Error::new(io::ErrorKind::Interrupted, "EINTR"));
        }
        let n = self.data.len().min(buf.len());
        buf[..n].copy_from_slice(&self.data[..n]);
        self.data = &self.data[n..];
        Ok(n)
    }
}

#[test]
fn c09_reader_interrupted_inside_a_multibyte_character() {
    let text = "- 😀\n- x";
    let expected: Vec<String> = serde_saphyr::from_str(text).unwrap();
    // Sanity: the same reader is fine for ASCII.
    let ascii: Vec<String> = serde_saphyr::from_reader(Interrupting {
        data: b"- a\n- x",
        interrupt_next: true,
    })
    .unwrap();
    assert_eq!(ascii, ["a", "x"]);
    let got = serde_saphyr::from_reader::<_, Vec<String>>(Interrupting {
        data: text.as_bytes(),
        interrupt_next: true,
    });
    assert_eq!(got.map_err(|e| e.to_string()), Ok(expected));
}

// ---------------------------------------------------------------------------------------------
// 8. C09 (from_reader vs read): a reader failure before the first node is reported as
//    "unexpected end of input" by from_reader / with_deserializer_from_reader, as the I/O error
//    it is by read().
// ---------------------------------------------------------------------------------------------
struct Failing;
impl Read for Failing {
    fn read(&mut self, _buf: &mut [u8]) -> io::Result<usize> {
        Err(io::Error::new(io::ErrorKind::PermissionDenied, "boom"))
    }
}

#[test]
fn c09_reader_failure_is_not_reported_as_end_of_input() {
    let mut f = Failing;
    let via_iter = serde_saphyr::read::<_, serde_json::Value>(&mut f)
        .next()
        .expect("one item")
        .unwrap_err();
    assert!(
        matches!(via_iter.without_snippet(), serde_saphyr::Error::IOError { .. }),
        "read(): {via_iter:?}"
    );
    let single = serde_saphyr::from_reader::<_, serde_json::Value>(Failing).unwrap_err();
    assert!(
        matches!(single.without_snippet(), serde_saphyr::Error::IOError { .. }),
        "from_reader reports a failing reader as: {:?}",
        single.without_snippet()
    );
}

// ---------------------------------------------------------------------------------------------
// 9. C01: a visitor that asks for a value without a pending key gets an error value from a real
//    mapping (`{}` -> "value requested before key"), but a panic from the empty mapping that
//    stands in for a null / empty document (src/de.rs deserialize_map, EmptyMap::next_value_seed:
//    unreachable!("no values in empty map")).
// ---------------------------------------------------------------------------------------------
#[derive(Debug)]
struct ValueFirst;
impl<'de> Deserialize<'de> for ValueFirst {
    fn deserialize<D: serde::Deserializer<'de>>(d: D) -> Result<Self, D::Error> {
        struct V;
        impl<'de> serde::de::Visitor<'de> for V {
            type Value = ValueFirst;
            fn expecting(&self, f: &mut std::fmt::Formatter) -> std::fmt::Result {
                f.write_str("a mapping")
            }
            fn visit_map<A: serde::de::MapAccess<'de>>(self, mut a: A) -> Result<ValueFirst, A::Error> {
                let _: serde::de::IgnoredAny = a.next_value()?;
                Ok(ValueFirst)
            }
        }
        d.deserialize_map(V)
    }
}

#[test]
fn c01_value_requested_from_the_empty_map_of_a_null_document_panics() {
    // The behaviour for a real (empty) mapping: an error value.
    assert!(serde_saphyr::from_str::<ValueFirst>("{}").is_err());
    for text in ["~", "", "null\n"] {
        let s = std::panic::catch_unwind(|| serde_saphyr::from_str::<ValueFirst>(text).is_ok());
        assert!(s.is_ok(), "from_str::<ValueFirst>({text:?}) panicked instead of returning an error");
        let r = std::panic::catch_unwind(|| {
            serde_saphyr::from_reader::<_, ValueFirst>(text.as_bytes()).is_ok()
        });
        assert!(r.is_ok(), "from_reader::<_, ValueFirst>({text:?}) panicked instead of returning an error");
    }
}
