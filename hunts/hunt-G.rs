//! Defect reproducers for properties C15 (no observable per-thread state across / inside calls)
//! and C19 (robotics expressions are total and exact; plain literals unchanged).
//!
//! Usable as `tests/hunt.rs`:
//!   cargo test --offline --features robotics,garde,validator --test hunt
//!
//! Every test FAILS on the current code and is written so that any reasonable repair passes.

#![allow(dead_code)]

use serde::Deserialize;
use serde_saphyr::RcAnchor;
use std::cell::RefCell;
use std::panic::{AssertUnwindSafe, catch_unwind};
use std::rc::Rc;

// ---------------------------------------------------------------------------------------------
// C19
// ---------------------------------------------------------------------------------------------

#[cfg(feature = "robotics")]
fn robo(yaml: &str) -> Result<f64, String> {
    let opts = serde_saphyr::options! { angle_conversions: true };
    serde_saphyr::from_str_with_options::<f64>(yaml, opts).map_err(|e| e.to_string())
}

#[cfg(feature = "robotics")]
fn plain(yaml: &str) -> Result<f64, String> {
    let opts = serde_saphyr::options! { angle_conversions: false };
    serde_saphyr::from_str_with_options::<f64>(yaml, opts).map_err(|e| e.to_string())
}

/// Finding 1: a unit function applied to an already unitized value converts a second time
/// (`deg(deg(180))`) or silently accepts mixed units (`deg(rad(pi))`, `deg(90 + rad(1))`).
/// Demanded: degrees are converted to radians exactly once; mixed units are rejected.
#[cfg(feature = "robotics")]
#[test]
fn c19_nested_unit_functions_convert_twice_or_mix_units() {
    use std::f64::consts::PI;
    // Either an error, or the value converted exactly once (PI). Never PI*PI/180.
    for expr in ["deg(deg(180))", "deg(rad(pi))", "deg((deg(180)))", "deg(0 + deg(180))"] {
        match robo(&format!("\"{expr}\"\n")) {
            Err(_) => {}
            Ok(v) => assert!(
                (v - PI).abs() < 1e-12,
                "`{expr}` = {v}: the degree quantity was converted to radians twice \
                 (PI*PI/180 = {})",
                PI * PI / 180.0
            ),
        }
    }
    // Mixed units inside a unit function must be rejected, also under the !degrees tag
    // (where `deg(90) + 1` IS rejected, but `deg(90 + rad(1))` is not).
    let r = robo("!degrees deg(90 + rad(1))\n");
    assert!(r.is_err(), "mixed units accepted: deg(90 + rad(1)) = {r:?}");
}

/// Finding 2: a sexagesimal angle (degrees:minutes:seconds) inside `rad(...)` is never converted:
/// `rad(90:0:0)` is 90.0 "radians", while `!radians 90:0:0` and `deg(90:0:0)` are PI/2.
#[cfg(feature = "robotics")]
#[test]
fn c19_sexagesimal_inside_rad_is_not_converted() {
    use std::f64::consts::FRAC_PI_2;
    let tagged = robo("!radians 90:0:0\n").unwrap();
    assert_eq!(tagged, FRAC_PI_2);
    assert_eq!(robo("deg(90:0:0)\n").unwrap(), FRAC_PI_2);
    match robo("rad(90:0:0)\n") {
        Err(_) => {} // rejecting a degree quantity inside rad() is fine too
        Ok(v) => assert_eq!(
            v, FRAC_PI_2,
            "rad(90:0:0) = {v}: the degree quantity 90:0:0 was converted zero times"
        ),
    }
    match robo("!radians rad(90:0:0)\n") {
        Err(_) => {}
        Ok(v) => assert_eq!(v, FRAC_PI_2, "!radians rad(90:0:0) = {v}"),
    }
}

/// Finding 3: the seconds field of a sexagesimal literal is not evaluated exactly: it is
/// assembled as `whole + digits / 10^n` in f64 (two roundings, and the digit accumulator itself
/// rounds above 2^53), so `0:0:1.14` is 1.1400000000000001 and eighteen nines give a value > 1.
#[cfg(feature = "robotics")]
#[test]
fn c19_sexagesimal_seconds_are_not_exact() {
    // 0 h, 0 min, 1.14 s  ==  1.14 s
    let v = robo("0:0:1.14\n").unwrap();
    assert_eq!(v.to_bits(), 1.14f64.to_bits(), "0:0:1.14 = {v:?}, expected 1.14");
    // 0.999999999999999999 < 1, the nearest double is 1.0; the code returns 1.0000000000000002
    let v = robo("0:0:0.999999999999999999\n").unwrap();
    assert!(v <= 1.0, "0:0:0.999999999999999999 = {v:?} which is greater than 1");
    // one minute and 10.842835 seconds
    let v = robo("0:1:10.842835\n").unwrap();
    let expected = 0.0 * 3600.0 + 1.0 * 60.0 + 10.842835f64;
    assert_eq!(v.to_bits(), expected.to_bits(), "0:1:10.842835 = {v:?}, expected {expected:?}");
}

/// Finding 4: under `!degrees` an ordinary float literal is handed to the expression evaluator,
/// which does not know every literal the ordinary float parser accepts. `infinity` (accepted
/// untagged with the option on, and tagged with the option off) becomes an error, and so does a
/// literal padded with white space that only `str::trim` strips.
#[cfg(feature = "robotics")]
#[test]
fn c19_degrees_tag_rejects_ordinary_literals() {
    // Baselines that hold today:
    assert_eq!(plain("!degrees infinity\n"), Ok(f64::INFINITY)); // option off
    assert_eq!(robo("infinity\n"), Ok(f64::INFINITY)); // option on, no tag
    assert_eq!(robo("!degrees inf\n"), Ok(f64::INFINITY)); // option on, other spelling
    // Defect: inf degrees is inf radians, not an error
    assert_eq!(robo("!degrees infinity\n"), Ok(f64::INFINITY));
    assert_eq!(robo("!degrees -Infinity\n"), Ok(f64::NEG_INFINITY));
    // Same literal, padded with a form feed / NBSP: accepted everywhere but here
    assert_eq!(plain("!degrees \"\\f90\"\n"), Ok(90.0));
    assert_eq!(robo("\"\\f90\"\n"), Ok(90.0));
    assert_eq!(robo("!degrees \"\\f90\"\n"), Ok(90.0f64 * (std::f64::consts::PI / 180.0)));
}

// ---------------------------------------------------------------------------------------------
// C15
// ---------------------------------------------------------------------------------------------

thread_local! { static LOG: RefCell<Vec<String>> = const { RefCell::new(Vec::new()) }; }

/// Payload whose destructor parses a tiny, unrelated YAML document.
#[derive(Debug)]
struct ParsesOnDrop(i32);
impl<'de> Deserialize<'de> for ParsesOnDrop {
    fn deserialize<D: serde::Deserializer<'de>>(d: D) -> Result<Self, D::Error> {
        Ok(ParsesOnDrop(i32::deserialize(d)?))
    }
}
impl Drop for ParsesOnDrop {
    fn drop(&mut self) {
        let r = catch_unwind(AssertUnwindSafe(|| serde_saphyr::from_str::<i32>("41")));
        let s = match r {
            Ok(r) => format!("{r:?}"),
            Err(_) => "PANIC".to_string(),
        };
        LOG.with(|l| l.borrow_mut().push(s));
    }
}

/// Finding 5: `from_str::<i32>("41")` is `Ok(41)` on a fresh thread, but panics with
/// "RefCell already borrowed" (src/anchor_store.rs with_document_scope) when it runs while the
/// anchor table of another document is being torn down: the table (which owns the last `Rc` of
/// an anchored value after a failed parse, or after the caller discarded the value) is dropped
/// while the thread-local `RefCell` is still mutably borrowed.
#[test]
fn c15_parse_nested_in_teardown_of_anchor_table_panics() {
    // A document that fails after an anchored node was stored.
    let outer = catch_unwind(AssertUnwindSafe(|| {
        serde_saphyr::from_str::<Vec<RcAnchor<ParsesOnDrop>>>("- &a 1\n- nope\n").map(|_| ())
    }));
    let log = LOG.with(|l| l.borrow().clone());
    assert!(matches!(outer, Ok(Err(_))), "outer call must fail with an error, not panic");
    assert!(!log.is_empty());
    assert!(
        log.iter().all(|s| s == "Ok(41)"),
        "from_str::<i32>(\"41\") nested in the teardown of another document gave {log:?}"
    );
}

// ---------------------------------------------------------------------------------------------
// C15 (serializer side): result depends on allocator address reuse, not only on the argument
// ---------------------------------------------------------------------------------------------

#[derive(serde::Serialize)]
struct Leaf {
    x: i32,
}

/// Serializes three *independent* values, each wrapped in a short-lived `RcAnchor`.
struct ThreeTemporaries;
impl serde::Serialize for ThreeTemporaries {
    fn serialize<S: serde::Serializer>(&self, s: S) -> Result<S::Ok, S::Error> {
        use serde::ser::SerializeSeq;
        let mut seq = s.serialize_seq(Some(3))?;
        for i in 0..3 {
            let tmp = RcAnchor(Rc::new(Leaf { x: i }));
            seq.serialize_element(&tmp)?;
        }
        seq.end()
    }
}

/// Finding 6: the serializer's anchor table is keyed by the address of the `Rc` payload and is
/// never told that the payload died. A value whose allocation reuses the address of an earlier,
/// already dropped value is emitted as an alias of that other value: data is lost
/// (`- &a1 {x: 0}`, `- *a1`, `- &a2 {x: 2}` on the test machine).
#[test]
fn c15_serializer_aliases_unrelated_values_on_address_reuse() {
    let yaml = serde_saphyr::to_string(&ThreeTemporaries).unwrap();
    #[derive(Deserialize)]
    struct L {
        x: i32,
    }
    let back: Vec<L> = serde_saphyr::from_str(&yaml).unwrap();
    let xs: Vec<i32> = back.iter().map(|l| l.x).collect();
    assert_eq!(xs, vec![0, 1, 2], "serialized as:\n{yaml}");
}

// ---------------------------------------------------------------------------------------------
// C15: the thread-local anchor context is observed by deserializations that do not go through
// the YAML deserializer (serde's buffered `Content`, another format's deserializer)
// ---------------------------------------------------------------------------------------------

#[derive(Debug, Deserialize)]
struct LeafD {
    x: i32,
}
#[derive(Debug, Deserialize)]
struct InnerD {
    p: RcAnchor<LeafD>,
    q: RcAnchor<LeafD>,
}
#[derive(Debug, Deserialize)]
struct OuterD {
    #[serde(flatten)]
    inner: InnerD,
}

/// Finding 7: inside an anchored `RcAnchor<Outer>` node, fields that serde deserializes from its
/// internal buffer (`#[serde(flatten)]`, untagged / internally tagged enums) run
/// `RcAnchor::<T>::deserialize` without the shielding frame that the YAML deserializer pushes, so
/// they read the anchor id of the ENCLOSING node from the thread-local stack: the first one
/// registers itself under that id and every later one is replaced by it. `q` silently gets the
/// value of `p`. Without the `&a` the same document gives p=1, q=2.
#[test]
fn c15_anchor_context_leaks_into_buffered_fields() {
    let plain: RcAnchor<OuterD> = serde_saphyr::from_str("p: {x: 1}\nq: {x: 2}\n").unwrap();
    assert_eq!((plain.inner.p.x, plain.inner.q.x), (1, 2));
    let anchored: RcAnchor<OuterD> = serde_saphyr::from_str("&a\np: {x: 1}\nq: {x: 2}\n").unwrap();
    assert_eq!(
        (anchored.inner.p.x, anchored.inner.q.x),
        (1, 2),
        "an anchor on the enclosing node changed the value of field q"
    );
    assert!(!Rc::ptr_eq(&anchored.inner.p.0, &anchored.inner.q.0));
}

/// A payload whose Deserialize reads two unrelated JSON texts.
#[derive(Debug)]
struct ViaJson(i32, i32);
impl<'de> Deserialize<'de> for ViaJson {
    fn deserialize<D: serde::Deserializer<'de>>(d: D) -> Result<Self, D::Error> {
        let _ = String::deserialize(d)?;
        let a: RcAnchor<LeafD> = serde_json::from_str("{\"x\": 1}").unwrap();
        let b: RcAnchor<LeafD> = serde_json::from_str("{\"x\": 2}").unwrap();
        Ok(ViaJson(a.x, b.x))
    }
}

/// Finding 8 (same cause as 7, the "nested call" face of it): a deserialization of
/// `RcAnchor<Leaf>` from an unrelated JSON text gives `x = 2` on a fresh thread, but `x = 1`
/// when it runs inside a user `Deserialize` impl of an anchored YAML node, after an earlier
/// nested call registered its value under the YAML node's anchor id.
#[test]
fn c15_nested_foreign_deserialization_sees_yaml_anchor_context() {
    let fresh = std::thread::spawn(|| {
        let b: RcAnchor<LeafD> = serde_json::from_str("{\"x\": 2}").unwrap();
        b.x
    })
    .join()
    .unwrap();
    assert_eq!(fresh, 2);
    let not_anchored: RcAnchor<ViaJson> = serde_saphyr::from_str("s\n").unwrap();
    assert_eq!((not_anchored.0.0, not_anchored.0.1), (1, 2));
    let anchored: RcAnchor<ViaJson> = serde_saphyr::from_str("&a s\n").unwrap();
    assert_eq!(
        (anchored.0.0, anchored.0.1),
        (1, 2),
        "nested in an anchored node the second, unrelated parse returned the first one's value"
    );
}
