#!/usr/bin/env python3
"""Regenerates /verif/MANIFEST.json from the table below (kept next to the checks it describes)."""
import json, os

ROOT = os.path.dirname(os.path.abspath(__file__))

# id -> (category, technique, level text, level note, design ref)
CHECKS = {
    "C01": ("model_checking",
            "complete enumeration of all token strings up to the length bound x targets x entry points x option vectors, each executed on the real library in a child process with a hang watchdog and abort bisection; deep/wide families on a size grid on an 8 MiB stack",
            "Every string of up to 3 (thorough 4) tokens over a 36-token alphabet (YAML indicators, anchors, aliases, tags, block scalar headers, document markers, directives, multi-byte characters, BOM, invalid UTF-8 bytes, NUL) x 15 target types x 23 (entry point, option vector) combinations (from_str, from_slice, from_reader whole and 1-byte reads, from_multiple, from_slice_multiple, read iterator drained, with_deserializer_from_str / _from_reader; default, no budget, every budget limit 3, FirstWins/LastWins, no_schema + strict booleans + legacy octal, snippets off, alias limits) is executed; every returned error is rendered 6 ways (Display, Debug, render, two formatters, miette). The product runs in child processes: a panic is caught and attributed, an abort / stack overflow / out-of-memory kills the child and the parent bisects the index range down to the single input, a call that does not return within 5 s is named by the in-child watchdog. 11 deep / wide families (nested sequences, mappings, flow collections, indentation ladders, long scalars, many anchors / aliases / documents) are run on a grid of sizes around the budget boundaries, each point in its own child on an 8 MiB main-thread stack. Isolated probes keep the once-hanging reader/directive class under watch.",
            "Trusted: the child-process isolation (exit codes, watchdog); stack figures are those of this build (release, overflow-checks and debug-assertions on for serde-saphyr) on this machine.",
            "DESIGN.md §3 C01"),
    "C18": ("model_checking",
            "complete enumeration of violated-constraint subsets x provenance of every constrained value x layouts x both validation crates x entry points on the real library, positions compared with the generator's position table; streams with every subset of failing documents",
            "A fixed family of validated types (root struct with camelCase-renamed fields and a raw-identifier field, nested struct with a kebab-case-renamed leaf two levels down, a sequence of structs, an optional struct), derived once with garde and once with validator. Every subset of the 8 constraints is violated (2^8) x every provenance vector of the constrained values (written in place / alias of an anchored scalar / through a merge key / alias inside a merged mapping / the whole struct holding the field is an alias; thorough: the full product 4320, quick: 120 tied vectors) x block|flow x garde|validator x from_str|from_slice|from_reader. With no violation the validating entry point must return exactly what the plain one returns; otherwise the error must be the validation variant, report exactly the violated fields, each with the YAML spelling of its leaf, its use site equal to the generator's position of that field's value (alias token, merge entry) and - if reached through an anchor - the position of the anchored literal as definition site; the same is demanded of Error::locations() for single violations. Observed through a capturing Localizer, i.e. through the public rendering interface. Streams of 3 (thorough 4) documents with every subset of failing documents: all failing documents must be reported, none of the passing ones.",
            "Trusted: the generator's position table (self-checked against raw parser events); the convention that a value reached through a merge is 'used' at either token of the merge entry and one reached through an aliased struct at that alias token or at its position inside the anchored mapping. Inner path segments may keep their Rust spelling (only the leaf is resolved by the library); for reader input the definition site is observable for the first issue only.",
            "DESIGN.md §3 C18"),
    "C17": ("model_checking",
            "bounded-exhaustive enumeration of failing documents built from (reflection channel x payload x padding x line structure) x crop radii x formatters x entry points; rendered text judged against a reference of the documented window",
            "(a) Every failing (input, target) pair of the C01 token space up to the length bound (quick 3, thorough 4 tokens), through from_str and from_reader, x crop radii; (b) 7 reflection channels (ways input text reaches the message: unknown field, unknown variant, duplicate key, invalid value, alias name, tag, plain source line) x 12 payloads (terminal escape sequences, C0, DEL and C1 characters written as YAML escapes and raw) x padding before / after the reflected text (multi-byte, up to 20000 characters) x LF|CRLF x from_str|from_reader x 6 crop radii (0, 1, small, default, huge). Each error is rendered with Display, render, the user formatter, a custom formatter, snippets off and (string input) the miette adapter. For each rendering: no control character other than newline/tab, at most 2 context lines either side, each shown line no wider than the window, the located line is shown and the marker sits under the reported column (where tabs / wide characters do not make columns incomparable).",
            "Trusted: the harness' parser of the rendered snippet format (gutter, line numbers, marker line). Conventions recorded in DESIGN.md: tab expansion, East-Asian-wide characters and the line after EOF are not compared for the marker clause.",
            "DESIGN.md §3 C17"),
    "C02": ("model_checking",
            "bounded-exhaustive enumeration of all small anchor/alias node trees, metamorphic oracle against the reference alias expansion, real code executed on every tree",
            "Every node tree up to the node bound (quick <=5, thorough <=6 nodes plus <=7 over a tiny alphabet) with anchors on scalars/sequences/mappings/keys, re-definitions, aliases in key/value/item/merge-value position, in three layouts and for every applicable target, is deserialized twice by the real library: as written and after the harness' reference expansion (aliases replaced by copies of the most recently anchored node, anchors removed). Results must be equal; unresolvable or self-referential aliases must be errors. The space is enumerated completely, so the verdict is a coverage statement for that scope.",
            "Trusted: saphyr-parser's event stream as the definition of the document (every rendered text is self-checked against raw parser events; mismatches are counted as generator_rejected and never reported); the harness' reference expansion (40 lines).",
            "DESIGN.md §3 C02"),
    "C03": ("model_checking",
            "bounded-exhaustive enumeration of merge-entry sequences, reference merge on document trees, metamorphic comparison with the explicitly merged document through the real code",
            "All sequences of up to N entries (quick 3 for the full product, 4 for the untyped target; thorough one more) over a 23-entry menu (own keys, << with alias / inline map / sequence / nested sequence / null, sources with one and two nested << entries and << sequences, invalid merge values, quoted and tagged << look-alikes) x 3 duplicate-key policies x 4 targets (ordered untyped tree, BTreeMap, struct, order-preserving pair collector) x 2 layouts. The harness' reference merge writes the mapping out in full (own entries first, then sources from last to first, recursively); the real library must give the same value (and key order) for both documents, must reject invalid merge values, and the explicit document's value is checked against an independent untyped reference.",
            "Trusted: saphyr-parser events (generator self-check), the 40-line reference merge. Order of merged keys is part of the comparison (as the statement says keys come from own entries first, then sources last to first).",
            "DESIGN.md §3 C03"),
    "C04": ("model_checking",
            "bounded-exhaustive enumeration of mappings with repeated keys of every YAML kind x policies x contexts x targets; reference de-duplication; real code executed under all three policies",
            "All mappings with up to N entries (quick 2 over the full 12-key x 5-value alphabet, 3 over a reduced one; thorough one more) with scalar (plain/quoted/tagged), sequence, mapping and aliased keys and small/large/aliased/block-scalar values, nested at the root of an item, as a mapping value and as a sequence item with a trailing sibling that exposes a mis-sized skip, block and flow, read into an overwriting map, an order-preserving pair collector and a struct. Error must fail with DuplicateMappingKey located at the first repeated key (generator position table), FirstWins must equal the real library's result on the document with later duplicates deleted, LastWins must deliver every entry in order (pair collector) / keep the last (map); without repeated keys all three policies must agree and match the reference value.",
            "Trusted: saphyr-parser events (generator self-check); key identity as stated by the property (structure + text + tag, style-insensitive). For the struct target only 'an error' is required under Error (serde's own duplicate-field / non-string-key errors may come first).",
            "DESIGN.md §3 C04"),
    "C05": ("model_checking",
            "bounded-exhaustive enumeration of (run-time schema, document) pairs: all schemas up to a constructor bound x canonical documents x all single (and for small schemas double) edit mutants, against a reference interpreter over the parser-validated document tree",
            "All schemas with up to N type constructors (quick 3, thorough 4) over bool/i64/String, Option, Vec, tuples, maps, structs (with and without deny_unknown_fields) and an enum with unit/newtype/tuple/struct variants, realised by a DeserializeSeed that issues exactly the deserialize_* calls of a derived impl; for each schema all canonical documents (every variant in every notation) and all single-edit mutants (replace by another kind, insert/delete/swap elements, rename/duplicate keys, bare variant names, tag changes), double edits for schemas up to a size bound, block and flow. A reference interpreter (definite only where the statement is) predicts value / error / unspecified; the real result must equal the value, be an error where the reference says so, and in unspecified cases no scalar token may be delivered at a position other than its own.",
            "Trusted: the reference interpreter (Unspecified wherever the statement is silent: quoted scalars for non-string targets, null for containers, tagged mappings, null struct keys, bare payload variants' own value); serde's derived-impl behaviour as mirrored by the seed.",
            "DESIGN.md §3 C05"),
    "C07": ("model_checking",
            "bounded-exhaustive threshold check (limit = independently counted usage must pass, usage-1 must fail with that breach kind) on every small document, plus explicit-state search (stateright BFS) over document histories for per-document enforcement",
            "For every collection-rooted tree of the C02 alphabet up to the node bound (quick 4, thorough 5 nodes; plus canonical-anchor trees with 3+ anchors) and the entry points from_str / from_reader / from_multiple: an independent counter over raw saphyr-parser events plus replayed events predicts events, nodes, depth, aliases, distinct anchors, scalar bytes, merge keys and documents; the BudgetReport handed to the callback and the report of check_yaml_budget must equal it field by field; for each of the 8 counters the real library must accept with limit = usage and must fail with Error::Budget of the matching kind with limit = usage-1; four alias/anchor-ratio settings around the boundary. Per-document enforcement: stateright BFS over all streams of up to N documents (quick 3, thorough 4) of 8 kinds (anchors, nesting, long scalar, merge, late type error, null...) read through read_with_options under 15 budgets derived from the maximum single-document usage and one less: the verdict list must equal the concatenation of the verdicts each document gets on its own (run twice, state counts must agree; coverage 'sometimes' properties must be discovered).",
            "Trusted: saphyr-parser events; the reference counter (120 lines; convention: every raw event counts, including stream and document markers; an alias replays the fully expanded anchored node at its depth). Thresholds only for documents that deserialize into the untyped tree with unlimited budget.",
            "DESIGN.md §3 C07"),
    "C09": ("model_checking",
            "exhaustive schedule enumeration: every partition of each short input's bytes into read() calls (all 2^(n-1) schedules), real entry points compared with each other",
            "Every token string of up to N tokens (quick 3, thorough 4) over a 26-token alphabet (1/2/3/4-byte characters, LF, CR, CRLF, BOM, indicators, anchors, tags, block scalars, document markers) x 5 owned targets: from_str, from_slice, with_deserializer_from_str/slice, from_reader and with_deserializer_from_reader must return equal values or errors of the same variant at the same line/column, the reader under EVERY partition of the input bytes into read calls for inputs up to 12 (thorough 16) bytes and under chunk sizes 1,2,3,5,8,4096 beyond; a leading BOM is ignored; &str targets succeed exactly for verbatim single-line scalars, point into the input buffer and equal the owned result; visit_borrowed_str is never called for reader input. A 16-document corpus of longer inputs rides along.",
            "Trusted: the scheduled reader (returns exactly the scheduled slice, never 0 before EOF); error identity = variant name after without_snippet + line/column.",
            "DESIGN.md §3 C09"),
    "C10": ("fault_enumeration",
            "exhaustive fault-position enumeration on the real reader/writer paths: every read call index, every byte offset, every mid-character EOF, cap values around the input length, every write call index",
            "For each of 33 corpus documents (scalars, containers, streams whose every line-prefix is a complete document, multi-document streams, null-like first documents, trailing comment regions, multi-byte tails, BOM) x chunkings {1, 3, whole} x entry points {from_reader, with_deserializer_from_reader, read iterator} x error kinds: the k-th read fails for every k, the reader fails after every byte offset, and the stream ends inside every multi-byte character. If the instrumented reader really returned the error, single-document entry points must return Err (never a value from the truncated prefix) and the iterator's Ok items must be a prefix of the fault-free items, contain at least one Err, and end. max_reader_input_bytes in {0,1,n-2..n+2}: over the cap -> Err, within -> identical to no cap; endless readers must fail after pulling at most cap + 32 KiB. Writer: for every value of the C13 corpus (<=3 nodes quick, <=4 thorough) the k-th write fails for every k: Err(IO) with the injected kind, accepted bytes a prefix of the fault-free output.",
            "Trusted: the instrumented reader/writer (they keep failing after the first injected error). Conventions: the cap applies to the decoded text (a BOM eaten by the decoder is not counted); which error variant reports a reader failure is counted but not judged (the statement demands 'an error').",
            "DESIGN.md §3 C10"),
    "C11": ("model_checking",
            "explicit-state BFS (stateright) over document histories with the real library as transition function; every reachable history state judged against the per-document oracle",
            "All sequences of up to N documents (quick 4, thorough 5) over 16 document kinds (valid maps, empty, '~', 'null', defines an anchor, aliases an anchor of an earlier document, type error in the first / last node, syntax error, unterminated flow, errors at the very first token, '...' end marker with trailing comment) rendered with 3 separator styles. For every history the real from_multiple, from_slice_multiple, read (drained with a hard item cap), from_str and from_reader are run on the stream and compared with the list obtained by classifying each document on its own text: batch = values of the non-null documents or Err; iterator = the same items in order, continuing after type-level errors, ending after the first syntax-level error, always terminating; single-document entry points reject any second document. stateright explores the full space (1+16+16^2+...), is run twice (state counts must agree) and its three 'sometimes' coverage properties must be discovered.",
            "Trusted: classification of a document on its own text (raw parser rejects = syntax-level). Whether the iterator can continue after an 'unknown anchor' parser error is treated as unspecified (either is accepted).",
            "DESIGN.md §3 C11"),
    "C13": ("model_checking",
            "bounded-exhaustive enumeration of all small value trees over the Serde data-model shapes x serializer option vectors, typed identity round trip through the real serializer and deserializer",
            "Every value tree of up to N nodes (quick 4, thorough 5: 760k values) over 13 leaf shapes (int, unit, bool, short / multi-line / empty string, None, float, empty seq / map, unit variant, unit struct, char), 8 one-child container shapes (Some, 1-element seq, newtype struct, map with string / int / bool key, the child as a map KEY, newtype variant) and 7 two-child shapes (seq, tuple, tuple struct, string-keyed map, struct, tuple variant, struct variant) - so every parent/child and sibling shape pair occurs - under all 128 combinations of indent 2|3, compact_list_indent, empty_as_braces, quote_all, yaml_12, prefer_block_scalars, tagged_enums (plus indent 1/4/8 and a custom anchor-name generator on the <=3-node set). The emitted text must scan in saphyr-parser as exactly one document and a typed, seed-driven read-back (issuing the same deserialize_* calls as a derived impl) must return the same value.",
            "Trusted: saphyr-parser as judge of well-formedness; the run-time DeserializeSeed. Not representable by construction and therefore not test cases: Some(null-like), the explicit-empty-key idioms ({} in an Option key, {~: v} keys), and - only with empty_as_braces=false, whose documented effect is to write empty collections as nothing - empty collections at the root, inside Some or inside a key.",
            "DESIGN.md §3 C13"),
    "C14": ("model_checking",
            "exhaustive enumeration of all set partitions of the strong slots of a fixed layout into shared allocations x payload kinds x Rc|Arc x weak-edge sets; pointer-equality oracle on the real round trip",
            "A document type with six strong anchor slots (two struct fields, two sequence elements, a map value, a field of a nested struct) and a list of weak anchors. Every set partition of the first k slots (quick k<=4, thorough all 203 partitions of 6) into shared allocations, x 6 payload kinds (String, Vec, BTreeMap, Option (None and Some), unit, a struct that itself holds an RcAnchor) x Rc|Arc x weak-edge sets (none; one edge to each live class or to a dropped target; all pairs) is serialized and read back by the real library: for every pair of slots Rc::ptr_eq / Arc::ptr_eq after must equal before, values must be equal, live weak edges must upgrade to the right allocation, dangling ones must stay dangling, and each shared payload must be emitted exactly once. Chains of 1..3 (thorough 4) nodes through RcRecursive/ArcRecursive with every back edge (Option<RcRecursion>) must be restored.",
            "Trusted: Rc::ptr_eq / Arc::ptr_eq as the sharing observer. Slots beyond k are unshared allocations of their own.",
            "DESIGN.md §3 C14"),
    "C15": ("model_checking",
            "explicit-state BFS (stateright) over call histories; each history replayed on a fresh OS thread with the real library as transition function; last call compared with the same call made first",
            "Call alphabet of 41 calls: 17 base calls (successful parse, failure midway through an anchored node, failure inside an RcAnchor context, failure inside an RcRecursive in-progress context, budget breach, alias limit, missing field, a visitor that panics mid-document (caught), a streaming iterator advanced once and dropped, from_multiple failing on its second document, serialization with shared anchors, serialization into a failing writer, closure helper returning early, Rc sharing / weak / recursive parses, and two public probes that read the thread-local error-location fallback and the anchor-context stack) plus 3 outer parses x (no nested call + 7 calls nested inside a user Deserialize impl between an anchor definition and its alias). All histories of length <= 2 (quick) / <= 3 (thorough, 70k histories) are replayed on fresh OS threads; the observation of the last call (value, error variant, line/column, message, pointer-sharing) must equal its observation as first call on a fresh thread; nested calls must leave the outer result unchanged and return what they return alone. Run twice, state counts must agree.",
            "Trusted: a fresh OS thread has clean thread-locals; the crate has no process-global mutable state (grep in DESIGN.md §1: only two thread_local cells are mutable).",
            "DESIGN.md §3 C15"),
    "C16": ("model_checking",
            "bounded-exhaustive enumeration of small documents x layouts, location-arithmetic reference from the generator's position table; every node read through Spanned, every leaf in turn turned into an error",
            "Every tree up to the node bound (quick 4, thorough 5) over ten leaf forms (plain, 2- and 4-byte characters, double / single quoted with escapes, literal block, integers, anchored scalars with a non-ASCII anchor name, aliases) under 36 layouts (LF | CRLF | CR) x (indent 1,2,3) x (comments before/after nodes) x (wide spacing), block and flow. Each document is read into a tree whose every leaf, item, key and value is Spanned: every referenced/defined location must lie inside the input with line, column, character offset and byte offset denoting the same position (recomputed from the text), must equal the generator's position of that node (alias: use site = the alias token, definition site = the anchored node), and for scalars the byte range must be exactly the node's source token. Then every value leaf in turn is replaced by a non-integer against a typed target: the error location must be that node's position; every tree with an alias of an anchored scalar is typed so that the alias position fails: Error::locations() must be (alias token, anchored node). Hand-built families: error through an alias in mapping-value position, values reached through a merge (use site = the merge entry, definition site = the anchored entry), all under every layout.",
            "Trusted: saphyr-parser events (generator self-check). Conventions: a node's position is where its content token starts (after anchor/tag); block scalars (|, >) are only checked for consistency because the parser places them at their first content line; merged keys are checked for consistency and definition site only.",
            "DESIGN.md §3 C16"),
    "C06": ("model_checking",
            "complete enumeration of the finite product token x style x tag x target x option vector against table-driven reference functions; all byte strings / all short strings for base64",
            "About 590 tokens (every integer-width boundary 2^k-1, 2^k, 2^k+1 for k in 7..128 in decimal, 0x, 0o, 0b with +/-; separators, leading zeros, legacy octal, malformed neighbours; YAML 1.1/1.2 booleans in all spellings and near misses; float forms incl. .inf/.nan variants, 17-digit and f32 midpoint literals; null-likes; chars; look-alike strings) x 5 scalar styles x 8 tags x 22 targets (i8..i128, u8..u128, f32, f64, bool, char, String, Cow<str>, Option<String>, Option<i32>, (), untyped tree, serde_json::Value, ByteBuf) x option vectors (quick 7, thorough all 16 combinations of strict_booleans, no_schema, legacy_octal_numbers, ignore_binary_tag_for_string), each cell at document root and embedded in a sequence and a mapping. Reference functions written from the documentation give must-accept-with-exact-value / must-reject / if-accepted-then-exact / unspecified; additionally root and embedded results must agree and a flag may change a cell only inside its documented domain. !!binary: every byte string up to 2 (thorough 3) bytes round-trips through canonical base64; every string up to 5 (thorough 6) symbols over {A,B,Q,g,/,+,=,space,newline,-,_,z} is accepted exactly when the base64 crate's strict STANDARD engine accepts it after white-space removal.",
            "Trusted: the reference tables (DESIGN.md §6b) - definite only where README / rustdoc are; Rust's str::parse for correctly rounded floats; the base64 crate as strict reference.",
            "DESIGN.md §3 C06"),
    "C12": ("model_checking",
            "bounded-exhaustive enumeration of scalar values x positions x serializer option vectors, identity round-trip oracle on the real serializer and deserializer",
            "All strings up to the length bound over a 52-symbol adversarial alphabet plus 150 look-alike words, in 12 positions (root, sequence item, nested item, map value/key, flow item/value/key, struct field, newtype/tuple variant payload, map inside sequence) under every combination of quote_all, yaml_12, prefer_block_scalars, compact_list_indent, tagged_enums x indent steps x two fold widths; all integer boundaries of every width; a complete f32 sub-lattice (thorough: all 2^32 patterns) and an f64 boundary lattice; chars, unit, options, byte arrays. Each value is serialized by the real serializer, must scan as exactly one document in saphyr-parser and must read back as the identical value; emitted floats must match the YAML float grammar.",
            "Trusted: saphyr-parser as judge of well-formedness; Rust's PartialEq on the value types. Bounds: string length <=2 (quick) / <=3 (thorough) under all option vectors, one more character under default options.",
            "DESIGN.md §3 C12"),
}

NOT_APPLICABLE = {
}

# built but not yet claimed: they still report untriaged violations on the unchanged tree
PENDING = set()

ALL = ["C%02d" % i for i in range(1, 21)]

def main():
    checks = []
    for pid in ALL:
        if pid not in CHECKS or pid in PENDING:
            continue
        cat, tech, text, note, ref = CHECKS[pid]
        checks.append({
            "property_id": pid,
            "quick_cmd": f"./check {pid} quick",
            "thorough_cmd": f"./check {pid} thorough",
            "evidence_file": f"/verif/evidence/{pid}.json",
            "replay_cmd_template": f"./check {pid} --replay {{path}}",
            "engine": "vh",
            "level_claimed": {"category": cat, "text": text, "design_ref": ref},
            "level_note": note,
            "technique": tech,
        })
    na = []
    for pid in ALL:
        if pid in CHECKS and pid not in PENDING:
            continue
        reason = NOT_APPLICABLE.get(pid, "check not built yet in this session (planned in DESIGN.md §3); not claimed until it exists")
        na.append({"property_id": pid, "reason": reason})
    m = {
        "version": 1,
        "setup_cmd": "cd /verif/harness && CARGO_NET_OFFLINE=true cargo build --release --offline",
        "hooks": {
            "guard": "serde_saphyr_verif",
            "enable": "none needed: every check observes the library through its public API (RUSTFLAGS=--cfg serde_saphyr_verif is reserved and unused)",
            "baseline_off_cmd": "cd /repo && cargo nextest run --workspace --no-fail-fast --test-threads 8 --offline || cargo test --workspace --no-fail-fast --offline",
            "source_commits": [],
            "add_only": True,
        },
        "engines": [
            {"name": "vh", "path": "/verif/harness", "serves_properties": [c["property_id"] for c in checks],
             "kind_free_text": "Rust harness linked against /repo (path dependency, rebuilt from the working tree by ./check): exhaustive product driver (rayon), stateright explicit-state search for history-shaped properties, reference models, shrinking, replay"},
        ],
        "checks": checks,
        "not_applicable": na,
        "notes": "Exit codes of ./check: 0 held, 1 violation (VIOLATION line + replay file), other = machinery failure. Known findings: /verif/known_findings.jsonl (open entries print KNOWN-FINDING and exit 0; fixed entries suppress nothing).",
    }
    with open(os.path.join(ROOT, "MANIFEST.json"), "w") as f:
        json.dump(m, f, indent=1)
        f.write("\n")

if __name__ == "__main__":
    main()
