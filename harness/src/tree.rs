//! Untyped, order-preserving target type used by most oracles.
use serde::de::{self, Deserialize, Deserializer, MapAccess, SeqAccess, Visitor};
use serde::ser::{Serialize, SerializeMap, SerializeSeq, Serializer};
use std::fmt;

#[derive(Clone, PartialEq, Eq, Hash, PartialOrd, Ord)]
pub enum Tree {
    Null,
    Bool(bool),
    I(i128),
    /// f64 bits, NaN canonicalised
    F(u64),
    S(String),
    Bytes(Vec<u8>),
    Seq(Vec<Tree>),
    Map(Vec<(Tree, Tree)>),
}

pub fn fbits(f: f64) -> u64 {
    if f.is_nan() {
        f64::NAN.to_bits()
    } else {
        f.to_bits()
    }
}

impl Tree {
    pub fn s(x: &str) -> Tree {
        Tree::S(x.to_string())
    }
    pub fn f(x: f64) -> Tree {
        Tree::F(fbits(x))
    }
    pub fn node_count(&self) -> usize {
        match self {
            Tree::Seq(v) => 1 + v.iter().map(|t| t.node_count()).sum::<usize>(),
            Tree::Map(v) => 1 + v.iter().map(|(k, t)| k.node_count() + t.node_count()).sum::<usize>(),
            _ => 1,
        }
    }
}

impl fmt::Debug for Tree {
    fn fmt(&self, f: &mut fmt::Formatter<'_>) -> fmt::Result {
        match self {
            Tree::Null => write!(f, "~"),
            Tree::Bool(b) => write!(f, "{}", b),
            Tree::I(i) => write!(f, "{}", i),
            Tree::F(b) => write!(f, "{:?}f", f64::from_bits(*b)),
            Tree::S(s) => write!(f, "{:?}", s),
            Tree::Bytes(b) => write!(f, "b{:?}", b),
            Tree::Seq(v) => {
                write!(f, "[")?;
                for (i, t) in v.iter().enumerate() {
                    if i > 0 {
                        write!(f, ",")?;
                    }
                    write!(f, "{:?}", t)?;
                }
                write!(f, "]")
            }
            Tree::Map(v) => {
                write!(f, "{{")?;
                for (i, (k, t)) in v.iter().enumerate() {
                    if i > 0 {
                        write!(f, ",")?;
                    }
                    write!(f, "{:?}:{:?}", k, t)?;
                }
                write!(f, "}}")
            }
        }
    }
}

struct TV;
impl<'de> Visitor<'de> for TV {
    type Value = Tree;
    fn expecting(&self, f: &mut fmt::Formatter) -> fmt::Result {
        write!(f, "any YAML value")
    }
    fn visit_bool<E>(self, v: bool) -> Result<Tree, E> {
        Ok(Tree::Bool(v))
    }
    fn visit_i64<E>(self, v: i64) -> Result<Tree, E> {
        Ok(Tree::I(v as i128))
    }
    fn visit_u64<E>(self, v: u64) -> Result<Tree, E> {
        Ok(Tree::I(v as i128))
    }
    fn visit_i128<E>(self, v: i128) -> Result<Tree, E> {
        Ok(Tree::I(v))
    }
    fn visit_u128<E: de::Error>(self, v: u128) -> Result<Tree, E> {
        i128::try_from(v).map(Tree::I).map_err(|_| E::custom("u128 too big for Tree"))
    }
    fn visit_f64<E>(self, v: f64) -> Result<Tree, E> {
        Ok(Tree::f(v))
    }
    fn visit_str<E>(self, v: &str) -> Result<Tree, E> {
        Ok(Tree::S(v.to_string()))
    }
    fn visit_string<E>(self, v: String) -> Result<Tree, E> {
        Ok(Tree::S(v))
    }
    fn visit_bytes<E>(self, v: &[u8]) -> Result<Tree, E> {
        Ok(Tree::Bytes(v.to_vec()))
    }
    fn visit_unit<E>(self) -> Result<Tree, E> {
        Ok(Tree::Null)
    }
    fn visit_none<E>(self) -> Result<Tree, E> {
        Ok(Tree::Null)
    }
    fn visit_some<D: Deserializer<'de>>(self, d: D) -> Result<Tree, D::Error> {
        Tree::deserialize(d)
    }
    fn visit_newtype_struct<D: Deserializer<'de>>(self, d: D) -> Result<Tree, D::Error> {
        Tree::deserialize(d)
    }
    fn visit_seq<A: SeqAccess<'de>>(self, mut a: A) -> Result<Tree, A::Error> {
        let mut v = Vec::new();
        while let Some(x) = a.next_element::<Tree>()? {
            v.push(x);
        }
        Ok(Tree::Seq(v))
    }
    fn visit_map<A: MapAccess<'de>>(self, mut a: A) -> Result<Tree, A::Error> {
        let mut v = Vec::new();
        while let Some(k) = a.next_key::<Tree>()? {
            let x = a.next_value::<Tree>()?;
            v.push((k, x));
        }
        Ok(Tree::Map(v))
    }
}

impl<'de> Deserialize<'de> for Tree {
    fn deserialize<D: Deserializer<'de>>(d: D) -> Result<Tree, D::Error> {
        d.deserialize_any(TV)
    }
}

impl Serialize for Tree {
    fn serialize<S: Serializer>(&self, s: S) -> Result<S::Ok, S::Error> {
        match self {
            Tree::Null => s.serialize_unit(),
            Tree::Bool(b) => s.serialize_bool(*b),
            Tree::I(i) => {
                if let Ok(v) = i64::try_from(*i) {
                    s.serialize_i64(v)
                } else if let Ok(v) = u64::try_from(*i) {
                    s.serialize_u64(v)
                } else {
                    s.serialize_i128(*i)
                }
            }
            Tree::F(b) => s.serialize_f64(f64::from_bits(*b)),
            Tree::S(x) => s.serialize_str(x),
            Tree::Bytes(b) => s.serialize_bytes(b),
            Tree::Seq(v) => {
                let mut q = s.serialize_seq(Some(v.len()))?;
                for t in v {
                    q.serialize_element(t)?;
                }
                q.end()
            }
            Tree::Map(v) => {
                let mut m = s.serialize_map(Some(v.len()))?;
                for (k, t) in v {
                    m.serialize_entry(k, t)?;
                }
                m.end()
            }
        }
    }
}
