//! Instrumented readers and writers: scheduled chunking, injected faults, byte accounting.
use std::cell::Cell;
use std::io::{self, Read, Write};
use std::rc::Rc;

/// Hands out the input in exactly the scheduled pieces (never a zero-length read before EOF).
pub struct ScheduleReader<'a> {
    data: &'a [u8],
    pos: usize,
    /// cut positions (byte offsets, ascending); after the last cut the rest comes in one piece
    cuts: Vec<usize>,
    next_cut: usize,
}

impl<'a> ScheduleReader<'a> {
    /// `mask` bit i set = cut after byte i (i in 0..len-1)
    pub fn from_mask(data: &'a [u8], mask: u64) -> Self {
        let mut cuts = Vec::new();
        for i in 0..data.len().saturating_sub(1) {
            if i < 64 && mask & (1u64 << i) != 0 {
                cuts.push(i + 1);
            }
        }
        ScheduleReader { data, pos: 0, cuts, next_cut: 0 }
    }
    pub fn fixed(data: &'a [u8], k: usize) -> Self {
        let cuts = (1..data.len()).filter(|i| i % k == 0).collect();
        ScheduleReader { data, pos: 0, cuts, next_cut: 0 }
    }
}

impl<'a> Read for ScheduleReader<'a> {
    fn read(&mut self, buf: &mut [u8]) -> io::Result<usize> {
        if self.pos >= self.data.len() || buf.is_empty() {
            return Ok(0);
        }
        while self.next_cut < self.cuts.len() && self.cuts[self.next_cut] <= self.pos {
            self.next_cut += 1;
        }
        let end = if self.next_cut < self.cuts.len() { self.cuts[self.next_cut] } else { self.data.len() };
        let n = (end - self.pos).min(buf.len());
        buf[..n].copy_from_slice(&self.data[self.pos..self.pos + n]);
        self.pos += n;
        Ok(n)
    }
}

#[derive(Clone, Copy, Debug, PartialEq, Eq, serde::Serialize, serde::Deserialize)]
pub enum Fault {
    None,
    /// the k-th call to read (0-based) fails
    AtRead(usize),
    /// reads succeed until k bytes were handed out, the next read fails
    AfterByte(usize),
    /// the stream simply ends after k bytes (used to end inside a code point)
    EofAfterByte(usize),
}

#[derive(Default)]
pub struct ReadStats {
    pub bytes: Cell<usize>,
    pub reads: Cell<usize>,
    pub faulted: Cell<bool>,
    pub reads_after_fault: Cell<usize>,
}

/// Chunked reader with an injected fault; statistics are shared through an Rc so they survive the move.
pub struct FaultReader {
    data: Vec<u8>,
    pos: usize,
    chunk: usize,
    fault: Fault,
    kind: io::ErrorKind,
    /// endless: after the data, keep producing this filler forever
    filler: Option<Vec<u8>>,
    pub stats: Rc<ReadStats>,
}

impl FaultReader {
    pub fn new(data: &[u8], chunk: usize, fault: Fault, kind: io::ErrorKind) -> (Self, Rc<ReadStats>) {
        let stats = Rc::new(ReadStats::default());
        (FaultReader { data: data.to_vec(), pos: 0, chunk: chunk.max(1), fault, kind, filler: None, stats: stats.clone() }, stats)
    }
    pub fn endless(prefix: &[u8], filler: &[u8], chunk: usize) -> (Self, Rc<ReadStats>) {
        let stats = Rc::new(ReadStats::default());
        (
            FaultReader { data: prefix.to_vec(), pos: 0, chunk: chunk.max(1), fault: Fault::None, kind: io::ErrorKind::Other, filler: Some(filler.to_vec()), stats: stats.clone() },
            stats,
        )
    }
}

impl Read for FaultReader {
    fn read(&mut self, buf: &mut [u8]) -> io::Result<usize> {
        let call = self.stats.reads.get();
        self.stats.reads.set(call + 1);
        if self.stats.faulted.get() {
            self.stats.reads_after_fault.set(self.stats.reads_after_fault.get() + 1);
            return Err(io::Error::new(self.kind, "injected fault (again)"));
        }
        let fail_now = match self.fault {
            Fault::AtRead(k) => call == k,
            Fault::AfterByte(k) => self.pos >= k,
            _ => false,
        };
        if fail_now {
            self.stats.faulted.set(true);
            return Err(io::Error::new(self.kind, "injected fault"));
        }
        if buf.is_empty() {
            return Ok(0);
        }
        let mut limit = self.data.len();
        if let Fault::EofAfterByte(k) | Fault::AfterByte(k) = self.fault {
            limit = limit.min(k);
        }
        if self.pos >= limit {
            if let (Some(f), Fault::None) = (&self.filler, self.fault) {
                let n = f.len().min(buf.len()).min(self.chunk);
                buf[..n].copy_from_slice(&f[..n]);
                self.stats.bytes.set(self.stats.bytes.get() + n);
                return Ok(n);
            }
            return Ok(0);
        }
        let n = (limit - self.pos).min(buf.len()).min(self.chunk);
        buf[..n].copy_from_slice(&self.data[self.pos..self.pos + n]);
        self.pos += n;
        self.stats.bytes.set(self.stats.bytes.get() + n);
        Ok(n)
    }
}

/// Writer that fails at the k-th write call and records what it accepted.
pub struct FaultWriter {
    pub accepted: Rc<std::cell::RefCell<Vec<u8>>>,
    pub writes: usize,
    pub fail_at: Option<usize>,
    pub kind: io::ErrorKind,
    pub faulted: Rc<Cell<bool>>,
}

impl FaultWriter {
    pub fn new(fail_at: Option<usize>, kind: io::ErrorKind) -> Self {
        FaultWriter { accepted: Rc::new(std::cell::RefCell::new(Vec::new())), writes: 0, fail_at, kind, faulted: Rc::new(Cell::new(false)) }
    }
}

impl Write for FaultWriter {
    fn write(&mut self, buf: &[u8]) -> io::Result<usize> {
        let call = self.writes;
        self.writes += 1;
        if self.faulted.get() || Some(call) == self.fail_at {
            self.faulted.set(true);
            return Err(io::Error::new(self.kind, "injected write fault"));
        }
        self.accepted.borrow_mut().extend_from_slice(buf);
        Ok(buf.len())
    }
    fn flush(&mut self) -> io::Result<()> {
        Ok(())
    }
}
