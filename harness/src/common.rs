//! Shared small types: serializer option vectors, parse option vectors.
use serde::{Deserialize, Serialize};
use serde_saphyr::SerializerOptions;

#[derive(Clone, Copy, Debug, PartialEq, Eq, Hash, Serialize, Deserialize, Default)]
pub struct SerOpts {
    pub quote_all: bool,
    pub yaml_12: bool,
    /// false = library default (true)
    pub no_block_scalars: bool,
    pub compact: bool,
    pub tagged_enums: bool,
    /// false = library default (true)
    pub no_empty_braces: bool,
    /// 0 = default (2)
    pub indent: u8,
    /// 0 = default (80,32); 1 = (4,2)
    pub wrap: u8,
    /// custom anchor name generator
    pub custom_anchor: bool,
}

fn custom_anchor_name(id: usize) -> String {
    format!("n{}_é", id)
}

impl SerOpts {
    pub fn to_lib(&self) -> SerializerOptions {
        let mut o = serde_saphyr::ser_options! {};
        o.quote_all = self.quote_all;
        o.yaml_12 = self.yaml_12;
        o.prefer_block_scalars = !self.no_block_scalars;
        o.compact_list_indent = self.compact;
        o.tagged_enums = self.tagged_enums;
        o.empty_as_braces = !self.no_empty_braces;
        if self.indent != 0 {
            o.indent_step = self.indent as usize;
        }
        if self.wrap == 1 {
            o.folded_wrap_chars = 4;
            o.min_fold_chars = 2;
        }
        if self.custom_anchor {
            o.anchor_generator = Some(custom_anchor_name);
        }
        o
    }
    /// Decode from a dense index: bits 0..6 = flags, then indent choice, then wrap choice.
    pub fn from_bits(bits: u32) -> SerOpts {
        SerOpts {
            quote_all: bits & 1 != 0,
            yaml_12: bits & 2 != 0,
            no_block_scalars: bits & 4 != 0,
            compact: bits & 8 != 0,
            tagged_enums: bits & 16 != 0,
            no_empty_braces: bits & 32 != 0,
            indent: 0,
            wrap: 0,
            custom_anchor: false,
        }
    }
    pub fn is_default(&self) -> bool {
        *self == SerOpts::default()
    }
    /// strictly simpler option vectors (one feature switched back to default)
    pub fn shrink(&self) -> Vec<SerOpts> {
        let mut v = Vec::new();
        macro_rules! off {
            ($f:ident, $d:expr) => {
                if self.$f != $d {
                    let mut o = *self;
                    o.$f = $d;
                    v.push(o);
                }
            };
        }
        off!(quote_all, false);
        off!(yaml_12, false);
        off!(no_block_scalars, false);
        off!(compact, false);
        off!(tagged_enums, false);
        off!(no_empty_braces, false);
        off!(indent, 0);
        off!(wrap, 0);
        off!(custom_anchor, false);
        v
    }
    pub fn label(&self) -> String {
        let mut v = Vec::new();
        if self.quote_all {
            v.push("quote_all".to_string());
        }
        if self.yaml_12 {
            v.push("yaml_12".to_string());
        }
        if self.no_block_scalars {
            v.push("no_block_scalars".to_string());
        }
        if self.compact {
            v.push("compact".to_string());
        }
        if self.tagged_enums {
            v.push("tagged_enums".to_string());
        }
        if self.no_empty_braces {
            v.push("no_empty_braces".to_string());
        }
        if self.indent != 0 {
            v.push(format!("indent={}", self.indent));
        }
        if self.wrap != 0 {
            v.push("wrap=(4,2)".to_string());
        }
        if self.custom_anchor {
            v.push("custom_anchor".to_string());
        }
        if v.is_empty() {
            "default".to_string()
        } else {
            v.join("+")
        }
    }
}

/// Remove one char / replace one char by 'a' : generic string shrink candidates.
pub fn shrink_string(s: &str) -> Vec<String> {
    let chars: Vec<char> = s.chars().collect();
    let mut out = Vec::new();
    if chars.len() > 96 {
        // long text: drop one character at either end only (keeps lengths that matter, e.g. a limit, minimal)
        out.push(chars[1..].iter().collect());
        out.push(chars[..chars.len() - 1].iter().collect());
        return out;
    }
    for i in 0..chars.len() {
        let mut c = chars.clone();
        c.remove(i);
        out.push(c.into_iter().collect());
    }
    for i in 0..chars.len() {
        if chars[i] != 'a' {
            let mut c = chars.clone();
            c[i] = 'a';
            out.push(c.into_iter().collect());
        }
    }
    out
}
