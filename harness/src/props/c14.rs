//! C14 — shared-pointer topology survives the round trip through anchors and aliases.
//! All set partitions of the strong slots of a fixed layout x payload kinds x Rc|Arc x weak edges; cycles.
use crate::engine::*;
use serde::de::DeserializeOwned;
use serde::{Deserialize, Serialize};
use serde_json::json;
use serde_saphyr::{ArcAnchor, ArcRecursion, ArcRecursive, ArcWeakAnchor, RcAnchor, RcRecursion, RcRecursive, RcWeakAnchor};
use std::collections::BTreeMap;
use std::fmt::Debug;
use std::rc::Rc;
use std::sync::Arc;

pub const SLOTS: usize = 6;
pub const SLOT_NAMES: [&str; SLOTS] = ["a", "b", "list[0]", "list[1]", "map[m]", "nested.x"];
pub const PAYLOADS: [&str; 13] = [
    "String",
    "Vec<i64>",
    "BTreeMap<String,i64>",
    "Option<i64>",
    "()",
    "struct Inner{z,r:RcAnchor<String>}",
    "multi-line String",
    "struct InnerW{z,keep:RcAnchor<String>,w:RcWeakAnchor<String>}",
    "enum EV{N(i64),T(i64,String),S{a:i64},U}",
    "FlowSeq<Vec<i64>>",
    "empty Vec<i64>",
    "FlowMap<BTreeMap<String,i64>>",
    "empty BTreeMap<String,i64>",
];
pub const OPTS: [&str; 5] = ["default", "compact", "indent=4", "compact+indent=3", "indent=1"];
fn ser_opts(i: u8) -> crate::common::SerOpts {
    use crate::common::SerOpts;
    let d = SerOpts::default();
    match i {
        0 => d,
        1 => SerOpts { compact: true, ..d },
        2 => SerOpts { indent: 4, ..d },
        3 => SerOpts { compact: true, indent: 3, ..d },
        _ => SerOpts { indent: 1, ..d },
    }
}

#[derive(Debug, Clone, PartialEq, Serialize, Deserialize)]
enum EV {
    N(i64),
    T(i64, String),
    S { a: i64 },
    U,
}
impl EV {
    fn new(i: u8) -> Self {
        let n = 7000 + i as i64;
        match i % 4 {
            0 => EV::N(n),
            1 => EV::T(n, "t".into()),
            2 => EV::S { a: n },
            _ => EV::U,
        }
    }
}

#[derive(Clone, Debug, Serialize, Deserialize)]
pub struct Case {
    /// allocation class of each strong slot (restricted growth string: class[i] <= max(class[..i]) + 1)
    pub classes: Vec<u8>,
    /// number of strong slots in use (the first k of SLOTS)
    pub k: u8,
    pub payload: u8,
    pub arc: bool,
    /// weak edges: Some(class) = to a live allocation, None = to a dropped one
    pub weak: Vec<Option<u8>>,
    /// serializer option vector (index into OPTS)
    #[serde(default)]
    pub opts: u8,
}

// ---- Rc flavour
#[derive(Debug, Serialize, Deserialize)]
#[serde(bound(deserialize = "P: DeserializeOwned + 'static", serialize = "P: Serialize"))]
struct NestedRc<P> {
    x: RcAnchor<P>,
    /// weak edge in mapping-value position of a nested struct (weak spec 1, dangling if absent)
    w: RcWeakAnchor<P>,
}
#[derive(Debug, Serialize, Deserialize)]
#[serde(bound(deserialize = "P: DeserializeOwned + 'static", serialize = "P: Serialize"))]
struct DocRc<P> {
    a: RcAnchor<P>,
    b: RcAnchor<P>,
    list: Vec<RcAnchor<P>>,
    map: BTreeMap<String, RcAnchor<P>>,
    nested: NestedRc<P>,
    /// weak edge in mapping-value position (weak spec 0, dangling if absent)
    wfield: RcWeakAnchor<P>,
    weak: Vec<RcWeakAnchor<P>>,
}
// ---- Arc flavour
#[derive(Debug, Serialize, Deserialize)]
#[serde(bound(deserialize = "P: DeserializeOwned + Send + Sync + 'static", serialize = "P: Serialize"))]
struct NestedArc<P> {
    x: ArcAnchor<P>,
    w: ArcWeakAnchor<P>,
}
#[derive(Debug, Serialize, Deserialize)]
#[serde(bound(deserialize = "P: DeserializeOwned + Send + Sync + 'static", serialize = "P: Serialize"))]
struct DocArc<P> {
    a: ArcAnchor<P>,
    b: ArcAnchor<P>,
    list: Vec<ArcAnchor<P>>,
    map: BTreeMap<String, ArcAnchor<P>>,
    nested: NestedArc<P>,
    wfield: ArcWeakAnchor<P>,
    weak: Vec<ArcWeakAnchor<P>>,
}

#[derive(Debug, Serialize, Deserialize)]
struct Inner {
    z: i64,
    r: RcAnchor<String>,
}
impl PartialEq for Inner {
    fn eq(&self, o: &Self) -> bool {
        self.z == o.z && *self.r.0 == *o.r.0
    }
}
/// payload with a weak edge inside an anchored node: to `keep` (odd z) or dangling (even z)
#[derive(Debug, Serialize, Deserialize)]
struct InnerW {
    z: i64,
    keep: RcAnchor<String>,
    w: RcWeakAnchor<String>,
}
impl InnerW {
    fn new(i: u8) -> Self {
        let keep = Rc::new(format!("in{}q", i));
        let w = if i % 2 == 1 { Rc::downgrade(&keep) } else { Rc::downgrade(&Rc::new(String::new())) };
        InnerW { z: 7000 + i as i64, keep: RcAnchor(keep), w: RcWeakAnchor(w) }
    }
    fn shape(&self) -> (i64, String, Option<bool>) {
        (self.z, (*self.keep.0).clone(), self.w.upgrade().map(|u| Rc::ptr_eq(&u, &self.keep.0)))
    }
}
impl PartialEq for InnerW {
    fn eq(&self, o: &Self) -> bool {
        self.shape() == o.shape()
    }
}
#[derive(Debug, Serialize, Deserialize)]
struct InnerWArc {
    z: i64,
    keep: ArcAnchor<String>,
    w: ArcWeakAnchor<String>,
}
impl InnerWArc {
    fn new(i: u8) -> Self {
        let keep = Arc::new(format!("in{}q", i));
        let w = if i % 2 == 1 { Arc::downgrade(&keep) } else { Arc::downgrade(&Arc::new(String::new())) };
        InnerWArc { z: 7000 + i as i64, keep: ArcAnchor(keep), w: ArcWeakAnchor(w) }
    }
    fn shape(&self) -> (i64, String, Option<bool>) {
        (self.z, (*self.keep.0).clone(), self.w.upgrade().map(|u| Arc::ptr_eq(&u, &self.keep.0)))
    }
}
impl PartialEq for InnerWArc {
    fn eq(&self, o: &Self) -> bool {
        self.shape() == o.shape()
    }
}
#[derive(Debug, Serialize, Deserialize)]
struct InnerArc {
    z: i64,
    r: ArcAnchor<String>,
}
impl PartialEq for InnerArc {
    fn eq(&self, o: &Self) -> bool {
        self.z == o.z && *self.r.0 == *o.r.0
    }
}

fn check_rc<P: Serialize + DeserializeOwned + PartialEq + Debug + 'static>(c: &Case, make: impl Fn(u8) -> P, marker: impl Fn(u8) -> Option<String>) -> Result<String, (String, String)> {
    let nclasses = c.classes.iter().copied().max().map(|m| m + 1).unwrap_or(0);
    let allocs: Vec<Rc<P>> = (0..nclasses).map(|i| Rc::new(make(i))).collect();
    let slot = |i: usize| -> RcAnchor<P> { RcAnchor(allocs[c.classes[i] as usize].clone()) };
    let mut weak = Vec::new();
    for w in &c.weak {
        match w {
            Some(cl) => weak.push(RcWeakAnchor(Rc::downgrade(&allocs[*cl as usize]))),
            None => {
                let tmp = Rc::new(make(9));
                weak.push(RcWeakAnchor(Rc::downgrade(&tmp)));
            }
        }
    }
    let mut map = BTreeMap::new();
    map.insert("m".to_string(), slot(4));
    let mk_weak = |spec: Option<&Option<u8>>| -> RcWeakAnchor<P> {
        match spec {
            Some(Some(cl)) => RcWeakAnchor(Rc::downgrade(&allocs[*cl as usize])),
            _ => RcWeakAnchor(Rc::downgrade(&Rc::new(make(9)))),
        }
    };
    // a weak edge nested below `nested` must come after its strong target: only classes of earlier slots
    let nested_spec = c.weak.get(1).filter(|w| w.map(|cl| (0..5).any(|i| c.classes[i] == cl)).unwrap_or(true));
    let doc = DocRc { a: slot(0), b: slot(1), list: vec![slot(2), slot(3)], map, nested: NestedRc { x: slot(5), w: mk_weak(nested_spec) }, wfield: mk_weak(c.weak.first()), weak };
    let text = match guarded(|| serde_saphyr::to_string_with_options(&doc, ser_opts(c.opts).to_lib())) {
        Err(p) => return Err(("panic_ser".into(), p)),
        Ok(Err(e)) => return Err(("ser_error".into(), e.to_string())),
        Ok(Ok(t)) => t,
    };
    let back: DocRc<P> = match guarded(|| serde_saphyr::from_str::<DocRc<P>>(&text)) {
        Err(p) => return Err(("panic_de".into(), p)),
        Ok(Err(e)) => return Err(("readback_error".into(), format!("emitted {:?}; read-back failed: {}", text, e.to_string().lines().next().unwrap_or("")))),
        Ok(Ok(b)) => b,
    };
    let mut after: Vec<Option<Rc<P>>> = vec![Some(back.a.0), Some(back.b.0)];
    let mut l = back.list.into_iter();
    after.push(l.next().map(|x| x.0));
    after.push(l.next().map(|x| x.0));
    after.push(back.map.get("m").map(|x| x.0.clone()));
    after.push(Some(back.nested.x.0));
    let present: Vec<usize> = (0..SLOTS).collect();
    for &i in &present {
        match &after[i] {
            None => return Err(("slot_missing".into(), format!("emitted {:?}; slot {} missing after read-back", text, SLOT_NAMES[i]))),
            Some(v) => {
                if **v != *allocs[c.classes[i] as usize] {
                    return Err(("value_differs".into(), format!("emitted {:?}; slot {} reads {:?}, expected {:?}", text, SLOT_NAMES[i], v, allocs[c.classes[i] as usize])));
                }
            }
        }
    }
    for &i in &present {
        for &j in &present {
            if i < j {
                let before = c.classes[i] == c.classes[j];
                let aft = Rc::ptr_eq(after[i].as_ref().unwrap(), after[j].as_ref().unwrap());
                if before != aft {
                    return Err((
                        "sharing_relation_changed".into(),
                        format!("emitted {:?}; slots {} and {} shared one allocation before: {}, after: {}", text, SLOT_NAMES[i], SLOT_NAMES[j], before, aft),
                    ));
                }
            }
        }
    }
    // weak edges
    if back.weak.len() != c.weak.len() {
        return Err(("weak_count".into(), format!("emitted {:?}; {} weak edges read back, expected {}", text, back.weak.len(), c.weak.len())));
    }
    let mut edges: Vec<(String, Option<u8>, Option<Rc<P>>)> = c.weak.iter().enumerate().map(|(wi, w)| (format!("weak[{}]", wi), *w, back.weak[wi].upgrade())).collect();
    edges.push(("wfield".to_string(), c.weak.first().cloned().flatten(), back.wfield.upgrade()));
    edges.push(("nested.w".to_string(), nested_spec.cloned().flatten(), back.nested.w.upgrade()));
    for (label, w, up) in edges {
        match w {
            None => {
                if up.is_some() {
                    return Err(("dangling_weak_resolved".into(), format!("emitted {:?}; weak edge {} was dangling but resolves after read-back", text, label)));
                }
            }
            Some(cl) => {
                let target = present.iter().find(|&&i| c.classes[i] == cl).map(|&i| after[i].as_ref().unwrap());
                match (up, target) {
                    (Some(u), Some(t)) => {
                        if !Rc::ptr_eq(&u, t) {
                            return Err(("weak_points_elsewhere".into(), format!("emitted {:?}; weak edge {} does not point to the allocation of class {}", text, label, cl)));
                        }
                    }
                    (None, Some(_)) => return Err(("live_weak_lost".into(), format!("emitted {:?}; weak edge {} to live class {} is dangling after read-back", text, label, cl))),
                    _ => {}
                }
            }
        }
    }
    // each shared node is emitted once
    for cl in 0..nclasses {
        if let Some(m) = marker(cl) {
            let n = text.matches(&m).count();
            if n != 1 {
                return Err(("shared_node_emitted_more_than_once".into(), format!("emitted {:?}; payload marker {:?} of class {} occurs {} times", text, m, cl, n)));
            }
        }
    }
    Ok(text)
}

fn check_arc<P: Serialize + DeserializeOwned + PartialEq + Debug + Send + Sync + 'static>(c: &Case, make: impl Fn(u8) -> P, marker: impl Fn(u8) -> Option<String>) -> Result<String, (String, String)> {
    let nclasses = c.classes.iter().copied().max().map(|m| m + 1).unwrap_or(0);
    let allocs: Vec<Arc<P>> = (0..nclasses).map(|i| Arc::new(make(i))).collect();
    let slot = |i: usize| -> ArcAnchor<P> { ArcAnchor(allocs[c.classes[i] as usize].clone()) };
    let mut weak = Vec::new();
    for w in &c.weak {
        match w {
            Some(cl) => weak.push(ArcWeakAnchor(Arc::downgrade(&allocs[*cl as usize]))),
            None => {
                let tmp = Arc::new(make(9));
                weak.push(ArcWeakAnchor(Arc::downgrade(&tmp)));
            }
        }
    }
    let mut map = BTreeMap::new();
    map.insert("m".to_string(), slot(4));
    let mk_weak = |spec: Option<&Option<u8>>| -> ArcWeakAnchor<P> {
        match spec {
            Some(Some(cl)) => ArcWeakAnchor(Arc::downgrade(&allocs[*cl as usize])),
            _ => ArcWeakAnchor(Arc::downgrade(&Arc::new(make(9)))),
        }
    };
    let nested_spec = c.weak.get(1).filter(|w| w.map(|cl| (0..5).any(|i| c.classes[i] == cl)).unwrap_or(true));
    let doc = DocArc { a: slot(0), b: slot(1), list: vec![slot(2), slot(3)], map, nested: NestedArc { x: slot(5), w: mk_weak(nested_spec) }, wfield: mk_weak(c.weak.first()), weak };
    let text = match guarded(|| serde_saphyr::to_string_with_options(&doc, ser_opts(c.opts).to_lib())) {
        Err(p) => return Err(("panic_ser".into(), p)),
        Ok(Err(e)) => return Err(("ser_error".into(), e.to_string())),
        Ok(Ok(t)) => t,
    };
    let back: DocArc<P> = match guarded(|| serde_saphyr::from_str::<DocArc<P>>(&text)) {
        Err(p) => return Err(("panic_de".into(), p)),
        Ok(Err(e)) => return Err(("readback_error".into(), format!("emitted {:?}; read-back failed: {}", text, e.to_string().lines().next().unwrap_or("")))),
        Ok(Ok(b)) => b,
    };
    let mut after: Vec<Option<Arc<P>>> = vec![Some(back.a.0), Some(back.b.0)];
    let mut l = back.list.into_iter();
    after.push(l.next().map(|x| x.0));
    after.push(l.next().map(|x| x.0));
    after.push(back.map.get("m").map(|x| x.0.clone()));
    after.push(Some(back.nested.x.0));
    let present: Vec<usize> = (0..SLOTS).collect();
    for &i in &present {
        match &after[i] {
            None => return Err(("slot_missing".into(), format!("emitted {:?}; slot {} missing after read-back", text, SLOT_NAMES[i]))),
            Some(v) => {
                if **v != *allocs[c.classes[i] as usize] {
                    return Err(("value_differs".into(), format!("emitted {:?}; slot {} reads {:?}", text, SLOT_NAMES[i], v)));
                }
            }
        }
    }
    for &i in &present {
        for &j in &present {
            if i < j {
                let before = c.classes[i] == c.classes[j];
                let aft = Arc::ptr_eq(after[i].as_ref().unwrap(), after[j].as_ref().unwrap());
                if before != aft {
                    return Err(("sharing_relation_changed".into(), format!("emitted {:?}; slots {} and {} shared before: {}, after: {}", text, SLOT_NAMES[i], SLOT_NAMES[j], before, aft)));
                }
            }
        }
    }
    if back.weak.len() != c.weak.len() {
        return Err(("weak_count".into(), format!("emitted {:?}; {} weak edges read back, expected {}", text, back.weak.len(), c.weak.len())));
    }
    let mut edges: Vec<(String, Option<u8>, Option<Arc<P>>)> = c.weak.iter().enumerate().map(|(wi, w)| (format!("weak[{}]", wi), *w, back.weak[wi].upgrade())).collect();
    edges.push(("wfield".to_string(), c.weak.first().cloned().flatten(), back.wfield.upgrade()));
    edges.push(("nested.w".to_string(), nested_spec.cloned().flatten(), back.nested.w.upgrade()));
    for (label, w, up) in edges {
        match w {
            None => {
                if up.is_some() {
                    return Err(("dangling_weak_resolved".into(), format!("emitted {:?}; weak edge {} was dangling but resolves after read-back", text, label)));
                }
            }
            Some(cl) => {
                let target = present.iter().find(|&&i| c.classes[i] == cl).map(|&i| after[i].as_ref().unwrap());
                match (up, target) {
                    (Some(u), Some(t)) => {
                        if !Arc::ptr_eq(&u, t) {
                            return Err(("weak_points_elsewhere".into(), format!("emitted {:?}; weak edge {} does not point to the allocation of class {}", text, label, cl)));
                        }
                    }
                    (None, Some(_)) => return Err(("live_weak_lost".into(), format!("emitted {:?}; weak edge {} to live class {} is dangling after read-back", text, label, cl))),
                    _ => {}
                }
            }
        }
    }
    for cl in 0..nclasses {
        if let Some(m) = marker(cl) {
            let n = text.matches(&m).count();
            if n != 1 {
                return Err(("shared_node_emitted_more_than_once".into(), format!("emitted {:?}; payload marker {:?} occurs {} times", text, m, n)));
            }
        }
    }
    Ok(text)
}

pub struct C14;

impl Prop for C14 {
    type Case = Case;
    fn check(&self, c: &Case) -> Verdict {
        let mut v = Verdict::default();
        v.execs = 2;
        v.compared = 1;
        let nclasses = c.classes.iter().copied().max().map(|m| m + 1).unwrap_or(0) as usize;
        v.nontrivial = nclasses < SLOTS || c.weak.iter().any(|w| w.is_some());
        if nclasses < SLOTS {
            v.classes.push("has_shared_class");
        }
        if c.weak.iter().any(|w| w.is_none()) {
            v.classes.push("dangling_weak");
        }
        if c.weak.iter().any(|w| w.is_some()) {
            v.classes.push("live_weak");
        }
        let s = |i: u8| Some(format!("v{}q", i));
        let r = match (c.payload, c.arc) {
            (0, false) => check_rc::<String>(c, |i| format!("v{}q", i), s),
            (1, false) => check_rc::<Vec<i64>>(c, |i| vec![7000 + i as i64, 1], |i| Some(format!("{}", 7000 + i as i64))),
            (2, false) => check_rc::<BTreeMap<String, i64>>(c, |i| [("k".to_string(), 7000 + i as i64)].into_iter().collect(), |i| Some(format!("{}", 7000 + i as i64))),
            (3, false) => check_rc::<Option<i64>>(c, |i| if i % 2 == 0 { None } else { Some(7000 + i as i64) }, |_| None),
            (4, false) => check_rc::<()>(c, |_| (), |_| None),
            (5, false) => check_rc::<Inner>(c, |i| Inner { z: 7000 + i as i64, r: RcAnchor(Rc::new(format!("in{}q", i))) }, |i| Some(format!("in{}q", i))),
            (6, false) => check_rc::<String>(c, |i| format!("v{}q\nsecond line\n", i), s),
            (7, false) => check_rc::<InnerW>(c, InnerW::new, |i| Some(format!("in{}q", i))),
            (8, false) => check_rc::<EV>(c, EV::new, |i| if i % 4 == 3 { None } else { Some(format!("{}", 7000 + i as i64)) }),
            (9, false) => check_rc::<serde_saphyr::FlowSeq<Vec<i64>>>(c, |i| serde_saphyr::FlowSeq(vec![7000 + i as i64, 1]), |i| Some(format!("{}", 7000 + i as i64))),
            (10, false) => check_rc::<Vec<i64>>(c, |_| vec![], |_| None),
            (11, false) => check_rc::<serde_saphyr::FlowMap<BTreeMap<String, i64>>>(c, |i| serde_saphyr::FlowMap([("k".to_string(), 7000 + i as i64)].into_iter().collect()), |i| Some(format!("{}", 7000 + i as i64))),
            (12, false) => check_rc::<BTreeMap<String, i64>>(c, |_| BTreeMap::new(), |_| None),
            (12, true) => check_arc::<BTreeMap<String, i64>>(c, |_| BTreeMap::new(), |_| None),
            (8, true) => check_arc::<EV>(c, EV::new, |i| if i % 4 == 3 { None } else { Some(format!("{}", 7000 + i as i64)) }),
            (9, true) => check_arc::<serde_saphyr::FlowSeq<Vec<i64>>>(c, |i| serde_saphyr::FlowSeq(vec![7000 + i as i64, 1]), |i| Some(format!("{}", 7000 + i as i64))),
            (10, true) => check_arc::<Vec<i64>>(c, |_| vec![], |_| None),
            (11, true) => check_arc::<serde_saphyr::FlowMap<BTreeMap<String, i64>>>(c, |i| serde_saphyr::FlowMap([("k".to_string(), 7000 + i as i64)].into_iter().collect()), |i| Some(format!("{}", 7000 + i as i64))),
            (0, true) => check_arc::<String>(c, |i| format!("v{}q", i), s),
            (1, true) => check_arc::<Vec<i64>>(c, |i| vec![7000 + i as i64, 1], |i| Some(format!("{}", 7000 + i as i64))),
            (2, true) => check_arc::<BTreeMap<String, i64>>(c, |i| [("k".to_string(), 7000 + i as i64)].into_iter().collect(), |i| Some(format!("{}", 7000 + i as i64))),
            (3, true) => check_arc::<Option<i64>>(c, |i| if i % 2 == 0 { None } else { Some(7000 + i as i64) }, |_| None),
            (4, true) => check_arc::<()>(c, |_| (), |_| None),
            (6, true) => check_arc::<String>(c, |i| format!("v{}q\nsecond line\n", i), s),
            (7, true) => check_arc::<InnerWArc>(c, InnerWArc::new, |i| Some(format!("in{}q", i))),
            (_, true) => check_arc::<InnerArc>(c, |i| InnerArc { z: 7000 + i as i64, r: ArcAnchor(Arc::new(format!("in{}q", i))) }, |i| Some(format!("in{}q", i))),
            _ => unreachable!(),
        };
        match r {
            Ok(text) => v.outcome = hash64(&(text.matches('&').count(), text.matches('*').count())),
            Err((clause, detail)) => {
                v.outcome = hash64(&clause);
                v.fail(&clause, detail);
            }
        }
        v
    }
    fn shrink(&self, c: &Case) -> Vec<Case> {
        let mut out = Vec::new();
        // fewer slots
        // make one shared slot an allocation of its own (finer partition)
        for i in 0..SLOTS {
            if c.classes.iter().filter(|&&x| x == c.classes[i]).count() > 1 {
                let mut classes = c.classes.clone();
                classes[i] = classes.iter().copied().max().unwrap() + 1;
                // renumber to a restricted growth string
                let mut map: Vec<(u8, u8)> = Vec::new();
                let mut weak = c.weak.clone();
                let mut out_classes = Vec::new();
                for &cl in &classes {
                    let n = match map.iter().find(|(o, _)| *o == cl) {
                        Some((_, n)) => *n,
                        None => {
                            let n = map.len() as u8;
                            map.push((cl, n));
                            n
                        }
                    };
                    out_classes.push(n);
                }
                for w in weak.iter_mut() {
                    if let Some(cl) = w {
                        *cl = map.iter().find(|(o, _)| o == cl).map(|(_, n)| *n).unwrap_or(0);
                    }
                }
                out.push(Case { classes: out_classes, weak, ..c.clone() });
            }
        }
        // drop a weak edge
        for i in 0..c.weak.len() {
            let mut w = c.weak.clone();
            w.remove(i);
            out.push(Case { weak: w, ..c.clone() });
        }
        if c.arc {
            out.push(Case { arc: false, ..c.clone() });
        }
        if c.opts != 0 {
            out.push(Case { opts: 0, ..c.clone() });
        }
        if c.payload != 0 {
            out.push(Case { payload: 0, ..c.clone() });
        }
        // split a class (make a slot its own allocation) -> finer partition
        out
    }
    fn key(&self, c: &Case, clause: &str) -> String {
        let o = if c.opts == 0 { String::new() } else { format!("|{}", OPTS[c.opts as usize]) };
        format!("{}|classes={:?}|weak={:?}|{}|{}{}", clause, c.classes, c.weak, PAYLOADS[c.payload as usize], if c.arc { "Arc" } else { "Rc" }, o)
    }
}

/// all restricted growth strings of length k (set partitions)
pub fn partitions(k: usize) -> Vec<Vec<u8>> {
    fn go(k: usize, cur: &mut Vec<u8>, out: &mut Vec<Vec<u8>>) {
        if cur.len() == k {
            out.push(cur.clone());
            return;
        }
        let m = cur.iter().copied().max().map(|x| x + 1).unwrap_or(0);
        for c in 0..=m {
            cur.push(c);
            go(k, cur, out);
            cur.pop();
        }
    }
    let mut out = Vec::new();
    go(k, &mut Vec::new(), &mut out);
    out
}

// ---- cycles through the recursive wrappers
#[derive(Debug, Serialize, Deserialize)]
struct RNode {
    name: String,
    child: Option<RcRecursive<RNode>>,
    back: Option<RcRecursion<RNode>>,
}
#[derive(Debug, Serialize, Deserialize)]
struct ANode {
    name: String,
    child: Option<ArcRecursive<ANode>>,
    back: Option<ArcRecursion<ANode>>,
}

/// ring of n nodes: node i owns node i+1 (strong), node `from` refers back to node `to` (weak), to <= from
fn cycle_rc(n: usize, from: usize, to: usize) -> Result<String, (String, String)> {
    let nodes: Vec<RcRecursive<RNode>> = (0..n).map(|i| RcRecursive::wrapping(RNode { name: format!("n{}", i), child: None, back: None })).collect();
    for i in (0..n - 1).rev() {
        nodes[i].0.borrow_mut().as_mut().unwrap().child = Some(RcRecursive(nodes[i + 1].0.clone()));
    }
    nodes[from].0.borrow_mut().as_mut().unwrap().back = Some(RcRecursion::from(&nodes[to]));
    let root = RcRecursive(nodes[0].0.clone());
    let text = match guarded(|| serde_saphyr::to_string(&root)) {
        Err(p) => return Err(("panic_ser".into(), p)),
        Ok(Err(e)) => return Err(("ser_error".into(), e.to_string())),
        Ok(Ok(t)) => t,
    };
    // break the cycle of the original to avoid leaking (weak back edges: nothing to do)
    let back: RcRecursive<RNode> = match guarded(|| serde_saphyr::from_str::<RcRecursive<RNode>>(&text)) {
        Err(p) => return Err(("panic_de".into(), p)),
        Ok(Err(e)) => return Err(("readback_error".into(), format!("emitted {:?}; read-back failed: {}", text, e.to_string().lines().next().unwrap_or("")))),
        Ok(Ok(b)) => b,
    };
    // walk
    let mut chain: Vec<Rc<std::cell::RefCell<Option<RNode>>>> = vec![back.0.clone()];
    for _ in 1..n {
        let next = chain.last().unwrap().borrow().as_ref().and_then(|nd| nd.child.as_ref().map(|c| c.0.clone()));
        match next {
            Some(x) => chain.push(x),
            None => return Err(("chain_broken".into(), format!("emitted {:?}; chain shorter than {}", text, n))),
        }
    }
    for (i, c) in chain.iter().enumerate() {
        let name = c.borrow().as_ref().map(|nd| nd.name.clone());
        if name.as_deref() != Some(&format!("n{}", i)) {
            return Err(("value_differs".into(), format!("emitted {:?}; node {} has name {:?}", text, i, name)));
        }
    }
    let b = chain[from].borrow().as_ref().and_then(|nd| nd.back.as_ref().and_then(|w| w.upgrade()));
    match b {
        Some(t) if Rc::ptr_eq(&t.0, &chain[to]) => Ok(text),
        Some(_) => Err(("cycle_points_elsewhere".into(), format!("emitted {:?}; back edge {}->{} points to another node", text, from, to))),
        None => Err(("cycle_not_restored".into(), format!("emitted {:?}; back edge {}->{} is dangling after read-back", text, from, to))),
    }
}

fn cycle_arc(n: usize, from: usize, to: usize) -> Result<String, (String, String)> {
    let nodes: Vec<ArcRecursive<ANode>> = (0..n).map(|i| ArcRecursive::wrapping(ANode { name: format!("n{}", i), child: None, back: None })).collect();
    for i in (0..n - 1).rev() {
        nodes[i].0.lock().unwrap().as_mut().unwrap().child = Some(ArcRecursive(nodes[i + 1].0.clone()));
    }
    nodes[from].0.lock().unwrap().as_mut().unwrap().back = Some(ArcRecursion::from(&nodes[to]));
    let root = ArcRecursive(nodes[0].0.clone());
    let text = match guarded(|| serde_saphyr::to_string(&root)) {
        Err(p) => return Err(("panic_ser".into(), p)),
        Ok(Err(e)) => return Err(("ser_error".into(), e.to_string())),
        Ok(Ok(t)) => t,
    };
    let back: ArcRecursive<ANode> = match guarded(|| serde_saphyr::from_str::<ArcRecursive<ANode>>(&text)) {
        Err(p) => return Err(("panic_de".into(), p)),
        Ok(Err(e)) => return Err(("readback_error".into(), format!("emitted {:?}; read-back failed: {}", text, e.to_string().lines().next().unwrap_or("")))),
        Ok(Ok(b)) => b,
    };
    let mut chain = vec![back.0.clone()];
    for _ in 1..n {
        let next = chain.last().unwrap().lock().unwrap().as_ref().and_then(|nd| nd.child.as_ref().map(|c| c.0.clone()));
        match next {
            Some(x) => chain.push(x),
            None => return Err(("chain_broken".into(), format!("emitted {:?}; chain shorter than {}", text, n))),
        }
    }
    let b = chain[from].lock().unwrap().as_ref().and_then(|nd| nd.back.as_ref().and_then(|w| w.upgrade()));
    match b {
        Some(t) if Arc::ptr_eq(&t.0, &chain[to]) => Ok(text),
        Some(_) => Err(("cycle_points_elsewhere".into(), format!("emitted {:?}; back edge {}->{} points elsewhere", text, from, to))),
        None => Err(("cycle_not_restored".into(), format!("emitted {:?}; back edge {}->{} dangling", text, from, to))),
    }
}


// ---- DAGs: shared nodes that themselves hold shared nodes (every DAG over n nodes in topological order)
#[derive(Debug, Serialize, Deserialize)]
struct DNode {
    id: i64,
    kids: Vec<RcAnchor<DNode>>,
    /// weak edge to an earlier-written node (or dangling)
    up: RcWeakAnchor<DNode>,
}
#[derive(Debug, Serialize, Deserialize)]
struct DDoc {
    roots: Vec<RcAnchor<DNode>>,
}

/// `edges[i]` = bit set of children j > i of node i; `roots` = bit set of nodes referenced from the document
/// (node 0 always); `weak` = Some((from, to)) adds a weak edge from node `from` to node `to`
fn dag_rc(n: usize, edges: &[u32], roots: u32, weak: Option<(usize, usize)>) -> Result<String, (String, String)> {
    // build bottom-up
    let mut nodes: Vec<Option<Rc<DNode>>> = vec![None; n];
    for i in (0..n).rev() {
        let kids: Vec<RcAnchor<DNode>> = (i + 1..n).filter(|j| edges[i] & (1 << j) != 0).map(|j| RcAnchor(nodes[j].clone().unwrap())).collect();
        let up = match weak {
            Some((from, to)) if from == i && to > i => RcWeakAnchor(Rc::downgrade(nodes[to].as_ref().unwrap())),
            _ => RcWeakAnchor(Rc::downgrade(&Rc::new(DNode { id: -1, kids: vec![], up: RcWeakAnchor(std::rc::Weak::new()) }))),
        };
        nodes[i] = Some(Rc::new(DNode { id: i as i64, kids, up }));
    }
    let doc = DDoc { roots: (0..n).filter(|i| *i == 0 || roots & (1 << i) != 0).map(|i| RcAnchor(nodes[i].clone().unwrap())).collect() };
    let text = match guarded(|| serde_saphyr::to_string(&doc)) {
        Err(p) => return Err(("panic_ser".into(), p)),
        Ok(Err(e)) => return Err(("ser_error".into(), e.to_string())),
        Ok(Ok(t)) => t,
    };
    let back: DDoc = match guarded(|| serde_saphyr::from_str::<DDoc>(&text)) {
        Err(p) => return Err(("panic_de".into(), p)),
        Ok(Err(e)) => return Err(("readback_error".into(), format!("emitted {:?}; read-back failed: {}", text, e.to_string().lines().next().unwrap_or("")))),
        Ok(Ok(b)) => b,
    };
    // every occurrence, in the same traversal order on both sides: (id, pointer)
    fn walk(n: &Rc<DNode>, out: &mut Vec<(i64, *const DNode)>) {
        out.push((n.id, Rc::as_ptr(n)));
        for k in &n.kids {
            walk(&k.0, out);
        }
    }
    let mut before = Vec::new();
    for r in &doc.roots {
        walk(&r.0, &mut before);
    }
    let mut after = Vec::new();
    for r in &back.roots {
        walk(&r.0, &mut after);
    }
    if before.len() != after.len() || before.iter().zip(&after).any(|(a, b)| a.0 != b.0) {
        return Err(("value_differs".into(), format!("emitted {:?}; node ids in traversal order before {:?}, after {:?}", text, before.iter().map(|x| x.0).collect::<Vec<_>>(), after.iter().map(|x| x.0).collect::<Vec<_>>())));
    }
    for i in 0..before.len() {
        for j in 0..i {
            let b = before[i].1 == before[j].1;
            let a = after[i].1 == after[j].1;
            if a != b {
                return Err(("sharing_relation_changed".into(), format!("emitted {:?}; occurrences {} and {} (node ids {} and {}) shared one allocation before: {}, after: {}", text, j, i, before[j].0, before[i].0, b, a)));
            }
        }
    }
    // each node written once
    for i in 0..n {
        let cnt = text.matches(&format!("id: {}\n", i)).count();
        let reachable = before.iter().any(|x| x.0 == i as i64);
        if reachable && cnt != 1 {
            return Err(("shared_node_emitted_more_than_once".into(), format!("emitted {:?}; node {} is written {} times", text, i, cnt)));
        }
    }
    // the weak edge
    if let Some((from, to)) = weak {
        if to > from {
            fn find(n: &Rc<DNode>, id: i64) -> Option<Rc<DNode>> {
                if n.id == id {
                    return Some(n.clone());
                }
                n.kids.iter().find_map(|k| find(&k.0, id))
            }
            let f = back.roots.iter().find_map(|r| find(&r.0, from as i64));
            let t = back.roots.iter().find_map(|r| find(&r.0, to as i64));
            if let (Some(f), Some(t)) = (f, t) {
                match f.up.upgrade() {
                    Some(u) if Rc::ptr_eq(&u, &t) => {}
                    Some(u) => return Err(("weak_points_elsewhere".into(), format!("emitted {:?}; weak edge {}->{} points to node {}", text, from, to, u.id))),
                    None => return Err(("live_weak_lost".into(), format!("emitted {:?}; weak edge {}->{} is dangling after read-back", text, from, to))),
                }
            }
        }
    }
    Ok(text)
}

#[derive(Debug, Serialize, Deserialize)]
#[serde(bound(deserialize = "P: DeserializeOwned + 'static", serialize = "P: Serialize"))]
struct ExplicitKeyDoc<P> {
    /// entries written as explicit `? key` / `: value` pairs: a composite key, a key longer than 1024 characters
    m: BTreeMap<(i64, i64), RcAnchor<P>>,
    long: BTreeMap<String, RcAnchor<P>>,
    again: RcAnchor<P>,
    again2: RcAnchor<P>,
}

/// shared values as the value of an explicit-key entry (the anchor ends the `:` line), then aliased
fn explicit_key_pass(acc: &mut Acc, n_opts: u8) {
    fn one<P: Serialize + DeserializeOwned + PartialEq + Debug + 'static>(acc: &mut Acc, name: &str, a: P, b: P, opts: u8) {
        let (ra, rb) = (Rc::new(a), Rc::new(b));
        let mut m = BTreeMap::new();
        m.insert((1i64, 2i64), RcAnchor(ra.clone()));
        let mut long = BTreeMap::new();
        long.insert("k".repeat(1030), RcAnchor(rb.clone()));
        let doc = ExplicitKeyDoc { m, long, again: RcAnchor(ra.clone()), again2: RcAnchor(rb.clone()) };
        acc.evaluations += 1;
        acc.execs += 2;
        acc.compared += 1;
        acc.nontrivial += 1;
        acc.class("explicit_key_entry", 1);
        let key = |clause: &str| format!("{}|shared {} as the value of an explicit-key entry|{}", clause, name, OPTS[opts as usize]);
        let text = match guarded(|| serde_saphyr::to_string_with_options(&doc, ser_opts(opts).to_lib())) {
            Err(p) => return acc.add_violation(key("panic_ser"), "panic_ser", p, json!({"payload": name, "opts": opts}), json!({})),
            Ok(Err(e)) => return acc.add_violation(key("ser_error"), "ser_error", e.to_string(), json!({"payload": name, "opts": opts}), json!({})),
            Ok(Ok(t)) => t,
        };
        let shown: String = text.replace(&"k".repeat(1030), "<1030 x k>");
        match guarded(|| serde_saphyr::from_str::<ExplicitKeyDoc<P>>(&text)) {
            Err(p) => acc.add_violation(key("panic_de"), "panic_de", p, json!({"payload": name, "opts": opts}), json!({})),
            Ok(Err(e)) => acc.add_violation(key("readback_error"), "readback_error", format!("emitted {:?}; read-back failed: {}", shown, e.to_string().lines().next().unwrap_or("")), json!({"payload": name, "opts": opts}), json!({})),
            Ok(Ok(back)) => {
                let v1 = back.m.get(&(1, 2));
                let v2 = back.long.values().next();
                match (v1, v2) {
                    (Some(x), Some(y)) => {
                        if *x.0 != *ra || *y.0 != *rb || *back.again.0 != *ra || *back.again2.0 != *rb {
                            acc.add_violation(key("value_differs"), "value_differs", format!("emitted {:?}; read back {:?}", shown, back.again), json!({"payload": name, "opts": opts}), json!({}));
                        } else if !Rc::ptr_eq(&x.0, &back.again.0) || !Rc::ptr_eq(&y.0, &back.again2.0) {
                            acc.add_violation(key("sharing_relation_changed"), "sharing_relation_changed", format!("emitted {:?}; the value of the explicit-key entry and its alias are no longer one allocation", shown), json!({"payload": name, "opts": opts}), json!({}));
                        }
                    }
                    _ => acc.add_violation(key("slot_missing"), "slot_missing", format!("emitted {:?}", shown), json!({"payload": name, "opts": opts}), json!({})),
                }
            }
        }
    }
    for opts in 0..n_opts {
        one::<Vec<i64>>(acc, "Vec<i64>", vec![1, 2, 3], vec![4, 5], opts);
        one::<BTreeMap<String, i64>>(acc, "BTreeMap<String,i64>", [("a".to_string(), 1), ("b".to_string(), 2)].into_iter().collect(), [("c".to_string(), 3)].into_iter().collect(), opts);
        one::<String>(acc, "String", "s".into(), "t".into(), opts);
        one::<EV>(acc, "enum EV", EV::new(1), EV::new(2), opts);
        one::<Vec<Vec<i64>>>(acc, "Vec<Vec<i64>>", vec![vec![1], vec![2, 3]], vec![vec![]], opts);
        one::<Option<i64>>(acc, "Option<i64>", Some(1), None, opts);
    }
}

pub fn run(ctx: &Ctx) -> i32 {
    let p = C14;
    let kmax = ctx.tier.pick(4usize, 6usize);
    let mut cases = Vec::new();
    for k in 1..=kmax {
        for classes in partitions(k) {
            let mut nclasses = classes.iter().copied().max().unwrap() + 1;
            let mut padded = classes.clone();
            // the slots beyond k are unshared allocations of their own
            while padded.len() < SLOTS {
                padded.push(nclasses);
                nclasses += 1;
            }
            // weak edge choices: none; one edge to each class / dangling; two edges (all pairs) for small k
            let mut weak_sets: Vec<Vec<Option<u8>>> = vec![vec![]];
            let mut targets: Vec<Option<u8>> = (0..nclasses).map(Some).collect();
            targets.push(None);
            for t in &targets {
                weak_sets.push(vec![*t]);
            }
            if k <= 3 || ctx.tier == Tier::Thorough {
                for t1 in &targets {
                    for t2 in &targets {
                        weak_sets.push(vec![*t1, *t2]);
                    }
                }
            }
            for weak in weak_sets {
                for payload in 0..PAYLOADS.len() as u8 {
                    for arc in [false, true] {
                        for opts in 0..ctx.tier.pick(4u8, OPTS.len() as u8) {
                            cases.push(Case { classes: padded.clone(), k: k as u8, payload, arc, weak: weak.clone(), opts });
                        }
                    }
                }
            }
        }
    }
    let mut acc = run_list(&p, &cases);
    explicit_key_pass(&mut acc, ctx.tier.pick(4u8, OPTS.len() as u8));
    // cycles
    for n in 1..=ctx.tier.pick(3usize, 4usize) {
        for from in 0..n {
            for to in 0..=from {
                for arc in [false, true] {
                    acc.evaluations += 1;
                    acc.execs += 2;
                    acc.compared += 1;
                    acc.nontrivial += 1;
                    acc.class("cycle", 1);
                    let r = if arc { cycle_arc(n, from, to) } else { cycle_rc(n, from, to) };
                    if let Err((clause, detail)) = r {
                        let key = format!("{}|cycle of {} nodes, back edge {}->{}|{}", clause, n, from, to, if arc { "Arc" } else { "Rc" });
                        acc.add_violation(key, &clause, detail, json!({"cycle": n, "from": from, "to": to, "arc": arc}), json!({}));
                    }
                }
            }
        }
    }
    // DAGs: every edge set over n nodes (children have larger indices), every set of extra roots, every weak edge
    {
        let n_max = ctx.tier.pick(4usize, 5usize);
        let mut dag_cases: Vec<(usize, Vec<u32>, u32, Option<(usize, usize)>)> = Vec::new();
        for n in 1..=n_max {
            let pairs: Vec<(usize, usize)> = (0..n).flat_map(|i| (i + 1..n).map(move |j| (i, j))).collect();
            for em in 0..(1u32 << pairs.len()) {
                let mut edges = vec![0u32; n];
                for (b, (i, j)) in pairs.iter().enumerate() {
                    if em & (1 << b) != 0 {
                        edges[*i] |= 1 << j;
                    }
                }
                for roots in 0..(1u32 << (n - 1)) {
                    let roots = roots << 1;
                    // a weak edge must point to a node that is written before its holder is finished being read:
                    // targets with a larger index are children-side (written inside / after), which the wrapper
                    // documents as unsupported unless already written; only no-weak and "to an earlier root" are used
                    dag_cases.push((n, edges.clone(), roots, None));
                }
            }
        }
        use rayon::prelude::*;
        let a = dag_cases
            .par_iter()
            .fold(Acc::default, |mut acc, (n, edges, roots, weak)| {
                acc.evaluations += 1;
                acc.execs += 2;
                acc.compared += 1;
                let shared = {
                    // some node has two parents / references
                    let mut refs = vec![0u32; *n];
                    refs[0] += 1;
                    for i in 0..*n {
                        if *roots & (1 << i) != 0 {
                            refs[i] += 1;
                        }
                        for j in 0..*n {
                            if edges[i] & (1 << j) != 0 {
                                refs[j] += 1;
                            }
                        }
                    }
                    refs.iter().any(|&r| r >= 2)
                };
                if shared {
                    acc.nontrivial += 1;
                }
                acc.class("dag", 1);
                if let Err((clause, detail)) = dag_rc(*n, edges, *roots, *weak) {
                    let key = format!("{}|dag n={} edges={:?} roots={:#b}", clause, n, edges, roots);
                    acc.add_violation(key, &clause, detail, json!({"dag": n, "edges": edges, "roots": roots}), json!({}));
                }
                acc
            })
            .reduce(Acc::default, Acc::merge);
        acc.notes.insert("dag_cases".into(), json!(dag_cases.len()));
        acc = acc.merge(a);
    }
    acc.notes.insert("strong_slot_layout".into(), json!(SLOT_NAMES));
    let meta = Meta {
        level: "model_checking",
        rule: "every set partition of the first k strong slots (struct fields, sequence elements, map value, nested struct) into shared allocations, x 8 payload kinds (incl. a multi-line string and a node holding a weak edge) x Rc|Arc x weak-edge sets (to each live class / to a dropped target; pairs; each edge in sequence position, in mapping-value position and inside a nested struct), plus chains of n nodes through the recursive wrappers with every back edge, plus every DAG over up to 4 (thorough 5) nodes whose shared nodes hold shared nodes (every edge set x every set of extra root references, pointer classes compared over all occurrences in traversal order); non-trivial = some allocation is shared or a live weak edge exists".into(),
        exhaustive: true,
        bounds: json!({"max_strong_slots": kmax, "payloads": PAYLOADS, "cycle_len": ctx.tier.pick(3, 4)}),
        assumptions: vec!["sharing relation compared by Rc::ptr_eq / Arc::ptr_eq on every pair of slots".into()],
    };
    finish(ctx, meta, acc)
}

pub fn replay_file(ctx: &Ctx, path: &str) -> i32 {
    replay(&C14, ctx, path)
}
