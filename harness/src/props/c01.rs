//! C01 — deserialization and error rendering are total: no panic, abort or hang.
//! Exhaustive token-string product (run in a child process so that an abort / stack overflow / hang is
//! attributed to a single input by bisection) plus deep / wide families on an 8 MiB stack.
use crate::engine::*;
use crate::raw;
use crate::space01::*;
use rayon::prelude::*;
use serde::{Deserialize, Serialize};
use serde_json::json;
use std::process::{Command, Stdio};
use std::time::{Duration, Instant};

#[derive(Clone, Debug, Serialize, Deserialize)]
pub struct Case {
    /// indices into space01::TOKENS
    pub tokens: Vec<u8>,
    pub target: u8,
    pub entry: u8,
    pub optvec: u8,
}

pub fn input_of(tokens: &[u8]) -> Vec<u8> {
    tokens.iter().flat_map(|&t| TOKENS[t as usize].iter().copied()).collect()
}

pub struct C01;

/// set when the probes confirm that the known reader-hang class still hangs (so that those inputs are not fed to
/// reader entry points inside the shared child, which would block the whole exploration)
pub static SKIP_READER_HANG_CLASS: std::sync::atomic::AtomicBool = std::sync::atomic::AtomicBool::new(false);

/// set when the probes find that a batch entry point never returns for a target that reads nothing (so that this
/// class is reported once and not fed to the shared child)
pub static SKIP_UNREAD_DOCUMENT_CLASS: std::sync::atomic::AtomicBool = std::sync::atomic::AtomicBool::new(false);

impl Prop for C01 {
    type Case = Case;
    fn check(&self, c: &Case) -> Verdict {
        let mut v = Verdict::default();
        let input = input_of(&c.tokens);
        if SKIP_UNREAD_DOCUMENT_CLASS.load(std::sync::atomic::Ordering::Relaxed) && c.target == 15 && matches!(c.entry, 4 | 5) {
            v.classes.push("skipped_unread_document_hang_class");
            v.nontrivial = true;
            return v;
        }
        if SKIP_READER_HANG_CLASS.load(std::sync::atomic::Ordering::Relaxed) && is_reader_entry(c.entry) && reader_hang_suspect(&input) {
            // known finding (saphyr-parser's buffered input never terminates on these): probed separately in children
            v.classes.push("skipped_known_reader_hang_class");
            v.nontrivial = true;
            return v;
        }
        let ex = match guarded(|| exec(&input, c.target, c.entry, c.optvec)) {
            Ok(e) => e,
            Err(p) => {
                v.execs = 1;
                v.nontrivial = true;
                v.fail(&format!("panic@{}", panic_site(&p)), format!("{:?} into {} via {} [{}]: {}", String::from_utf8_lossy(&input), TARGETS[c.target as usize], ENTRIES[c.entry as usize], OPTION_VECTORS[c.optvec as usize], p));
                return v;
            }
        };
        if ex.skipped {
            v.rejected = true;
            return v;
        }
        v.execs = 1;
        v.compared = 1;
        if ex.unterminated {
            v.fail("iterator_does_not_terminate", format!("{:?} into {}: more than n+2 items", String::from_utf8_lossy(&input), TARGETS[c.target as usize]));
            return v;
        }
        let mut sig = Vec::new();
        for e in &ex.errors {
            match guarded(|| render_all(e)) {
                Ok(rs) => {
                    let dbg = &rs[4];
                    let name: String = dbg.trim_start_matches("WithSnippet").chars().skip_while(|c| !c.is_alphabetic()).take_while(|c| c.is_alphanumeric()).collect();
                    sig.push(name);
                }
                Err(p) => {
                    v.fail(&format!("render_panic@{}", panic_site(&p)), format!("{:?} into {} via {} [{}]: rendering the error panicked: {}", String::from_utf8_lossy(&input), TARGETS[c.target as usize], ENTRIES[c.entry as usize], OPTION_VECTORS[c.optvec as usize], p));
                    return v;
                }
            }
        }
        v.outcome = hash64(&(ex.oks.min(3), sig, c.target));
        v.nontrivial = !c.tokens.is_empty();
        v
    }
    fn shrink(&self, c: &Case) -> Vec<Case> {
        let mut out = Vec::new();
        for i in 0..c.tokens.len() {
            let mut t = c.tokens.clone();
            t.remove(i);
            out.push(Case { tokens: t, ..c.clone() });
        }
        if c.optvec != 0 {
            out.push(Case { optvec: 0, ..c.clone() });
        }
        if c.entry != 0 {
            out.push(Case { entry: 0, ..c.clone() });
        }
        if c.target != 0 {
            out.push(Case { target: 0, ..c.clone() });
        }
        out
    }
    fn key(&self, c: &Case, clause: &str) -> String {
        format!("{}|{:?}|{}|{}|{}", clause, String::from_utf8_lossy(&input_of(&c.tokens)), TARGETS[c.target as usize], ENTRIES[c.entry as usize], OPTION_VECTORS[c.optvec as usize])
    }
}

/// the (entry, optvec) combinations run for every (string, target)
fn combos() -> Vec<(u8, u8)> {
    let mut v: Vec<(u8, u8)> = (0..ENTRIES.len() as u8).map(|e| (e, 0)).collect();
    for o in 1..OPTION_VECTORS.len() as u8 {
        v.push((0, o));
        // the robotics vector through the iterator as well only in the thorough tier (quick stays under a minute)
        if o != 8 || std::env::args().any(|a| a == "thorough") {
            v.push((6, o));
        }
    }
    v
}

fn space(tier: Tier) -> (StrSpace<'static>, u64) {
    static IDX: [&str; 36] = ["x"; 36];
    let max_len = tier.pick(3, 4);
    let s = StrSpace::new(&IDX[..TOKENS.len()], max_len);
    let n = s.len() * TARGETS.len() as u64 * combos().len() as u64;
    (s, n)
}

fn decode(sp: &StrSpace, i: u64) -> Case {
    let cb = combos();
    let nc = cb.len() as u64;
    let nt = TARGETS.len() as u64;
    let (entry, optvec) = cb[(i % nc) as usize];
    let r = i / nc;
    let target = (r % nt) as u8;
    let tokens: Vec<u8> = sp.tokens(r / nt).into_iter().map(|t| t as u8).collect();
    Case { tokens, target, entry, optvec }
}

// ---------------------------------------------------------------------------------------------
// deep / wide families

pub const FAMILIES: [&str; 11] =
    ["flow_seq_open", "flow_map_open", "dash_run", "block_map_nest", "complex_key_nest", "merge_nest", "closed_flow_seq", "wide_seq", "wide_map", "long_scalar", "alias_chain"];

pub fn family_doc(f: usize, n: usize) -> String {
    match f {
        0 => "[".repeat(n),
        1 => "{a: ".repeat(n),
        2 => format!("{}x\n", "- ".repeat(n)),
        3 => {
            let mut s = String::new();
            for i in 0..n {
                s.push_str(&" ".repeat(i));
                s.push_str("a:\n");
            }
            s.push_str(&" ".repeat(n));
            s.push_str("x\n");
            s
        }
        4 => format!("{}x\n", "? ".repeat(n)),
        5 => {
            let mut s = String::new();
            for i in 0..n {
                s.push_str(&" ".repeat(i));
                s.push_str("<<:\n");
            }
            s.push_str(&" ".repeat(n));
            s.push_str("a: 1\n");
            s
        }
        6 => format!("{}x{}\n", "[".repeat(n), "]".repeat(n)),
        7 => format!("[{}]\n", vec!["1"; n].join(", ")),
        8 => (0..n).map(|i| format!("k{}: {}\n", i, i)).collect(),
        9 => format!("a: {}\n", "é".repeat(n)),
        _ => {
            let mut s = String::from("a0: &a0 [x]\n");
            for i in 1..n.min(3000) {
                s.push_str(&format!("a{}: &a{} [*a{}]\n", i, i, i - 1));
            }
            s
        }
    }
}

#[derive(Debug, Deserialize)]
#[allow(dead_code)]
struct Rec {
    #[serde(default)]
    a: Option<Box<Rec>>,
    #[serde(default)]
    c: Option<Vec<Rec>>,
}

pub const DEEP_TARGETS: [&str; 5] = ["Tree", "serde_json::Value", "IgnoredAny", "struct Rec{a:Option<Box<Rec>>,c:Option<Vec<Rec>>}", "Vec<Rec>"];

fn deep_exec(doc: &str, target: usize) -> &'static str {
    fn r<T: serde::de::DeserializeOwned>(doc: &str) -> &'static str {
        match serde_saphyr::from_str::<T>(doc) {
            Ok(_) => "ok",
            Err(e) => {
                let _ = render_all(&e);
                "err"
            }
        }
    }
    match target {
        0 => r::<crate::tree::Tree>(doc),
        1 => r::<serde_json::Value>(doc),
        2 => r::<serde::de::IgnoredAny>(doc),
        3 => r::<Rec>(doc),
        _ => r::<Vec<Rec>>(doc),
    }
}

/// child: `vh C01 child-deep <family> <n> <target>`: run on an 8 MiB stack thread, default budget
fn child_deep(f: usize, n: usize, target: usize) -> i32 {
    let doc = family_doc(f, n);
    let h = std::thread::Builder::new().stack_size(8 << 20).spawn(move || match std::panic::catch_unwind(|| deep_exec(&doc, target)) {
        Ok(s) => s,
        Err(_) => "panic",
    });
    match h.unwrap().join() {
        Ok(s) => {
            println!("DEEP {}", s);
            if s == "panic" {
                10
            } else {
                0
            }
        }
        Err(_) => 11,
    }
}

fn limit_memory(bytes: u64) {
    unsafe {
        let lim = libc::rlimit { rlim_cur: bytes, rlim_max: bytes };
        libc::setrlimit(libc::RLIMIT_AS, &lim);
    }
}

fn self_exe() -> std::path::PathBuf {
    std::env::current_exe().expect("current_exe")
}

/// run a child with a wall limit; returns (exit code or None if killed by a signal / timed out, stdout, timed_out)
fn run_child(args: &[String], limit: Duration) -> (Option<i32>, String, bool) {
    let mut child = match Command::new(self_exe()).args(args).stdout(Stdio::piped()).stderr(Stdio::null()).spawn() {
        Ok(c) => c,
        Err(_) => return (Some(99), String::new(), false),
    };
    let start = Instant::now();
    let mut out = child.stdout.take().unwrap();
    let reader = std::thread::spawn(move || {
        let mut s = String::new();
        use std::io::Read;
        let _ = out.read_to_string(&mut s);
        s
    });
    loop {
        match child.try_wait() {
            Ok(Some(st)) => {
                let s = reader.join().unwrap_or_default();
                return (st.code(), s, false);
            }
            Ok(None) => {
                if start.elapsed() > limit {
                    let _ = child.kill();
                    let _ = child.wait();
                    let s = reader.join().unwrap_or_default();
                    return (None, s, true);
                }
                std::thread::sleep(Duration::from_millis(5));
            }
            Err(_) => return (Some(98), String::new(), false),
        }
    }
}

/// child: `vh C01 child-prod <tier> <lo> <hi>`: process the index range, print the accumulator as JSON
fn child_prod(tier: Tier, lo: u64, hi: u64) -> i32 {
    let (sp, _) = space(tier);
    let p = C01;
    let chunk = 512u64;
    let chunks = (hi - lo).div_ceil(chunk);
    // watchdog: every worker publishes the index it is working on; an index that takes longer than 5 s is
    // reported as HANG and the child exits (the parent resumes around it)
    use std::sync::atomic::{AtomicU64, Ordering};
    static CURRENT: [AtomicU64; 64] = [const { AtomicU64::new(u64::MAX) }; 64];
    static STARTED_MS: [AtomicU64; 64] = [const { AtomicU64::new(0) }; 64];
    let t0 = Instant::now();
    std::thread::spawn(move || loop {
        std::thread::sleep(Duration::from_millis(250));
        let now = t0.elapsed().as_millis() as u64;
        for slot in 0..64 {
            let idx = CURRENT[slot].load(Ordering::Relaxed);
            let st = STARTED_MS[slot].load(Ordering::Relaxed);
            if idx != u64::MAX && now.saturating_sub(st) > 5000 && CURRENT[slot].load(Ordering::Relaxed) == idx {
                println!("HANG {}", idx);
                use std::io::Write;
                let _ = std::io::stdout().flush();
                std::process::exit(12);
            }
        }
    });
    let acc = (0..chunks)
        .into_par_iter()
        .fold(Acc::default, |mut acc, ci| {
            let a = lo + ci * chunk;
            let b = (a + chunk).min(hi);
            let slot = rayon::current_thread_index().unwrap_or(63) % 64;
            for i in a..b {
                STARTED_MS[slot].store(t0.elapsed().as_millis() as u64, Ordering::Relaxed);
                CURRENT[slot].store(i, Ordering::Relaxed);
                let c = decode(&sp, i);
                if acc.samples.is_empty() && i % 50021 == 7 {
                    acc.samples.push(json!({"input": String::from_utf8_lossy(&input_of(&c.tokens)), "target": TARGETS[c.target as usize], "entry": ENTRIES[c.entry as usize], "options": OPTION_VECTORS[c.optvec as usize]}));
                }
                process_case(&p, &mut acc, &c);
            }
            CURRENT[slot].store(u64::MAX, Ordering::Relaxed);
            acc
        })
        .reduce(Acc::default, Acc::merge);
    println!("ACCJSON {}", serde_json::to_string(&acc).unwrap());
    0
}

pub fn child(args: &[String]) -> i32 {
    install_panic_hook();
    match args.first().map(|s| s.as_str()) {
        Some("child-prod") => {
            let tier = if args[1] == "thorough" { Tier::Thorough } else { Tier::Quick };
            if args.get(4).map(|s| s == "skip").unwrap_or(false) {
                SKIP_READER_HANG_CLASS.store(true, std::sync::atomic::Ordering::Relaxed);
            }
            child_prod(tier, args[2].parse().unwrap(), args[3].parse().unwrap())
        }
        Some("child-one") => {
            // child-one <hex input> <target> <entry> <optvec>
            limit_memory(2 << 30);
            let input: Vec<u8> = (0..args[1].len() / 2).map(|i| u8::from_str_radix(&args[1][2 * i..2 * i + 2], 16).unwrap()).collect();
            let ex = exec(&input, args[2].parse().unwrap(), args[3].parse().unwrap(), args[4].parse().unwrap());
            for e in &ex.errors {
                let _ = render_all(e);
            }
            println!("ONE oks={} errs={}", ex.oks, ex.errors.len());
            0
        }
        Some("child-deep") => child_deep(args[1].parse().unwrap(), args[2].parse().unwrap(), args[3].parse().unwrap()),
        _ => 2,
    }
}

/// Run [lo, hi) in a child; on a crash / hang bisect down to the single index.
fn prod_range(tier: Tier, lo: u64, hi: u64, limit: Duration, acc: &mut Acc, depth: u32) -> Result<(), String> {
    let mut args = vec!["C01".to_string(), "child-prod".to_string(), tier.name().to_string(), lo.to_string(), hi.to_string()];
    if SKIP_READER_HANG_CLASS.load(std::sync::atomic::Ordering::Relaxed) {
        args.push("skip".to_string());
    }
    let (code, out, timed_out) = run_child(&args, limit);
    if code == Some(0) {
        let line = out.lines().find(|l| l.starts_with("ACCJSON ")).ok_or("child produced no accumulator")?;
        let a: Acc = serde_json::from_str(&line[8..]).map_err(|e| format!("bad accumulator: {}", e))?;
        let merged = std::mem::take(acc).merge(a);
        *acc = merged;
        return Ok(());
    }
    if code == Some(12) {
        // the child's watchdog named the index that does not finish: record it and resume around it
        let idx: u64 = out.lines().find_map(|l| l.strip_prefix("HANG ").and_then(|x| x.trim().parse().ok())).ok_or("child reported a hang without an index")?;
        let (sp, _) = space(tier);
        let c = decode(&sp, idx);
        acc.evaluations += 1;
        acc.add_violation(C01.key(&c, "hang"), "hang", "the call did not return within 5 s (watchdog in the exploring child)".to_string(), serde_json::to_value(&c).unwrap(), json!({}));
        if idx > lo {
            prod_range(tier, lo, idx, limit, acc, depth + 1)?;
        }
        if idx + 1 < hi {
            prod_range(tier, idx + 1, hi, limit, acc, depth + 1)?;
        }
        return Ok(());
    }
    if code.is_some() && code != Some(0) && !timed_out && code != Some(101) {
        return Err(format!("child exited with {:?}", code));
    }
    // crash (signal) or hang
    if hi - lo <= 1 {
        let (sp, _) = space(tier);
        let c = decode(&sp, lo);
        let what = if timed_out { "hang" } else { "abort" };
        let key = C01.key(&c, what);
        acc.evaluations += 1;
        acc.add_violation(key, what, format!("the process {} on this input (child killed / died on a signal)", if timed_out { "did not finish" } else { "aborted" }), serde_json::to_value(&c).unwrap(), json!({}));
        return Ok(());
    }
    if depth > 200 {
        return Err("bisection too deep".into());
    }
    let mid = lo + (hi - lo) / 2;
    // smaller ranges get proportionally smaller limits (but at least 20 s)
    let l2 = Duration::from_secs((limit.as_secs() / 2).max(20));
    prod_range(tier, lo, mid, l2, acc, depth + 1)?;
    prod_range(tier, mid, hi, l2, acc, depth + 1)
}

pub fn run(ctx: &Ctx) -> i32 {
    let (_sp, n) = space(ctx.tier);
    let mut acc = Acc::default();
    // probe the known reader-hang class in isolated children (3 s wall, 2 GiB address space)
    let probes: [(&[u8], u8); 15] = [
        (b"\r%a", 2),
        (b"a: 1\r...\r%FOO", 6),
        (b"a\r\n...\r\n%a", 3),
        (b"\xef\xbb\xbf\r%", 8),
        (b"%", 2),
        (b"%a", 2),
        (b"%YAML", 6),
        (b"%TAG", 3),
        (b"%FOO bar", 2),
        (b"a\n...\n%a", 8),
        (b"---\n%a", 6),
        (b"#c\n%a", 2),
        (b"%\xc3\n", 2),
        (b"%a\xff\n", 6),
        (b"\xef\xbb\xbf%TAG ! tag:", 3),
    ];
    let probe_results: Vec<(String, u8, bool, String)> = probes
        .par_iter()
        .map(|(text, entry)| {
            let hex: String = text.iter().map(|b| format!("{:02x}", b)).collect();
            let args = vec!["C01".to_string(), "child-one".to_string(), hex.clone(), "2".to_string(), entry.to_string(), "0".to_string()];
            let (code, _out, timed_out) = run_child(&args, Duration::from_secs(3));
            (String::from_utf8_lossy(text).into_owned(), *entry, timed_out || code != Some(0), hex)
        })
        .collect();
    let mut any_hang = false;
    for (text, entry, bad, hex) in &probe_results {
        acc.evaluations += 1;
        acc.execs += 1;
        acc.nontrivial += 1;
        if *bad {
            any_hang = true;
            acc.add_violation(
                format!("hang|{:?}|{}", text, ENTRIES[*entry as usize]),
                "hang",
                format!("{:?} via {}: the call does not return (killed after 3 s / ran out of its 2 GiB address space): a %directive line that runs into the end (EOF or decoding error) of reader input", text, ENTRIES[*entry as usize]),
                json!({"text": text, "hex": hex, "entry": entry}),
                json!({}),
            );
        }
    }
    SKIP_READER_HANG_CLASS.store(any_hang, std::sync::atomic::Ordering::Relaxed);
    // second class: a target that reads nothing, through the batch entry points (each document must still be passed)
    {
        let probes2: [(&[u8], u8, u8); 4] = [(b"a\n", 15, 4), (b"a\n", 15, 5), (b"a\n---\nb\n", 15, 4), (b"[a, b]\n--- c\n", 15, 5)];
        let res: Vec<(String, u8, bool, String)> = probes2
            .par_iter()
            .map(|(text, target, entry)| {
                let hex: String = text.iter().map(|b| format!("{:02x}", b)).collect();
                let args = vec!["C01".to_string(), "child-one".to_string(), hex.clone(), target.to_string(), entry.to_string(), "0".to_string()];
                let (code, _out, timed_out) = run_child(&args, Duration::from_secs(3));
                (String::from_utf8_lossy(text).into_owned(), *entry, timed_out || code != Some(0), hex)
            })
            .collect();
        let mut any2 = false;
        for (text, entry, bad, hex) in &res {
            acc.evaluations += 1;
            acc.execs += 1;
            acc.nontrivial += 1;
            if *bad {
                any2 = true;
                acc.add_violation(
                    format!("hang|{:?}|{}|{}", text, TARGETS[15], ENTRIES[*entry as usize]),
                    "hang",
                    format!("{:?} into {} via {}: the call does not return (killed after 3 s / ran out of its 2 GiB address space)", text, TARGETS[15], ENTRIES[*entry as usize]),
                    json!({"text": text, "hex": hex, "entry": entry, "target": 15}),
                    json!({}),
                );
            }
        }
        SKIP_UNREAD_DOCUMENT_CLASS.store(any2, std::sync::atomic::Ordering::Relaxed);
        acc.notes.insert("unread_document_class_probes".into(), json!({"probes": res.iter().map(|(t, e, b, _)| json!({"input": t, "entry": ENTRIES[*e as usize], "hangs": b})).collect::<Vec<_>>(), "class_skipped": any2}));
    }
    acc.notes.insert("reader_hang_class_probes".into(), json!({"probes": probe_results.iter().map(|(t, e, b, _)| json!({"input": t, "entry": ENTRIES[*e as usize], "hangs": b})).collect::<Vec<_>>(), "class_skipped_for_reader_entries": any_hang}));
    let limit = Duration::from_secs(ctx.tier.pick(600, 7200));
    if let Err(e) = prod_range(ctx.tier, 0, n, limit, &mut acc, 0) {
        eprintln!("MACHINERY: {}", e);
        return 2;
    }
    // deep / wide families, each grid point in its own child
    let ns: Vec<usize> = vec![1, 255, 256, 257, 1998, 1999, 2000, 2001, 2002, 2500, 10_000, 100_000];
    let mut grid = Vec::new();
    for f in 0..FAMILIES.len() {
        for &nn in &ns {
            if f == 3 || f == 5 {
                // quadratic text size: cap the indentation families
                if nn > 2500 {
                    continue;
                }
            }
            for t in 0..DEEP_TARGETS.len() {
                if ctx.tier == Tier::Quick && t >= 3 && !matches!(f, 1 | 3 | 7 | 8 | 9) {
                    continue;
                }
                grid.push((f, nn, t));
            }
        }
    }
    let results: Vec<((usize, usize, usize), Option<i32>, String, bool)> = grid
        .par_iter()
        .map(|&(f, nn, t)| {
            let args = vec!["C01".to_string(), "child-deep".to_string(), f.to_string(), nn.to_string(), t.to_string()];
            let (code, out, to) = run_child(&args, Duration::from_secs(120));
            ((f, nn, t), code, out, to)
        })
        .collect();
    let mut deep_outcomes = std::collections::BTreeMap::new();
    for ((f, nn, t), code, out, timed_out) in results {
        acc.evaluations += 1;
        acc.execs += 1;
        acc.nontrivial += 1;
        acc.class(&format!("family_{}", FAMILIES[f]), 1);
        let o = out.lines().find(|l| l.starts_with("DEEP ")).map(|l| l[5..].to_string()).unwrap_or_default();
        *deep_outcomes.entry(format!("{}:{}", FAMILIES[f], if o.is_empty() { "crash" } else { &o })).or_insert(0u64) += 1;
        let bad = if timed_out {
            Some("hang")
        } else if code == Some(10) {
            Some("panic")
        } else if code != Some(0) {
            Some("abort")
        } else {
            None
        };
        if let Some(what) = bad {
            let key = format!("{}|family {} n={}|{}", what, FAMILIES[f], nn, DEEP_TARGETS[t]);
            acc.add_violation(
                key,
                what,
                format!("{} with n={} into {} on an 8 MiB stack with the default budget: {} (exit {:?})", FAMILIES[f], nn, DEEP_TARGETS[t], what, code),
                json!({"family": f, "n": nn, "target": t}),
                json!({}),
            );
        }
    }
    acc.notes.insert("deep_families".into(), json!({"families": FAMILIES, "n": ns, "targets": DEEP_TARGETS, "grid_points": grid.len(), "outcomes": deep_outcomes}));
    let _ = raw::raw_doc_count("");
    let meta = Meta {
        level: "model_checking",
        rule: "every token string up to the length bound over a 36-token alphabet (indicators, anchors, tags, block scalar headers, document markers, multi-byte characters, BOM and invalid UTF-8 bytes) x 15 targets x 24 (thorough 25) (entry point, option vector) combinations, executed in a child process (abort / stack overflow / hang bisected to a single input), every returned error rendered in 6 ways; plus 11 deep / wide families on a grid of sizes, each grid point in its own child on an 8 MiB stack; non-trivial = non-empty input".into(),
        exhaustive: true,
        bounds: json!({"max_tokens": ctx.tier.pick(3, 4), "tokens": TOKENS.len(), "targets": TARGETS, "entry_points": ENTRIES, "option_vectors": OPTION_VECTORS, "combinations_per_input_and_target": combos().len()}),
        assumptions: vec!["release build with overflow-checks and debug-assertions enabled for serde-saphyr only".into(), "stack figures are those of this build on this machine".into()],
    };
    finish(ctx, meta, acc)
}

pub fn replay_file(ctx: &Ctx, path: &str) -> i32 {
    // deep-family replays carry {family, n, target}
    if let Ok(text) = std::fs::read_to_string(path) {
        if let Ok(v) = serde_json::from_str::<serde_json::Value>(&text) {
            if let (Some(text), Some(entry)) = (v["case"]["text"].as_str(), v["case"]["entry"].as_u64()) {
                let hex: String = match v["case"]["hex"].as_str() {
                    Some(h) => h.to_string(),
                    None => text.bytes().map(|b| format!("{:02x}", b)).collect(),
                };
                let args = vec!["C01".to_string(), "child-one".to_string(), hex, "2".to_string(), entry.to_string(), "0".to_string()];
                let a = run_child(&args, Duration::from_secs(3));
                let b = run_child(&args, Duration::from_secs(3));
                if (a.0, a.2) != (b.0, b.2) {
                    eprintln!("MACHINERY: replay not deterministic");
                    return 2;
                }
                if a.0 == Some(0) && !a.2 {
                    println!("{} replay {}: property holds on this case", ctx.id, path);
                    return 0;
                }
                println!("VIOLATION property={} replay={}", ctx.id, path);
                return 1;
            }
            if let (Some(f), Some(n), Some(t)) = (v["case"]["family"].as_u64(), v["case"]["n"].as_u64(), v["case"]["target"].as_u64()) {
                let args = vec!["C01".to_string(), "child-deep".to_string(), f.to_string(), n.to_string(), t.to_string()];
                let a = run_child(&args, Duration::from_secs(120));
                let b = run_child(&args, Duration::from_secs(120));
                if a.0 != b.0 {
                    eprintln!("MACHINERY: replay not deterministic");
                    return 2;
                }
                if a.0 == Some(0) {
                    println!("{} replay {}: property holds on this case", ctx.id, path);
                    return 0;
                }
                println!("VIOLATION property={} replay={}", ctx.id, path);
                return 1;
            }
        }
    }
    replay(&C01, ctx, path)
}

/// debug helper: describe index i of the product space
pub fn describe(tier: Tier, i: u64) -> String {
    let (sp, _) = space(tier);
    let c = decode(&sp, i);
    format!("{:?} => {}", c, C01.key(&c, "?"))
}
