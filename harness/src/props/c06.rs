//! C06 — scalars are interpreted exactly per requested type and options; never wrapped.
//! Complete finite product (token x style x tag x target x options) against table-driven reference functions.
use crate::doc::*;
use crate::engine::*;
use crate::tree::Tree;
use base64::Engine as _;
use serde::de::DeserializeOwned;
use serde::{Deserialize, Serialize};
use serde_json::json;
use std::borrow::Cow;

#[derive(Clone, Debug, Serialize, Deserialize)]
pub struct Case {
    pub token: String,
    pub style: Style,
    pub tag: Option<String>,
    pub target: u8,
}

pub const TARGETS: [&str; 23] = [
    "i8", "i16", "i32", "i64", "i128", "u8", "u16", "u32", "u64", "u128", "f32", "f64", "bool", "char", "String", "Cow<str>", "Option<String>", "Option<i32>", "()", "Tree",
    "serde_json::Value", "ByteBuf", "&str",
];
pub const TAGS: [Option<&str>; 8] = [None, Some("!!str"), Some("!!int"), Some("!!float"), Some("!!bool"), Some("!!null"), Some("!"), Some("!local")];
pub const STYLES: [Style; 5] = [Style::Plain, Style::Single, Style::Double, Style::Literal, Style::Folded];

// ---------------------------------------------------------------------------------------------
// reference functions (from the documentation, not from the code)

/// permissive integer reading: optional sign, optional radix prefix in any case, underscores anywhere
/// returns (negative, magnitude or None on u128 overflow, canonical notation?)
pub fn ref_int(tok: &str, legacy_octal: bool) -> Option<(bool, Option<u128>, bool)> {
    let (neg, rest, signed) = match tok.as_bytes().first()? {
        b'-' => (true, &tok[1..], true),
        b'+' => (false, &tok[1..], true),
        _ => (false, tok, false),
    };
    let _ = signed;
    if rest.is_empty() {
        return None;
    }
    let lower = rest.to_ascii_lowercase();
    let (radix, digits, prefix_canonical) = if let Some(d) = lower.strip_prefix("0x") {
        (16u32, d.to_string(), rest.starts_with("0x"))
    } else if let Some(d) = lower.strip_prefix("0o") {
        (8, d.to_string(), rest.starts_with("0o"))
    } else if let Some(d) = lower.strip_prefix("0b") {
        (2, d.to_string(), rest.starts_with("0b"))
    } else if legacy_octal && lower.starts_with("00") {
        (8, lower[2..].to_string(), true)
    } else {
        (10, lower.clone(), true)
    };
    let legacy_form = legacy_octal && radix == 8 && !lower.starts_with("0o");
    if digits.is_empty() {
        // legacy "00" is zero
        if legacy_form {
            return Some((neg, Some(0), true));
        }
        return None;
    }
    if !digits.chars().all(|c| c == '_' || c.is_digit(radix)) || digits.chars().all(|c| c == '_') {
        return None;
    }
    // canonical: no underscore at the edges or doubled, no redundant leading zero for decimal
    let mut canonical = prefix_canonical && !digits.starts_with('_') && !digits.ends_with('_') && !digits.contains("__");
    if radix == 10 && digits.len() > 1 && digits.starts_with('0') {
        canonical = false;
    }
    if radix != 10 && !legacy_form && rest[2..].chars().any(|c| c.is_ascii_uppercase()) && radix == 16 {
        // upper-case hex digits are documented-compatible; keep canonical
    }
    let mut mag: Option<u128> = Some(0);
    for c in digits.chars().filter(|c| *c != '_') {
        let d = c.to_digit(radix).unwrap() as u128;
        mag = mag.and_then(|m| m.checked_mul(radix as u128)).and_then(|m| m.checked_add(d));
    }
    Some((neg, mag, canonical))
}

fn int_range(target: u8) -> (i128, u128) {
    // (min as i128, max as u128)
    match target {
        0 => (i8::MIN as i128, i8::MAX as u128),
        1 => (i16::MIN as i128, i16::MAX as u128),
        2 => (i32::MIN as i128, i32::MAX as u128),
        3 => (i64::MIN as i128, i64::MAX as u128),
        4 => (i128::MIN, i128::MAX as u128),
        5 => (0, u8::MAX as u128),
        6 => (0, u16::MAX as u128),
        7 => (0, u32::MAX as u128),
        8 => (0, u64::MAX as u128),
        _ => (0, u128::MAX),
    }
}

fn fits(target: u8, neg: bool, mag: Option<u128>) -> Option<String> {
    let mag = mag?;
    let (min, max) = int_range(target);
    if neg && mag != 0 {
        // value = -mag
        if min == 0 {
            return None;
        }
        let min_mag = (min as i128).unsigned_abs();
        if mag > min_mag {
            return None;
        }
        Some(format!("-{}", mag))
    } else {
        if mag > max {
            return None;
        }
        Some(format!("{}", mag))
    }
}

pub fn ref_bool(tok: &str) -> Option<bool> {
    let l = tok.to_ascii_lowercase();
    // lower, UPPER and Capitalised spellings
    let shape_ok = tok == l || tok == tok.to_ascii_uppercase() || (tok.len() > 1 && tok[..1] == tok[..1].to_ascii_uppercase() && tok[1..] == l[1..]);
    if !shape_ok {
        return None;
    }
    match l.as_str() {
        "true" | "yes" | "on" | "y" => Some(true),
        "false" | "no" | "off" | "n" => Some(false),
        _ => None,
    }
}

fn is_yaml12_float(tok: &str) -> bool {
    let b = tok.as_bytes();
    let mut i = 0;
    if i < b.len() && (b[i] == b'-' || b[i] == b'+') {
        i += 1;
    }
    let ds = i;
    while i < b.len() && b[i].is_ascii_digit() {
        i += 1;
    }
    let int_digits = i - ds;
    let mut frac = 0;
    if i < b.len() && b[i] == b'.' {
        i += 1;
        let fs = i;
        while i < b.len() && b[i].is_ascii_digit() {
            i += 1;
        }
        frac = i - fs;
    }
    if int_digits == 0 && frac == 0 {
        return false;
    }
    if i < b.len() && (b[i] == b'e' || b[i] == b'E') {
        i += 1;
        if i < b.len() && (b[i] == b'-' || b[i] == b'+') {
            i += 1;
        }
        let es = i;
        while i < b.len() && b[i].is_ascii_digit() {
            i += 1;
        }
        if i == es {
            return false;
        }
    }
    i == b.len()
}

fn special_float(tok: &str) -> Option<f64> {
    let (sign, rest) = match tok.as_bytes().first() {
        Some(b'-') => (-1.0, &tok[1..]),
        Some(b'+') => (1.0, &tok[1..]),
        _ => (1.0, tok),
    };
    match rest {
        ".inf" | ".Inf" | ".INF" => Some(sign * f64::INFINITY),
        ".nan" | ".NaN" | ".NAN" if rest.len() == tok.len() => Some(f64::NAN),
        _ => None,
    }
}

fn is_nullish_plain(tok: &str) -> bool {
    tok.is_empty() || tok == "~" || tok == "null" || tok == "Null" || tok == "NULL"
}

/// spelled like null but in a case the YAML core schema does not list (nULL): not stated either way
fn maybe_nullish(tok: &str) -> bool {
    tok.eq_ignore_ascii_case("null") && !is_nullish_plain(tok)
}

#[derive(Clone, Debug, PartialEq)]
pub enum Exp {
    Accept(String),
    Reject,
    Unspec,
    /// unspecified whether accepted, but if accepted the value must be this
    IfOk(String),
}

#[derive(Clone, Copy, Debug, PartialEq, Eq, Serialize, Deserialize)]
pub struct Opts {
    pub strict_booleans: bool,
    pub no_schema: bool,
    pub legacy_octal: bool,
    pub ignore_binary: bool,
}
impl Opts {
    pub fn from_bits(b: u8) -> Opts {
        Opts { strict_booleans: b & 1 != 0, no_schema: b & 2 != 0, legacy_octal: b & 4 != 0, ignore_binary: b & 8 != 0 }
    }
    fn to_lib(&self) -> serde_saphyr::Options {
        serde_saphyr::options! {
            strict_booleans: self.strict_booleans,
            no_schema: self.no_schema,
            legacy_octal_numbers: self.legacy_octal,
            ignore_binary_tag_for_string: self.ignore_binary,
        }
    }
}

fn looks_typed(tok: &str) -> Option<bool> {
    // Some(true): definitely a number / bool / null under the documented tables; Some(false): definitely none of them; None: unclear
    if is_nullish_plain(tok) || ref_bool(tok).is_some() {
        return Some(true);
    }
    let l = tok.to_ascii_lowercase();
    if ["true", "false", "yes", "no", "on", "off", "y", "n", "null"].contains(&l.as_str()) {
        return None; // mixed-case spelling
    }
    if let Some((_, mag, canonical)) = ref_int(tok, false) {
        // "reads as a number" for a schema-inferring parser: definite only for 64-bit magnitudes
        return if canonical && mag.map(|m| m <= u64::MAX as u128).unwrap_or(false) { Some(true) } else { None };
    }
    if is_yaml12_float(tok) || special_float(tok).is_some() {
        return Some(true);
    }
    if !tok.is_empty() && tok.chars().all(|c| c.is_ascii_alphabetic()) {
        // (incl. `inf`, `nan`, `infinity`: the documented float specials are the dotted forms only)
        return Some(false);
    }
    if rust_only_float_word(tok) {
        return Some(false);
    }
    None
}

/// `inf`, `infinity`, `nan` with an optional sign, in any case: accepted by Rust's float parser, not YAML floats
fn rust_only_float_word(tok: &str) -> bool {
    let t = tok.strip_prefix(['+', '-']).unwrap_or(tok).to_ascii_lowercase();
    ["inf", "infinity", "nan"].contains(&t.as_str())
}

pub fn expected(c: &Case, o: &Opts) -> Exp {
    let plain = c.style == Style::Plain;
    let tok = c.token.as_str();
    let untagged = c.tag.is_none();
    if c.tag.as_deref() == Some("!!null") {
        // the tag says "this is null" whatever the text: interplay with the target type is not stated
        return Exp::Unspec;
    }
    match c.target {
        0..=9 => {
            let r = ref_int(tok.trim(), o.legacy_octal);
            let permissive = ref_int(tok.trim(), true).or(ref_int(tok.trim(), false));
            match r {
                None => {
                    if permissive.is_none() && tok.trim() == tok {
                        Exp::Reject
                    } else {
                        Exp::Unspec
                    }
                }
                Some((neg, mag, canonical)) => match fits(c.target, neg, mag) {
                    None => {
                        // out of range under this reading; if another reading (legacy vs decimal) would fit, stay silent
                        let alt = ref_int(tok.trim(), !o.legacy_octal).and_then(|(n, m, _)| fits(c.target, n, m));
                        if alt.is_some() {
                            Exp::Unspec
                        } else {
                            Exp::Reject
                        }
                    }
                    Some(v) => {
                        let leading_zero = {
                            let t = tok.trim_start_matches(['+', '-']);
                            t.len() > 1 && t.starts_with('0') && t.as_bytes()[1].is_ascii_digit()
                        };
                        if plain && untagged && canonical && tok.trim() == tok && (!leading_zero || o.legacy_octal) {
                            Exp::Accept(v)
                        } else if leading_zero {
                            // decimal-with-leading-zero vs legacy octal: only "if accepted, one of the two exact readings"
                            Exp::Unspec
                        } else {
                            Exp::IfOk(v)
                        }
                    }
                },
            }
        }
        10 | 11 => {
            let t = tok;
            let val: Option<f64> = if is_yaml12_float(t) { t.parse::<f64>().ok() } else { special_float(t) };
            match val {
                Some(v) => {
                    let repr = if c.target == 10 {
                        let f: f32 = if is_yaml12_float(t) { t.parse::<f32>().unwrap() } else { v as f32 };
                        format!("f32:{:#x}", if f.is_nan() { f32::NAN.to_bits() } else { f.to_bits() })
                    } else {
                        format!("f64:{:#x}", crate::tree::fbits(v))
                    };
                    if plain && untagged {
                        Exp::Accept(repr)
                    } else {
                        Exp::IfOk(repr)
                    }
                }
                None => {
                    if rust_only_float_word(t) {
                        Exp::Unspec // a float target taking `inf` / `nan` without the dot is leniency the tables do not mention
                    } else if looks_typed(t) == Some(false) && plain && untagged {
                        Exp::Reject
                    } else {
                        Exp::Unspec
                    }
                }
            }
        }
        12 => {
            if !(plain && untagged) {
                return Exp::Unspec;
            }
            match ref_bool(tok) {
                Some(b) => {
                    if o.strict_booleans {
                        match tok {
                            "true" | "false" => Exp::Accept(b.to_string()),
                            _ if tok.eq_ignore_ascii_case("true") || tok.eq_ignore_ascii_case("false") => Exp::Unspec,
                            _ => Exp::Reject,
                        }
                    } else {
                        Exp::Accept(b.to_string())
                    }
                }
                None => {
                    let l = tok.to_ascii_lowercase();
                    if ["true", "false", "yes", "no", "on", "off", "y", "n"].contains(&l.as_str()) {
                        Exp::Unspec // mixed case such as tRuE
                    } else if tok.trim() != tok {
                        Exp::Unspec
                    } else {
                        Exp::Reject
                    }
                }
            }
        }
        13 => {
            if !untagged {
                return Exp::Unspec;
            }
            if plain && is_nullish_plain(tok) {
                return Exp::Reject;
            }
            if matches!(c.style, Style::Literal | Style::Folded) {
                return Exp::Unspec;
            }
            let mut it = tok.chars();
            match (it.next(), it.next()) {
                (Some(ch), None) => {
                    if plain && o.no_schema && looks_typed(tok) != Some(false) {
                        Exp::Unspec
                    } else {
                        Exp::Accept(format!("{:?}", ch))
                    }
                }
                _ => Exp::Reject,
            }
        }
        14 | 15 | 16 => {
            let wrap = |s: &str| if c.target == 16 { format!("Some({:?})", s) } else { format!("{:?}", s) };
            match c.tag.as_deref() {
                None | Some("!!str") => {}
                _ => return Exp::Unspec,
            }
            if matches!(c.style, Style::Literal | Style::Folded) {
                return Exp::Unspec; // chomping decides the exact text
            }
            if !plain {
                return Exp::Accept(wrap(tok));
            }
            if c.tag.is_some() {
                return Exp::Accept(wrap(tok)); // `!!str null` says it is a string, also for an Option
            }
            if is_nullish_plain(tok) {
                return if c.target == 16 { Exp::Accept("None".into()) } else { Exp::Reject };
            }
            if maybe_nullish(tok) {
                return Exp::Unspec;
            }
            if o.no_schema {
                return match looks_typed(tok) {
                    Some(true) => Exp::Reject,
                    Some(false) => Exp::Accept(wrap(tok)),
                    None => Exp::Unspec,
                };
            }
            Exp::Accept(wrap(tok))
        }
        17 => {
            if plain && untagged && is_nullish_plain(tok) {
                return Exp::Accept("None".into());
            }
            if plain && (is_nullish_plain(tok) || maybe_nullish(tok)) {
                return Exp::Unspec;
            }
            match expected(&Case { target: 2, ..c.clone() }, o) {
                Exp::Accept(v) => Exp::Accept(format!("Some({})", v)),
                Exp::IfOk(v) => Exp::IfOk(format!("Some({})", v)),
                Exp::Reject => {
                    if plain {
                        Exp::Reject
                    } else {
                        Exp::Unspec
                    }
                }
                Exp::Unspec => Exp::Unspec,
            }
        }
        18 => {
            if plain && untagged && is_nullish_plain(tok) {
                Exp::Accept("()".into())
            } else if c.tag.as_deref() == Some("!!null") {
                Exp::Unspec
            } else {
                Exp::Unspec
            }
        }
        19 => {
            // untyped
            if matches!(c.style, Style::Literal | Style::Folded) {
                return Exp::Unspec;
            }
            if c.tag.as_deref() == Some("!!str") {
                // the tag forces the string reading whatever the text looks like
                return Exp::Accept(format!("{:?}", Tree::s(tok)));
            }
            if !untagged {
                return Exp::Unspec;
            }
            if !plain {
                return Exp::Accept(format!("{:?}", Tree::s(tok)));
            }
            if is_nullish_plain(tok) {
                return Exp::Accept("~".into());
            }
            if maybe_nullish(tok) {
                return Exp::Unspec;
            }
            if let Some(b) = ref_bool(tok) {
                if o.strict_booleans && tok != "true" && tok != "false" {
                    return Exp::Unspec;
                }
                return Exp::Accept(format!("{:?}", Tree::Bool(b)));
            }
            if let Some((neg, mag, canonical)) = ref_int(tok, o.legacy_octal) {
                let leading_zero = {
                    let t = tok.trim_start_matches(['+', '-']);
                    t.len() > 1 && t.starts_with('0') && t.as_bytes()[1].is_ascii_digit()
                };
                if canonical && !leading_zero {
                    if let Some(m) = mag {
                        if (!neg && m <= u64::MAX as u128) || (neg && m <= (i64::MAX as u128) + 1) {
                            let v: i128 = if neg { -(m as i128) } else { m as i128 };
                            return Exp::Accept(format!("{:?}", Tree::I(v)));
                        }
                    }
                }
                return Exp::Unspec;
            }
            if is_yaml12_float(tok) {
                let f: f64 = tok.parse().unwrap();
                return if f.is_finite() { Exp::Accept(format!("{:?}", Tree::f(f))) } else { Exp::Unspec };
            }
            if looks_typed(tok) == Some(false) {
                return Exp::Accept(format!("{:?}", Tree::s(tok)));
            }
            Exp::Unspec
        }
        22 => {
            // a borrowed string follows the rules of String; it may additionally fail when the text does not
            // stand verbatim in the input, and it can only succeed with the text String gives
            let as_string = expected(&Case { target: 14, ..c.clone() }, o);
            match as_string {
                Exp::Reject => Exp::Reject,
                Exp::Accept(v) if plain && v == format!("{:?}", tok) => Exp::Accept(v),
                Exp::Accept(v) | Exp::IfOk(v) => Exp::IfOk(v),
                Exp::Unspec => Exp::Unspec,
            }
        }
        _ => Exp::Unspec,
    }
}

// ---------------------------------------------------------------------------------------------
// observation

fn de<T: DeserializeOwned>(text: &str, o: &Opts, show: impl Fn(T) -> String) -> Result<Result<String, String>, String> {
    guarded(|| match serde_saphyr::from_str_with_options::<T>(text, o.to_lib()) {
        Ok(v) => Ok(show(v)),
        Err(e) => Err(e.to_string().lines().next().unwrap_or("").to_string()),
    })
}

/// deserialize `text` whose payload sits at: 0 = root, 1 = single sequence item, 2 = value of key k
fn observe(target: u8, emb: u8, text: &str, o: &Opts) -> Result<Result<String, String>, String> {
    macro_rules! go {
        ($t:ty, $show:expr) => {
            match emb {
                0 => de::<$t>(text, o, $show),
                1 => de::<Vec<$t>>(text, o, |mut v| if v.len() == 1 { $show(v.pop().unwrap()) } else { format!("<{} items>", v.len()) }),
                _ => de::<std::collections::BTreeMap<String, $t>>(text, o, |mut m| match m.remove("k") {
                    Some(v) if m.is_empty() => $show(v),
                    _ => "<not exactly key k>".to_string(),
                }),
            }
        };
    }
    match target {
        0 => go!(i8, |v: i8| v.to_string()),
        1 => go!(i16, |v: i16| v.to_string()),
        2 => go!(i32, |v: i32| v.to_string()),
        3 => go!(i64, |v: i64| v.to_string()),
        4 => go!(i128, |v: i128| v.to_string()),
        5 => go!(u8, |v: u8| v.to_string()),
        6 => go!(u16, |v: u16| v.to_string()),
        7 => go!(u32, |v: u32| v.to_string()),
        8 => go!(u64, |v: u64| v.to_string()),
        9 => go!(u128, |v: u128| v.to_string()),
        10 => go!(f32, |v: f32| format!("f32:{:#x}", if v.is_nan() { f32::NAN.to_bits() } else { v.to_bits() })),
        11 => go!(f64, |v: f64| format!("f64:{:#x}", crate::tree::fbits(v))),
        12 => go!(bool, |v: bool| v.to_string()),
        13 => go!(char, |v: char| format!("{:?}", v)),
        14 => go!(String, |v: String| format!("{:?}", v)),
        15 => go!(Cow<'static, str>, |v: Cow<'static, str>| format!("{:?}", v)),
        16 => go!(Option<String>, |v: Option<String>| format!("{:?}", v)),
        17 => go!(Option<i32>, |v: Option<i32>| format!("{:?}", v)),
        18 => go!((), |_v: ()| "()".to_string()),
        19 => go!(Tree, |v: Tree| format!("{:?}", v)),
        20 => go!(serde_json::Value, |v: serde_json::Value| v.to_string()),
        22 => guarded(|| {
            let lib = o.to_lib();
            let r = match emb {
                0 => serde_saphyr::from_str_with_options::<&str>(text, lib).map(|v| format!("{:?}", v)),
                1 => serde_saphyr::from_str_with_options::<Vec<&str>>(text, lib).map(|v| if v.len() == 1 { format!("{:?}", v[0]) } else { format!("<{} items>", v.len()) }),
                _ => serde_saphyr::from_str_with_options::<std::collections::BTreeMap<String, &str>>(text, lib).map(|m| match m.get("k") {
                    Some(v) if m.len() == 1 => format!("{:?}", v),
                    _ => "<not exactly key k>".to_string(),
                }),
            };
            r.map_err(|e| e.to_string().lines().next().unwrap_or("").to_string())
        }),
        _ => go!(serde_bytes::ByteBuf, |v: serde_bytes::ByteBuf| format!("{:?}", v.into_vec())),
    }
}

/// is the cell outside the documented domain of flag `f` (0..4)?
fn outside_domain(c: &Case, f: u8) -> bool {
    let tok = c.token.as_str();
    match f {
        0 => !matches!(c.target, 12 | 19 | 20),
        1 => !(matches!(c.target, 13..=16 | 19 | 20 | 21 | 22) && c.style == Style::Plain),
        2 => {
            let t = tok.trim().trim_start_matches(['+', '-']);
            !(t.len() > 1 && t.starts_with('0') && (t.as_bytes()[1].is_ascii_digit() || t.as_bytes()[1] == b'_'))
        }
        _ => true, // no !!binary tag in this product (base64 has its own pass)
    }
}

pub struct C06 {
    pub opt_bits: Vec<u8>,
}

fn scalar_doc(c: &Case, emb: u8) -> Node {
    let mut n = Node::scalar(&c.token, c.style);
    n.tag = c.tag.clone();
    match emb {
        0 => n,
        1 => Node::seq(vec![n]),
        _ => Node::map(vec![(Node::plain("k"), n)]),
    }
}

impl Prop for C06 {
    type Case = Case;
    fn check(&self, c: &Case) -> Verdict {
        let mut v = Verdict::default();
        // render at root / embedded and make sure the parser sees exactly this scalar
        let mut texts = Vec::new();
        for emb in 0..3u8 {
            let d = scalar_doc(c, emb);
            let t = render_default(&d);
            if validate(&d, &t) != Validity::Ok {
                if emb == 0 {
                    v.rejected = true;
                    return v;
                }
                texts.push(None);
            } else {
                texts.push(Some(t));
            }
        }
        let mut results: Vec<(u8, Result<String, String>)> = Vec::new();
        for &ob in &self.opt_bits {
            let o = Opts::from_bits(ob);
            let root = match observe(c.target, 0, texts[0].as_ref().unwrap(), &o) {
                Ok(r) => r,
                Err(p) => {
                    v.fail("panic", format!("{:?} as {}: {}", texts[0], TARGETS[c.target as usize], p));
                    return v;
                }
            };
            v.execs += 1;
            v.compared += 1;
            let exp = expected(c, &o);
            match (&exp, &root) {
                (Exp::Accept(w), Ok(g)) if w == g => {}
                (Exp::Accept(w), other) => {
                    v.fail("documented_form_mishandled", format!("{:?} as {} [{:?}]: expected {}, got {:?}", texts[0].as_ref().unwrap(), TARGETS[c.target as usize], o, w, other));
                    return v;
                }
                (Exp::Reject, Ok(g)) => {
                    v.fail("must_reject_accepted", format!("{:?} as {} [{:?}]: must be an error, got {}", texts[0].as_ref().unwrap(), TARGETS[c.target as usize], o, g));
                    return v;
                }
                (Exp::IfOk(w), Ok(g)) if w != g => {
                    v.fail("accepted_with_inexact_value", format!("{:?} as {} [{:?}]: accepted as {} but the exact value is {}", texts[0].as_ref().unwrap(), TARGETS[c.target as usize], o, g, w));
                    return v;
                }
                _ => {}
            }
            // Option<String> vs String on the same scalar: whatever String accepts, Option<String> wraps in Some,
            // except the plain untagged null spellings (and `!!null`), which are None
            if c.target == 16 {
                let plain_untagged = c.style == Style::Plain && c.tag.is_none();
                let null_tag = c.tag.as_deref() == Some("!!null");
                if !plain_untagged && !null_tag {
                    if let Ok(Ok(sv)) = observe(14, 0, texts[0].as_ref().unwrap(), &o) {
                        v.execs += 1;
                        v.compared += 1;
                        let want = format!("Some({})", sv);
                        if root.as_ref().ok() != Some(&want) {
                            v.fail(
                                "option_string_differs_from_string",
                                format!("{:?} [{:?}]: as String it is {}, as Option<String> it is {:?}", texts[0].as_ref().unwrap(), o, sv, root),
                            );
                            return v;
                        }
                    }
                }
            }
            // root vs embedded agreement
            for emb in 1..3u8 {
                if let Some(t) = &texts[emb as usize] {
                    // block scalars chomp differently at the end of a document vs inside a collection: only plain/quoted
                    if matches!(c.style, Style::Literal | Style::Folded) {
                        continue;
                    }
                    let r = match observe(c.target, emb, t, &o) {
                        Ok(r) => r,
                        Err(p) => {
                            v.fail("panic", format!("{:?}: {}", t, p));
                            return v;
                        }
                    };
                    v.execs += 1;
                    v.compared += 1;
                    if r.is_ok() != root.is_ok() || (r.is_ok() && r != root) {
                        v.fail("root_vs_embedded_disagree", format!("{:?} as {} gives {:?} but embedded {:?} gives {:?} [{:?}]", texts[0].as_ref().unwrap(), TARGETS[c.target as usize], root, t, r, o));
                        return v;
                    }
                }
            }
            v.classes.push(match exp {
                Exp::Accept(_) => "must_accept",
                Exp::Reject => "must_reject",
                Exp::IfOk(_) => "if_accepted_exact",
                Exp::Unspec => "unspecified",
            });
            results.push((ob, root));
        }
        v.classes.sort();
        v.classes.dedup();
        v.nontrivial = v.classes.iter().any(|c| *c != "unspecified");
        // option flags change acceptance only inside their documented domain
        for f in 0..4u8 {
            if !outside_domain(c, f) {
                continue;
            }
            for (ob, r) in &results {
                if ob & (1 << f) != 0 {
                    continue;
                }
                if let Some((_, r2)) = results.iter().find(|(ob2, _)| *ob2 == ob | (1 << f)) {
                    v.compared += 1;
                    let same = match (r, r2) {
                        (Ok(a), Ok(b)) => a == b,
                        (Err(_), Err(_)) => true,
                        _ => false,
                    };
                    if !same {
                        let fname = ["strict_booleans", "no_schema", "legacy_octal_numbers", "ignore_binary_tag_for_string"][f as usize];
                        v.fail("option_changes_unrelated_cell", format!("{:?} as {}: flipping {} changes {:?} into {:?} (other flags {:?})", texts[0].as_ref().unwrap(), TARGETS[c.target as usize], fname, r, r2, Opts::from_bits(*ob)));
                        return v;
                    }
                }
            }
        }
        v.outcome = hash64(&(results.iter().map(|(_, r)| r.is_ok()).collect::<Vec<_>>(), c.target));
        v
    }
    fn shrink(&self, c: &Case) -> Vec<Case> {
        let mut out = Vec::new();
        if c.tag.is_some() {
            out.push(Case { tag: None, ..c.clone() });
        }
        if c.style != Style::Plain {
            out.push(Case { style: Style::Plain, ..c.clone() });
        }
        for t in crate::common::shrink_string(&c.token) {
            if !t.is_empty() {
                out.push(Case { token: t, ..c.clone() });
            }
        }
        out
    }
    fn key(&self, c: &Case, clause: &str) -> String {
        format!("{}|{:?}|{:?}|{:?}|{}", clause, c.token, c.style, c.tag, TARGETS[c.target as usize])
    }
}

pub fn tokens() -> Vec<String> {
    let mut v: Vec<String> = Vec::new();
    let mut push = |s: String| {
        if !v.contains(&s) {
            v.push(s);
        }
    };
    // integer boundaries of every width, -1/0/+1, in four radices, with sign and separators
    let bounds: Vec<i128> = vec![i8::MIN as i128, i8::MAX as i128, u8::MAX as i128, i16::MIN as i128, i16::MAX as i128, u16::MAX as i128, i32::MIN as i128, i32::MAX as i128, u32::MAX as i128, i64::MIN as i128, i64::MAX as i128, u64::MAX as i128, 0, 7, 52];
    for b in &bounds {
        for d in [-1i128, 0, 1] {
            let x = b + d;
            push(x.to_string());
            if x >= 0 {
                push(format!("+{}", x));
                push(format!("0x{:x}", x));
                push(format!("0X{:X}", x));
                push(format!("0o{:o}", x));
                push(format!("0b{:b}", x));
                push(format!("-0x{:x}", x));
            }
        }
    }
    // every width boundary (2^k - 1, 2^k, 2^k + 1 for k in 7,8,15,16,31,32,63,64,127,128) in all four radices with both signs
    for k in [7u32, 8, 15, 16, 31, 32, 63, 64, 127, 128] {
        for d in [-1i32, 0, 1] {
            // magnitude as (high bit beyond u128, low u128)
            let (hi, lo): (bool, u128) = if k == 128 {
                match d {
                    -1 => (false, u128::MAX),
                    0 => (true, 0),
                    _ => (true, 1),
                }
            } else {
                let base = 1u128 << k;
                (false, if d < 0 { base - 1 } else { base + d as u128 })
            };
            let dec = if hi { if lo == 0 { "340282366920938463463374607431768211456".to_string() } else { "340282366920938463463374607431768211457".to_string() } } else { lo.to_string() };
            let hex = if hi { format!("1{:032x}", lo) } else { format!("{:x}", lo) };
            let oct = if hi { format!("4{:042o}", lo) } else { format!("{:o}", lo) };
            let bin = if hi { format!("1{:0128b}", lo) } else { format!("{:b}", lo) };
            for sign in ["", "-", "+"] {
                push(format!("{}{}", sign, dec));
                push(format!("{}0x{}", sign, hex));
                push(format!("{}0o{}", sign, oct));
                push(format!("{}0b{}", sign, bin));
            }
        }
    }
    for s in [
        "170141183460469231731687303715884105727",
        "170141183460469231731687303715884105728",
        "-170141183460469231731687303715884105728",
        "-170141183460469231731687303715884105729",
        "340282366920938463463374607431768211455",
        "340282366920938463463374607431768211456",
        "0xffffffffffffffffffffffffffffffff",
        "0x100000000000000000000000000000000",
        "999999999999999999999999999999999999999999",
        "1_000",
        "1_0_0",
        "_1",
        "1_",
        "1__0",
        "0x_ff",
        "0xf_f",
        "0b1_01",
        "0o7_7",
        "00",
        "007",
        "0052",
        "0_52",
        "-0052",
        "08",
        "0008",
        "-0",
        "+0",
        "0x",
        "0b",
        "0o",
        "0b2",
        "0o8",
        "0xg",
        "+-1",
        "--1",
        "1e3",
        "1E3",
        "1.0",
        "1 2",
        " 1",
        "1 ",
        "abc",
        "_",
        "+",
        "-",
    ] {
        push(s.to_string());
    }
    // booleans in all spellings + near misses
    for w in ["true", "false", "yes", "no", "on", "off", "y", "n"] {
        push(w.to_string());
        push(w.to_ascii_uppercase());
        let mut cap = w.to_string();
        cap[..1].make_ascii_uppercase();
        push(cap);
    }
    for s in ["tRuE", "t", "f", "maybe", "0", "1", "oN", "truee", "nope"] {
        push(s.to_string());
    }
    // floats
    for s in [
        "0.0", "-0.0", "1.5", "-1.5", "+1.5", ".5", "5.", "1e10", "1e-10", "1E+10", "1.5e3", "-2.5E-3", "1e400", "1e-400", "4.9e-324", "1.7976931348623157e308", "1.7976931348623159e308",
        "0.1", "0.30000000000000004", "123456789.123456789", "1.00000005960464477539062500000001", "16777217.0", "3.4028235e38", "3.4028236e38", "1.401298464324817e-45", ".inf", "-.inf",
        "+.inf", ".Inf", ".INF", "-.INF", ".nan", ".NaN", ".NAN", "-.nan", "inf", "-inf", "nan", "NaN", "infinity", "Infinity", "1_0.5", "1.5_0", ".", "e5", "1e", "1.2.3", "0x1p3", ".e1",
    ] {
        push(s.to_string());
    }
    // null-likes, chars, strings
    for s in ["~", "null", "Null", "NULL", "nULL", "nil", "a", "é", "😀", "ab", "e\u{301}", "hello", "hello world", "x:y", "a#b", "null1", "~~", "<<", "!", "Tr"] {
        push(s.to_string());
    }
    v
}

/// strict canonical base64: alphabet A-Za-z0-9+/, length multiple of 4 after removing ASCII white space,
/// '=' only at the end, zero pad bits
fn ref_base64(s: &str) -> Option<Vec<u8>> {
    let cleaned: String = s.chars().filter(|c| !matches!(c, ' ' | '\n' | '\t' | '\r')).collect();
    base64::engine::general_purpose::STANDARD.decode(cleaned.as_bytes()).ok()
}

fn base64_pass(ctx: &Ctx, acc: &mut Acc) {
    use rayon::prelude::*;
    // (a) every byte string up to the bound encodes canonically and decodes back, into ByteBuf and (when UTF-8) String
    let max_len = ctx.tier.pick(2usize, 3usize);
    let mut total = 0u64;
    for l in 0..=max_len {
        total += 256u64.pow(l as u32);
    }
    let bad: Vec<(String, String)> = (0..total)
        .into_par_iter()
        .filter_map(|mut i| {
            let mut l = 0usize;
            while i >= 256u64.pow(l as u32) {
                i -= 256u64.pow(l as u32);
                l += 1;
            }
            let bytes: Vec<u8> = (0..l).map(|k| ((i >> (8 * k)) & 0xff) as u8).collect();
            let enc = base64::engine::general_purpose::STANDARD.encode(&bytes);
            let text = format!("!!binary {}\n", if enc.is_empty() { "\"\"".to_string() } else { enc.clone() });
            match serde_saphyr::from_str::<serde_bytes::ByteBuf>(&text) {
                Ok(b) if b.as_ref() == bytes.as_slice() => None,
                other => Some((format!("binary_roundtrip|{:?}", text), format!("{:?} should decode to {:?}, got {:?}", text, bytes, other.map(|b| b.into_vec()).map_err(|e| e.to_string().lines().next().unwrap_or("").to_string())))),
            }
        })
        .collect();
    acc.evaluations += total;
    acc.execs += total;
    acc.compared += total;
    acc.nontrivial += total;
    acc.class("base64_canonical_roundtrip", total);
    for (k, d) in bad.into_iter().take(20) {
        acc.add_violation(k.clone(), "binary_roundtrip", d, json!({"key": k}), json!({}));
    }
    // (b) every string up to length 6 over a small alphabet: accepted iff strict canonical base64
    let alpha: [&str; 12] = ["A", "B", "Q", "g", "/", "+", "=", " ", "\n", "-", "_", "z"];
    let space = StrSpace::new(&alpha, ctx.tier.pick(5, 6));
    let n = space.len();
    let bad: Vec<(String, String)> = (0..n)
        .into_par_iter()
        .filter_map(|i| {
            let s = space.get(i);
            if s.is_empty() {
                return None;
            }
            let text = format!("!!binary {}\n", escape_double(&s));
            let want = ref_base64(&s);
            let got = serde_saphyr::from_str::<serde_bytes::ByteBuf>(&text).map(|b| b.into_vec()).ok();
            if want == got {
                None
            } else {
                Some((s.clone(), format!("{:?}: strict canonical base64 reference {:?}, got {:?}", text, want, got)))
            }
        })
        .collect();
    acc.evaluations += n;
    acc.execs += n;
    acc.compared += n;
    acc.nontrivial += n;
    acc.class("base64_strings_decoded", n);
    // minimal forms: shortest offending strings
    let mut bad = bad;
    bad.sort_by_key(|(s, _)| (s.len(), s.clone()));
    let mut seen_classes: Vec<String> = Vec::new();
    for (s, d) in bad {
        // class = the string with every base64 alphabet character mapped to 'A'
        let class: String = s.chars().map(|c| if c.is_ascii_alphanumeric() || c == '+' || c == '/' { 'A' } else { c }).collect();
        if seen_classes.contains(&class) {
            acc.raw_failures += 1;
            continue;
        }
        seen_classes.push(class.clone());
        if seen_classes.len() > 40 {
            break;
        }
        acc.add_violation(format!("base64_acceptance|{:?}", class), "base64_acceptance", d, json!({"string": s}), json!({}));
    }
}

pub fn run(ctx: &Ctx) -> i32 {
    let toks = tokens();
    let opt_bits: Vec<u8> = match ctx.tier {
        Tier::Quick => vec![0, 1, 2, 4, 8, 7, 15],
        Tier::Thorough => (0..16).collect(),
    };
    let p = C06 { opt_bits: opt_bits.clone() };
    let tags: Vec<Option<&str>> = match ctx.tier {
        Tier::Quick => vec![None, Some("!!str"), Some("!!int"), Some("!local")],
        Tier::Thorough => TAGS.to_vec(),
    };
    let n_tok = toks.len() as u64;
    let n_style = STYLES.len() as u64;
    let n_tag = tags.len() as u64;
    let n_tgt = TARGETS.len() as u64;
    let total = n_tok * n_style * n_tag * n_tgt;
    let mut acc = run_indexed(&p, total, |i| {
        let target = (i % n_tgt) as u8;
        let r = i / n_tgt;
        let tag = tags[(r % n_tag) as usize].map(|s| s.to_string());
        let r = r / n_tag;
        let style = STYLES[(r % n_style) as usize];
        let token = toks[(r / n_style) as usize].clone();
        Some(Case { token, style, tag, target })
    });
    base64_pass(ctx, &mut acc);
    acc.notes.insert("tokens".into(), json!(toks.len()));
    acc.notes.insert("option_vectors".into(), json!(opt_bits.len()));
    let meta = Meta {
        level: "model_checking",
        rule: "complete product token x style x tag x target, each cell evaluated under every option vector at document root and embedded in a sequence / mapping; non-trivial = the reference is definite (must accept with exact value / must reject / if accepted then exact) for at least one option vector; plus all byte strings up to the bound through canonical base64 and all strings up to the bound over a 12-symbol alphabet decoded as !!binary".into(),
        exhaustive: true,
        bounds: json!({"tokens": toks.len(), "styles": 5, "tags": tags.len(), "targets": TARGETS.len(), "option_vectors": opt_bits.len()}),
        assumptions: vec!["reference tables written from README / rustdoc of Options (DESIGN.md §6b); Unspecified wherever those are silent".into()],
    };
    finish(ctx, meta, acc)
}

pub fn replay_file(ctx: &Ctx, path: &str) -> i32 {
    replay(&C06 { opt_bits: (0..16).collect() }, ctx, path)
}
