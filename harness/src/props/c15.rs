//! C15 — a call's result depends only on its arguments, not on earlier or nested calls.
//! Explicit-state search (stateright) over call histories; every history is replayed on a fresh OS thread
//! (thread-locals start clean) and the last call's observation is compared with the same call made first.
use crate::engine::*;
use crate::readers::FaultWriter;
use crate::tree::Tree;
use serde::de::{self, Deserializer, IntoDeserializer, Visitor};
use serde::{Deserialize, Serialize};
use serde_json::json;
use serde_saphyr::{RcAnchor, RcRecursion, RcRecursive, RcWeakAnchor};
use std::cell::{Cell, RefCell};
use std::collections::BTreeMap;
use std::panic::{catch_unwind, AssertUnwindSafe};
use std::rc::Rc;

fn e1(e: impl std::fmt::Display) -> String {
    e.to_string().lines().next().unwrap_or("").to_string()
}
fn errsig(e: &serde_saphyr::Error) -> String {
    let dbg = format!("{:?}", e.without_snippet());
    let name: String = dbg.chars().take_while(|c| c.is_alphanumeric()).collect();
    let loc = e.location();
    format!("Err({} @{}:{} | {})", name, loc.map(|l| l.line()).unwrap_or(0), loc.map(|l| l.column()).unwrap_or(0), e1(e))
}
fn show<T: std::fmt::Debug>(r: Result<T, serde_saphyr::Error>) -> String {
    match r {
        Ok(v) => format!("Ok({:?})", v),
        Err(e) => errsig(&e),
    }
}

// ----- call 5: missing field
#[derive(Debug, Deserialize)]
#[allow(dead_code)]
struct TwoFields {
    a: i32,
    b: i32,
}

// ----- call 6: visitor that panics in the middle of a map
#[derive(Debug)]
struct Panicky;
impl<'de> Deserialize<'de> for Panicky {
    fn deserialize<D: Deserializer<'de>>(d: D) -> Result<Self, D::Error> {
        struct V;
        impl<'de> Visitor<'de> for V {
            type Value = Panicky;
            fn expecting(&self, f: &mut std::fmt::Formatter) -> std::fmt::Result {
                write!(f, "map")
            }
            fn visit_map<A: de::MapAccess<'de>>(self, mut a: A) -> Result<Panicky, A::Error> {
                let _k: Option<String> = a.next_key()?;
                let _v: RcAnchor<Vec<i64>> = a.next_value()?;
                let _k2: Option<String> = a.next_key()?;
                panic!("visitor panics mid-document");
            }
        }
        d.deserialize_map(V)
    }
}

#[derive(Debug, Deserialize)]
struct Shared {
    a: RcAnchor<Vec<i64>>,
    b: RcAnchor<Vec<i64>>,
}
#[derive(Debug, Serialize)]
struct SharedSer {
    a: RcAnchor<Vec<i64>>,
    b: RcAnchor<Vec<i64>>,
    c: RcAnchor<Vec<i64>>,
}

#[derive(Debug, Deserialize)]
#[allow(dead_code)]
struct WeakDoc {
    a: RcAnchor<String>,
    w: RcWeakAnchor<String>,
}

#[derive(Debug, Deserialize)]
#[allow(dead_code)]
struct RecNode {
    name: String,
    next: Option<RcRecursion<RecNode>>,
}
#[derive(Debug, Deserialize)]
#[allow(dead_code)]
struct RecDoc {
    root: RcRecursive<RecNode>,
}
#[derive(Debug, Deserialize)]
#[allow(dead_code)]
struct RecBad {
    root: RcRecursive<RecBadNode>,
}
#[derive(Debug, Deserialize)]
#[allow(dead_code)]
struct RecBadNode {
    name: i64,
    next: Option<RcRecursion<RecBadNode>>,
}

/// pass-through deserializer: hands a string to the visitor but forwards `deserialize_newtype_struct`
/// (serde's own value deserializers do not), so the anchor wrappers read the thread-local anchor context.
struct PassThrough(&'static str);
impl<'de> Deserializer<'de> for PassThrough {
    type Error = de::value::Error;
    fn deserialize_any<V: Visitor<'de>>(self, v: V) -> Result<V::Value, Self::Error> {
        v.visit_str(self.0)
    }
    fn deserialize_newtype_struct<V: Visitor<'de>>(self, _name: &'static str, v: V) -> Result<V::Value, Self::Error> {
        v.visit_newtype_struct(self)
    }
    fn deserialize_option<V: Visitor<'de>>(self, v: V) -> Result<V::Value, Self::Error> {
        v.visit_some(self)
    }
    serde::forward_to_deserialize_any! {
        bool i8 i16 i32 i64 i128 u8 u16 u32 u64 u128 f32 f64 char str string bytes byte_buf unit unit_struct
        seq tuple tuple_struct map struct enum identifier ignored_any
    }
}

// ----- nesting hook
thread_local! {
    static NEST: Cell<Option<usize>> = const { Cell::new(None) };
    static NEST_OBS: RefCell<Option<String>> = const { RefCell::new(None) };
}

#[derive(Debug)]
struct Hook(i64);
impl<'de> Deserialize<'de> for Hook {
    fn deserialize<D: Deserializer<'de>>(d: D) -> Result<Self, D::Error> {
        if let Some(k) = NEST.with(|n| n.take()) {
            let obs = run_call(k);
            NEST_OBS.with(|o| *o.borrow_mut() = Some(obs));
        }
        Ok(Hook(i64::deserialize(d)?))
    }
}

/// runs the nested call when it is dropped: anchored values of a failed document are dropped by the library
/// while it tears the document's anchor table down
#[derive(Debug)]
struct DropHook(#[allow(dead_code)] i64);
impl<'de> Deserialize<'de> for DropHook {
    fn deserialize<D: Deserializer<'de>>(d: D) -> Result<Self, D::Error> {
        Ok(DropHook(i64::deserialize(d)?))
    }
}
impl Drop for DropHook {
    fn drop(&mut self) {
        if let Some(k) = NEST.with(|n| n.take()) {
            let obs = match catch_unwind(AssertUnwindSafe(|| run_call(k))) {
                Ok(o) => o,
                Err(_) => "PANIC escaped the nested call".to_string(),
            };
            NEST_OBS.with(|o| *o.borrow_mut() = Some(obs));
        }
    }
}

#[derive(Debug, Deserialize)]
#[allow(dead_code)]
struct OuterShared {
    a: RcAnchor<Vec<i64>>,
    h: Hook,
    b: RcAnchor<Vec<i64>>,
}
#[derive(Debug, Deserialize)]
#[allow(dead_code)]
struct OuterMissing {
    a: Vec<i64>,
    h: Hook,
    zz: i64,
}
#[derive(Debug, Deserialize)]
#[allow(dead_code)]
struct OuterPlain {
    a: Vec<i64>,
    h: Hook,
    b: Vec<i64>,
}

pub const BASE_CALLS: [&str; 18] = [
    "parse_ok_tree",
    "parse_fail_mid_anchor",
    "parse_fail_in_rc_anchor",
    "parse_budget_breach",
    "parse_alias_limit",
    "parse_missing_field",
    "parse_visitor_panics",
    "read_iterator_abandoned",
    "from_multiple_fails_on_second",
    "serialize_shared_anchors",
    "serialize_failing_writer",
    "with_deserializer_early_return",
    "parse_rc_anchor_sharing",
    "parse_weak_and_recursive",
    "parse_fail_inside_recursive",
    "probe_missing_field_location",
    "probe_anchor_wrappers",
    "parse_locationless_error_at_root",
];
/// inner calls used for nesting
pub const NEST_INNER: [usize; 8] = [0, 1, 2, 5, 6, 12, 14, 17];
pub const OUTERS: [&str; 4] = ["outer_rc_sharing", "outer_missing_field_after_hook", "outer_alias_replay_budget", "outer_teardown_of_failed_document"];

pub fn n_calls() -> usize {
    BASE_CALLS.len() + OUTERS.len() * (NEST_INNER.len() + 1)
}

pub fn call_name(k: usize) -> String {
    if k < BASE_CALLS.len() {
        BASE_CALLS[k].to_string()
    } else {
        let j = k - BASE_CALLS.len();
        let outer = j / (NEST_INNER.len() + 1);
        let inner = j % (NEST_INNER.len() + 1);
        if inner == 0 {
            format!("{}(no nested call)", OUTERS[outer])
        } else {
            format!("{}(nested: {})", OUTERS[outer], BASE_CALLS[NEST_INNER[inner - 1]])
        }
    }
}

fn run_outer(outer: usize, inner: Option<usize>) -> String {
    NEST.with(|n| n.set(inner));
    NEST_OBS.with(|o| *o.borrow_mut() = None);
    let res = match outer {
        0 => {
            let r = serde_saphyr::from_str::<OuterShared>("a: &x [1, 2]\nh: 0\nb: *x\n");
            match r {
                Ok(v) => format!("Ok(ptr_eq={}, a={:?}, b={:?})", Rc::ptr_eq(&v.a.0, &v.b.0), v.a.0, v.b.0),
                Err(e) => errsig(&e),
            }
        }
        1 => show(serde_saphyr::from_str::<OuterMissing>("a: [1, 2]\nh: 0\n")),
        3 => show(serde_saphyr::from_str::<Vec<RcAnchor<DropHook>>>("- &a 1\n- nope\n").map(|v| v.len())),
        _ => {
            let mut b = serde_saphyr::Budget::default();
            b.max_nodes = 12;
            b.max_events = 24;
            let o = serde_saphyr::options! { budget: Some(b) };
            show(serde_saphyr::from_str_with_options::<OuterPlain>("a: &x [1, 2]\nh: 0\nb: *x\n", o).map(|v| (v.a, v.b)))
        }
    };
    NEST.with(|n| n.set(None));
    let inner_obs = NEST_OBS.with(|o| o.borrow_mut().take());
    format!("outer={} || inner={:?}", res, inner_obs)
}

/// Execute call `k` and describe what it returned.
pub fn run_call(k: usize) -> String {
    match k {
        0 => show(serde_saphyr::from_str::<Tree>("a: &x [1, 2]\nb: *x\n")),
        1 => show(serde_saphyr::from_str::<BTreeMap<String, Vec<i64>>>("a: &x [1, oops, 3]\nb: *x\n")),
        2 => show(serde_saphyr::from_str::<Shared>("a: &x [1, oops]\nb: *x\n").map(|_| ())),
        3 => {
            let mut b = serde_saphyr::Budget::default();
            b.max_nodes = 3;
            show(serde_saphyr::from_str_with_options::<Tree>("a: [1, 2, 3]\nb: 4\n", serde_saphyr::options! { budget: Some(b) }))
        }
        4 => {
            let mut o = serde_saphyr::Options::default();
            o.alias_limits.max_total_replayed_events = 2;
            show(serde_saphyr::from_str_with_options::<Tree>("a: &x [1, 2, 3]\nb: *x\n", o))
        }
        5 => show(serde_saphyr::from_str::<TwoFields>("a: 1\n")),
        6 => match catch_unwind(AssertUnwindSafe(|| serde_saphyr::from_str::<Panicky>("p: &x [1, 2]\nq: *x\n"))) {
            Ok(r) => show(r.map(|_| ())),
            Err(_) => "panicked (visitor)".to_string(),
        },
        7 => {
            let mut rd = std::io::Cursor::new(b"---\na: &x 1\n---\nb: *x\n---\nc: 3\n".to_vec());
            let mut it = serde_saphyr::read::<_, BTreeMap<String, i64>>(&mut rd);
            let first = it.next().map(show);
            drop(it);
            format!("first={:?}", first)
        }
        8 => show(serde_saphyr::from_multiple::<BTreeMap<String, i64>>("a: 1\n---\nb: [x]\n---\nc: 3\n")),
        9 => {
            let r = Rc::new(vec![1i64, 2]);
            let v = SharedSer { a: RcAnchor(r.clone()), b: RcAnchor(r.clone()), c: RcAnchor(Rc::new(vec![3])) };
            match serde_saphyr::to_string(&v) {
                Ok(t) => format!("Ok({:?})", t),
                Err(e) => format!("Err({})", e),
            }
        }
        10 => {
            let r = Rc::new(vec![1i64, 2]);
            let v = SharedSer { a: RcAnchor(r.clone()), b: RcAnchor(r.clone()), c: RcAnchor(Rc::new(vec![3])) };
            let mut w = FaultWriter::new(Some(3), std::io::ErrorKind::Other);
            match serde_saphyr::to_io_writer(&mut w, &v) {
                Ok(()) => "Ok".to_string(),
                Err(e) => format!("Err({})", e1(e)),
            }
        }
        11 => show(serde_saphyr::with_deserializer_from_str("a: &x [1, 2]\nb: *x\n", |_d| Ok(7))),
        12 => match serde_saphyr::from_str::<Shared>("a: &x [1, 2]\nb: *x\n") {
            Ok(v) => format!("Ok(ptr_eq={}, {:?})", Rc::ptr_eq(&v.a.0, &v.b.0), v.a.0),
            Err(e) => errsig(&e),
        },
        13 => {
            let a = match serde_saphyr::from_str::<WeakDoc>("a: &s hello\nw: *s\n") {
                Ok(v) => format!("Ok(weak_upgrades={}, same={})", v.w.upgrade().is_some(), v.w.upgrade().map(|u| Rc::ptr_eq(&u, &v.a.0)).unwrap_or(false)),
                Err(e) => errsig(&e),
            };
            let b = match serde_saphyr::from_str::<RecDoc>("root: &r\n  name: n\n  next: *r\n") {
                Ok(v) => {
                    let inner = v.root.borrow();
                    let up = inner.next.as_ref().and_then(|n| n.upgrade());
                    format!("Ok(cycle={})", up.map(|u| Rc::ptr_eq(&u.0, &v.root.0)).unwrap_or(false))
                }
                Err(e) => errsig(&e),
            };
            format!("{} / {}", a, b)
        }
        14 => show(serde_saphyr::from_str::<RecBad>("root: &r\n  name: oops\n  next: *r\n").map(|_| ())),
        15 => {
            let e: serde_saphyr::Error = <serde_saphyr::Error as de::Error>::missing_field("probe");
            format!("fallback_location={:?}", e.location().map(|l| (l.line(), l.column())))
        }
        16 => {
            let a = RcAnchor::<String>::deserialize(PassThrough("v"));
            let a = match a {
                Ok(v) => format!("Ok(strong={}, {:?})", Rc::strong_count(&v.0), v.0),
                Err(e) => format!("Err({})", e),
            };
            let w = RcWeakAnchor::<String>::deserialize(PassThrough("v"));
            let w = match w {
                Ok(v) => format!("Ok(dangling={})", v.upgrade().is_none()),
                Err(e) => format!("Err({})", e),
            };
            let r = RcRecursion::<String>::deserialize(PassThrough("v"));
            let r = match r {
                Ok(v) => format!("Ok(dangling={})", v.upgrade().is_none()),
                Err(e) => format!("Err({})", e),
            };
            let s: Result<String, de::value::Error> = String::deserialize("x".into_deserializer());
            format!("{} / {} / {} / {:?}", a, w, r, s.is_ok())
        }
        // an error without a position of its own (the value 0 is refused by the target type, not by the parser)
        17 => show(serde_saphyr::from_str::<std::num::NonZeroU8>("0")),
        k => {
            let j = k - BASE_CALLS.len();
            let outer = j / (NEST_INNER.len() + 1);
            let inner = j % (NEST_INNER.len() + 1);
            run_outer(outer, if inner == 0 { None } else { Some(NEST_INNER[inner - 1]) })
        }
    }
}

/// Run `history` (call ids) on a fresh OS thread; returns the observation of every call.
pub fn run_history_fresh(history: &[usize]) -> Vec<String> {
    let h = history.to_vec();
    std::thread::Builder::new()
        .stack_size(4 << 20)
        .spawn(move || {
            install_panic_hook();
            h.iter()
                .map(|&k| match catch_unwind(AssertUnwindSafe(|| run_call(k))) {
                    Ok(o) => o,
                    Err(_) => "PANIC escaped the call".to_string(),
                })
                .collect::<Vec<_>>()
        })
        .unwrap()
        .join()
        .unwrap_or_else(|_| vec!["thread died".to_string()])
}

#[derive(Clone, Debug, PartialEq, Eq, Hash)]
pub struct HState {
    pub history: Vec<usize>,
    pub bad: Option<String>,
    pub after_failure: bool,
}

pub struct Model {
    pub max_len: usize,
    pub solo: Vec<String>,
}

impl Model {
    pub fn new(max_len: usize) -> Result<Self, String> {
        let solo: Vec<String> = (0..n_calls()).map(|k| run_history_fresh(&[k]).pop().unwrap()).collect();
        let solo2: Vec<String> = (0..n_calls()).map(|k| run_history_fresh(&[k]).pop().unwrap()).collect();
        if solo != solo2 {
            return Err("a call is not deterministic on a fresh thread".into());
        }
        Ok(Model { max_len, solo })
    }
    /// nested calls: the outer part must equal the outer without a nested call, the inner part the inner call alone
    pub fn nested_consistency(&self) -> Option<(usize, String)> {
        for outer in 0..OUTERS.len() {
            let base = BASE_CALLS.len() + outer * (NEST_INNER.len() + 1);
            let plain = &self.solo[base];
            let plain_outer = plain.split(" || ").next().unwrap_or("");
            for (i, &inner) in NEST_INNER.iter().enumerate() {
                let k = base + 1 + i;
                let obs = &self.solo[k];
                let mut parts = obs.split(" || ");
                let o = parts.next().unwrap_or("");
                let inn = parts.next().unwrap_or("");
                let want_inner = format!("inner={:?}", Some(self.solo[inner].clone()));
                if inner == 6 {
                    // the nested visitor panic is caught inside the nested call; outer continues
                }
                if o != plain_outer {
                    return Some((k, format!("{}: outer result {} differs from the same outer call without a nested call {}", call_name(k), o, plain_outer)));
                }
                if inn != want_inner {
                    return Some((k, format!("{}: nested call observed {} but the same call as first call on a fresh thread gives {}", call_name(k), inn, want_inner)));
                }
            }
        }
        None
    }
    pub fn judge(&self, h: &[usize]) -> Option<String> {
        let obs = run_history_fresh(h);
        let last = *h.last()?;
        let got = obs.last()?;
        if *got != self.solo[last] {
            return Some(format!(
                "after [{}] the call {} returns {} but as the first call on a fresh thread it returns {}",
                h[..h.len() - 1].iter().map(|&k| call_name(k)).collect::<Vec<_>>().join(", "),
                call_name(last),
                got,
                self.solo[last]
            ));
        }
        None
    }
}

impl stateright::Model for Model {
    type State = HState;
    type Action = usize;
    fn init_states(&self) -> Vec<HState> {
        vec![HState { history: vec![], bad: None, after_failure: false }]
    }
    fn actions(&self, s: &HState, actions: &mut Vec<usize>) {
        if s.history.len() < self.max_len && s.bad.is_none() {
            actions.extend(0..n_calls());
        }
    }
    fn next_state(&self, s: &HState, a: usize) -> Option<HState> {
        let mut h = s.history.clone();
        h.push(a);
        let bad = self.judge(&h);
        let after_failure = h[..h.len() - 1].iter().any(|&k| self.solo[k].contains("Err(") || self.solo[k].contains("panicked"));
        Some(HState { history: h, bad, after_failure })
    }
    fn properties(&self) -> Vec<stateright::Property<Self>> {
        vec![
            stateright::Property::<Self>::always("call result independent of history", |_, s| s.bad.is_none()),
            stateright::Property::<Self>::sometimes("a call follows a failed or panicking call", |_, s| s.after_failure),
        ]
    }
}

fn shrink_history(m: &Model, h: &[usize]) -> Vec<usize> {
    let mut cur = h.to_vec();
    'outer: loop {
        // never drop the last call (it is the one compared)
        for i in 0..cur.len().saturating_sub(1) {
            let mut c = cur.clone();
            c.remove(i);
            if m.judge(&c).is_some() {
                cur = c;
                continue 'outer;
            }
        }
        return cur;
    }
}

pub fn run(ctx: &Ctx) -> i32 {
    use stateright::{Checker, Model as _};
    let max_len = ctx.tier.pick(2, 3);
    let model = match Model::new(max_len) {
        Ok(m) => m,
        Err(e) => {
            eprintln!("MACHINERY: {}", e);
            return 2;
        }
    };
    let mut acc = Acc::default();
    acc.samples.push(json!({"history": [call_name(2), call_name(12)], "solo_observation_of_last": model.solo[12]}));
    acc.samples.push(json!({"call": call_name(BASE_CALLS.len() + 3), "observation": model.solo[BASE_CALLS.len() + 3]}));
    // nested calls
    acc.evaluations += (OUTERS.len() * NEST_INNER.len()) as u64;
    acc.compared += (OUTERS.len() * NEST_INNER.len() * 2) as u64;
    if let Some((k, d)) = model.nested_consistency() {
        acc.add_violation(format!("nested|{}", call_name(k)), "nested_call_changes_result", d, json!({"history": [k]}), json!({"history": [k]}));
    }
    let run_once = || {
        let m = Model { max_len, solo: model.solo.clone() };
        let checker = m.checker().threads(16).spawn_bfs().join();
        let states = checker.unique_state_count();
        let bad = checker.discovery("call result independent of history").map(|p| p.last_state().history.clone());
        let cov = checker.discovery("a call follows a failed or panicking call").is_some();
        (states, bad, cov)
    };
    let (states, bad, cov) = run_once();
    let (states2, bad2, _) = run_once();
    if bad.is_none() && (states != states2 || bad2.is_some()) {
        eprintln!("MACHINERY: stateright run not reproducible ({} vs {})", states, states2);
        return 2;
    }
    let mut full = 0usize;
    for l in 0..=max_len {
        full += n_calls().pow(l as u32);
    }
    acc.evaluations += states as u64;
    acc.execs += states as u64 * max_len as u64;
    acc.compared += states as u64;
    acc.nontrivial += states.saturating_sub(1 + n_calls()) as u64;
    acc.notes.insert(
        "stateright".into(),
        json!({"engine": "spawn_bfs, 16 threads; each state = one history replayed on a fresh OS thread", "calls": (0..n_calls()).map(call_name).collect::<Vec<_>>(), "unique_states": states, "second_run_states": states2, "expected_full_space": full, "max_history_len": max_len, "coverage_after_failure_discovered": cov}),
    );
    match bad {
        Some(h) => {
            let min = shrink_history(&model, &h);
            let detail = model.judge(&min).unwrap_or_default();
            let key = format!("history|{}", min.iter().map(|&k| call_name(k)).collect::<Vec<_>>().join(" ; "));
            acc.add_violation(key, "result_depends_on_history", detail, json!({"history": min}), json!({"history": h}));
        }
        None => {
            if states != full || !cov {
                eprintln!("MACHINERY: explored {} states (expected {}), coverage {}", states, full, cov);
                return 2;
            }
        }
    }
    let meta = Meta {
        level: "model_checking",
        rule: "stateright BFS over all call histories up to the length bound over the call alphabet (18 base calls incl. failing / panicking / abandoned ones and two thread-local probes, plus 3 outer parses x (no nested call + 8 nested calls made from inside a user Deserialize impl)); every history is replayed on a fresh OS thread and its last call compared with the same call made first on a fresh thread; non-trivial = history of length >= 2".into(),
        exhaustive: true,
        bounds: json!({"max_history_len": max_len, "calls": n_calls()}),
        assumptions: vec!["a fresh OS thread has clean thread-locals; the library has no process-global mutable state (checked by grep in DESIGN.md §1)".into()],
    };
    finish(ctx, meta, acc)
}

pub fn replay_file(ctx: &Ctx, path: &str) -> i32 {
    let text = std::fs::read_to_string(path).unwrap_or_default();
    let v: serde_json::Value = serde_json::from_str(&text).unwrap_or_default();
    let h: Vec<usize> = v["case"]["history"].as_array().map(|a| a.iter().filter_map(|x| x.as_u64().map(|x| x as usize)).collect()).unwrap_or_default();
    let m = match Model::new(h.len()) {
        Ok(m) => m,
        Err(e) => {
            eprintln!("MACHINERY: {}", e);
            return 2;
        }
    };
    let a = if h.len() == 1 { m.nested_consistency().map(|x| x.1) } else { m.judge(&h) };
    let b = if h.len() == 1 { m.nested_consistency().map(|x| x.1) } else { m.judge(&h) };
    if a != b {
        eprintln!("MACHINERY: replay not deterministic");
        return 2;
    }
    match a {
        Some(d) => {
            println!("VIOLATION property={} replay={}", ctx.id, path);
            println!("  detail: {}", d);
            1
        }
        None => {
            println!("{} replay {}: property holds on this history", ctx.id, path);
            0
        }
    }
}
