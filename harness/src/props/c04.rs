//! C04 — duplicate-key policy is applied exactly, for keys of every YAML kind.
use crate::doc::*;
use crate::engine::*;
use crate::tree::Tree;
use serde::{Deserialize, Serialize};
use serde_json::json;
use serde_saphyr::options::DuplicateKeyPolicy;
use std::collections::BTreeMap;

#[derive(Clone, Debug, Serialize, Deserialize)]
pub struct Case {
    /// (key index, value index) per entry
    pub entries: Vec<(u8, u8)>,
    /// 0 = the map is the item itself, 1 = {outer: MAP, after: z}, 2 = [MAP, z]
    pub ctx: u8,
    /// 0 block, 1 flow
    pub layout: u8,
    /// 0 BTreeMap<Tree,Tree>, 1 Vec<(Tree,Tree)> collector, 2 struct{a,b}
    pub target: u8,
}

pub const TARGETS: [&str; 3] = ["BTreeMap<Tree,Tree>", "Vec<(Tree,Tree)> collector", "struct{a,b:Option<Tree>}"];
pub const KEY_LABELS: [&str; 14] =
    ["a", "\"a\"", "'a'", "b", "1", "!!str a", "[a]", "[a, b]", "{a: 1}", "{b: 2, a: 1}", "*ka", "!t a", "!u a", "!t [a]"];
pub const VAL_LABELS: [&str; 5] = ["1", "[1, [2, {c: 3}]]", "{d: {e: [f]}}", "*vc", "|literal"];

fn key_node(i: u8) -> Node {
    let p = Node::plain;
    match i {
        0 => p("a"),
        1 => Node::scalar("a", Style::Double),
        2 => Node::scalar("a", Style::Single),
        3 => p("b"),
        4 => p("1"),
        5 => p("a").tagged("!!str"),
        6 => Node::seq(vec![p("a")]).flowed(),
        7 => Node::seq(vec![p("a"), p("b")]).flowed(),
        8 => Node::map(vec![(p("a"), p("1"))]).flowed(),
        9 => Node::map(vec![(p("b"), p("2")), (p("a"), p("1"))]).flowed(),
        10 => Node::alias("ka"),
        11 => p("a").tagged("!t"),
        // a second application tag: the same text under another tag is another key
        12 => p("a").tagged("!u"),
        // a tagged sequence: another key than the untagged `[a]`
        _ => Node::seq(vec![p("a")]).flowed().tagged("!t"),
    }
}

fn val_node(i: u8) -> Node {
    let p = Node::plain;
    match i {
        0 => p("1"),
        1 => Node::seq(vec![p("1"), Node::seq(vec![p("2"), Node::map(vec![(p("c"), p("3"))])])]),
        2 => Node::map(vec![(p("d"), Node::map(vec![(p("e"), Node::seq(vec![p("f")]))]))]),
        3 => Node::alias("vc"),
        _ => Node::scalar("lit\nline", Style::Literal),
    }
}

/// key identity per the property: structure + scalar text + tag, style-insensitive, order-sensitive
fn key_identity(k: &Node) -> String {
    match &k.kind {
        Kind::Scalar { text, .. } => format!("S({:?},{:?})", text, k.tag),
        Kind::Seq(v) => format!("Q{:?}[{}]", k.tag, v.iter().map(key_identity).collect::<Vec<_>>().join(",")),
        Kind::Map(v) => format!("M{{{}}}", v.iter().map(|(a, b)| format!("{}:{}", key_identity(a), key_identity(b))).collect::<Vec<_>>().join(",")),
        Kind::Alias(_) => key_identity(&Node::plain("a")), // *ka refers to the plain scalar `a`
    }
}

#[derive(Debug, PartialEq)]
struct Pairs(Vec<(Tree, Tree)>);
impl<'de> Deserialize<'de> for Pairs {
    fn deserialize<D: serde::Deserializer<'de>>(d: D) -> Result<Self, D::Error> {
        struct V;
        impl<'de> serde::de::Visitor<'de> for V {
            type Value = Pairs;
            fn expecting(&self, f: &mut std::fmt::Formatter) -> std::fmt::Result {
                write!(f, "a map")
            }
            fn visit_map<A: serde::de::MapAccess<'de>>(self, mut a: A) -> Result<Pairs, A::Error> {
                let mut v = Vec::new();
                while let Some((k, x)) = a.next_entry::<Tree, Tree>()? {
                    v.push((k, x));
                }
                Ok(Pairs(v))
            }
        }
        d.deserialize_map(V)
    }
}

#[derive(Debug, Deserialize, PartialEq)]
struct AB {
    #[serde(default)]
    a: Option<Tree>,
    #[serde(default)]
    b: Option<Tree>,
}

#[derive(Debug, Deserialize, PartialEq)]
struct Outer<T> {
    outer: T,
    after: String,
}

#[derive(Debug)]
pub struct Obs {
    pub ok: Option<String>,
    pub dup_err: bool,
    pub err: Option<String>,
    pub line: u64,
    pub col: u64,
}

fn policy(p: u8) -> DuplicateKeyPolicy {
    match p {
        0 => DuplicateKeyPolicy::Error,
        1 => DuplicateKeyPolicy::FirstWins,
        _ => DuplicateKeyPolicy::LastWins,
    }
}

fn de_ctx<T: serde::de::DeserializeOwned + std::fmt::Debug>(ctx: u8, pol: u8, text: &str) -> Result<Obs, String> {
    fn obs<V: std::fmt::Debug>(r: Result<V, serde_saphyr::Error>) -> Obs {
        match r {
            Ok(v) => Obs { ok: Some(format!("{:?}", v)), dup_err: false, err: None, line: 0, col: 0 },
            Err(e) => {
                let inner = e.without_snippet();
                let dup = matches!(inner, serde_saphyr::Error::DuplicateMappingKey { .. });
                let loc = e.location();
                Obs {
                    ok: None,
                    dup_err: dup,
                    err: Some(e.to_string().lines().next().unwrap_or("").to_string()),
                    line: loc.map(|l| l.line()).unwrap_or(0),
                    col: loc.map(|l| l.column()).unwrap_or(0),
                }
            }
        }
    }
    let o = serde_saphyr::options! { duplicate_keys: policy(pol) };
    guarded(|| match ctx {
        0 => obs(serde_saphyr::from_str_with_options::<(Tree, Tree, T, String)>(text, o)),
        1 => obs(serde_saphyr::from_str_with_options::<(Tree, Tree, Outer<T>, String)>(text, o)),
        _ => obs(serde_saphyr::from_str_with_options::<(Tree, Tree, (T, String), String)>(text, o)),
    })
}

fn de(target: u8, ctx: u8, pol: u8, text: &str) -> Result<Obs, String> {
    match target {
        0 => de_ctx::<BTreeMap<Tree, Tree>>(ctx, pol, text),
        1 => de_ctx::<Pairs>(ctx, pol, text),
        _ => de_ctx::<AB>(ctx, pol, text),
    }
}

pub struct C04;

fn build_doc(entries: &[(Node, Node)], ctx: u8, layout: u8) -> (Node, Vec<usize>) {
    // returns the document and the pre-order indices of the entry keys
    let mut m = Node::map(entries.to_vec());
    if layout == 1 {
        m = m.with_flow(true);
    }
    let p = Node::plain;
    let item = match ctx {
        0 => m,
        1 => {
            let mut o = Node::map(vec![(p("outer"), m), (p("after"), p("z"))]);
            if layout == 1 {
                o.flow = true;
            }
            o
        }
        _ => {
            let mut o = Node::seq(vec![m, p("z")]);
            if layout == 1 {
                o.flow = true;
            }
            o
        }
    };
    let root = Node::seq(vec![p("a").anchored("ka"), val_node(2).anchored("vc"), item, p("z")]);
    // locate keys: pre-order walk
    let pre = root.preorder();
    let item_root = match &root.kind {
        Kind::Seq(v) => &v[2],
        _ => unreachable!(),
    };
    let mnode: &Node = match ctx {
        0 => item_root,
        1 => match &item_root.kind {
            Kind::Map(es) => &es[0].1,
            _ => unreachable!(),
        },
        _ => match &item_root.kind {
            Kind::Seq(v) => &v[0],
            _ => unreachable!(),
        },
    };
    let mut idx = Vec::new();
    if let Kind::Map(es) = &mnode.kind {
        for (k, _) in es {
            idx.push(pre.iter().position(|n| std::ptr::eq(*n, k)).unwrap());
        }
    }
    (root.clone(), idx)
}

impl C04 {
    fn nodes(c: &Case) -> Vec<(Node, Node)> {
        c.entries.iter().map(|&(k, v)| (key_node(k), val_node(v))).collect()
    }
}

impl Prop for C04 {
    type Case = Case;
    fn check(&self, c: &Case) -> Verdict {
        let mut v = Verdict::default();
        let entries = Self::nodes(c);
        let (doc, key_idx) = build_doc(&entries, c.ctx, c.layout);
        let r = render(&doc, &Layout::default());
        if validate(&doc, &r.text) != Validity::Ok {
            v.rejected = true;
            return v;
        }
        // which entries repeat an earlier key?
        let ids: Vec<String> = entries.iter().map(|(k, _)| key_identity(k)).collect();
        let mut first_dup: Option<usize> = None;
        let mut dedup: Vec<(Node, Node)> = Vec::new();
        let mut seen: Vec<&String> = Vec::new();
        for (i, id) in ids.iter().enumerate() {
            if seen.contains(&id) {
                if first_dup.is_none() {
                    first_dup = Some(i);
                }
            } else {
                seen.push(id);
                dedup.push(entries[i].clone());
            }
        }
        let has_dup = first_dup.is_some();
        v.nontrivial = has_dup;
        if has_dup {
            v.classes.push("duplicate_present");
            let k = &entries[first_dup.unwrap()].0;
            v.classes.push(match &k.kind {
                Kind::Scalar { .. } => "dup_scalar_key",
                Kind::Seq(_) => "dup_seq_key",
                Kind::Map(_) => "dup_map_key",
                Kind::Alias(_) => "dup_alias_key",
            });
            if entries.iter().enumerate().any(|(i, (_, val))| seen_before(&ids, i) && val.is_collection()) {
                v.classes.push("dup_with_container_value");
            }
        } else {
            v.classes.push("no_duplicate");
        }
        let mut obs = Vec::new();
        for pol in 0..3u8 {
            match de(c.target, c.ctx, pol, &r.text) {
                Ok(o) => obs.push(o),
                Err(p) => {
                    v.fail("panic", format!("{:?} policy {}: {}", r.text, pol, p));
                    return v;
                }
            }
        }
        v.execs = 3;
        v.outcome = hash64(&(obs[0].ok.is_some(), obs[1].ok.is_some(), obs[2].ok.is_some(), has_dup));
        // reference for the alias-free expansion
        let expanded_pairs = |es: &[(Node, Node)]| -> Option<Vec<(Tree, Tree)>> {
            let mut out = Vec::new();
            for (k, x) in es {
                let kk = if matches!(k.kind, Kind::Alias(_)) { Node::plain("a") } else { k.clone() };
                let xx = if matches!(x.kind, Kind::Alias(_)) { val_node(2) } else { x.clone() };
                out.push((ref_tree(&kk)?, ref_tree(&xx)?));
            }
            Some(out)
        };
        if !has_dup {
            v.compared += 1;
            // identical under all three policies
            let same = obs[0].ok == obs[1].ok && obs[1].ok == obs[2].ok && obs[0].ok.is_some() == obs[2].ok.is_some();
            if !same {
                v.fail(
                    "policies_disagree_without_duplicates",
                    format!("{:?} into {}: Error={:?}/{:?} FirstWins={:?}/{:?} LastWins={:?}/{:?}", r.text, TARGETS[c.target as usize], obs[0].ok, obs[0].err, obs[1].ok, obs[1].err, obs[2].ok, obs[2].err),
                );
                return v;
            }
            if c.target == 1 {
                if let (Some(got), Some(want)) = (&obs[0].ok, expanded_pairs(&entries)) {
                    v.compared += 1;
                    if !got.contains(&format!("{:?}", Pairs(want.clone()))) {
                        v.fail("value_without_duplicates", format!("{:?}: got {} want pairs {:?}", r.text, got, want));
                    }
                }
            }
            return v;
        }
        let fd = first_dup.unwrap();
        // Error policy
        v.compared += 1;
        if c.target == 2 {
            // a struct target may legitimately fail earlier for another reason (non-string key, serde's own
            // duplicate-field check): only "an error" is definite
            if obs[0].ok.is_some() {
                v.fail("error_policy_no_duplicate_error", format!("{:?} into {}: expected an error, got {:?}", r.text, TARGETS[2], obs[0].ok));
                return v;
            }
        } else if !obs[0].dup_err {
            v.fail(
                "error_policy_no_duplicate_error",
                format!("{:?} into {}: expected a duplicate-key error, got ok={:?} err={:?}", r.text, TARGETS[c.target as usize], obs[0].ok, obs[0].err),
            );
            return v;
        }
        if c.target == 2 && !obs[0].dup_err {
            // some other definite error came first; nothing more to compare for the Error policy
        } else {
        let kp = r.nodes[key_idx[fd]];
        // the location of a key node: its content token (after anchor/tag properties)
        let want = r.pos_of(kp.content);
        let want_props = r.pos_of(kp.props);
        v.compared += 1;
        let at_content = (obs[0].line, obs[0].col) == (want.line as u64, want.col as u64);
        let at_props = (obs[0].line, obs[0].col) == (want_props.line as u64, want_props.col as u64);
        if !(at_content || at_props) {
            v.fail(
                "error_location_not_at_repeated_key",
                format!("{:?}: duplicate-key error at {}:{}, the repeated key is at {}:{}", r.text, obs[0].line, obs[0].col, want.line, want.col),
            );
            return v;
        }
        }
        // FirstWins == document with later duplicates deleted
        let (doc2, _) = build_doc(&dedup, c.ctx, c.layout);
        let text2 = render_default(&doc2);
        if validate(&doc2, &text2) != Validity::Ok {
            v.rejected = true;
            return v;
        }
        let o2 = match de(c.target, c.ctx, 1, &text2) {
            Ok(o) => o,
            Err(p) => {
                v.fail("panic", format!("{:?}: {}", text2, p));
                return v;
            }
        };
        v.execs += 1;
        v.compared += 1;
        if obs[1].ok != o2.ok || (obs[1].ok.is_none() && c.target != 2) {
            v.fail(
                "firstwins_differs_from_deduplicated_document",
                format!("{:?} into {} under FirstWins gives {:?}/{:?}; with later duplicates deleted {:?} gives {:?}/{:?}", r.text, TARGETS[c.target as usize], obs[1].ok, obs[1].err, text2, o2.ok, o2.err),
            );
            return v;
        }
        // LastWins: every entry delivered in order
        if c.target == 1 {
            if let Some(want) = expanded_pairs(&entries) {
                v.compared += 1;
                let w = format!("{:?}", Pairs(want));
                match &obs[2].ok {
                    Some(got) if got.contains(&w) => {}
                    other => {
                        v.fail("lastwins_not_all_entries_in_order", format!("{:?}: LastWins collector got {:?}/{:?}, want {}", r.text, other, obs[2].err, w));
                        return v;
                    }
                }
            }
        } else if c.target == 0 {
            if let Some(want) = expanded_pairs(&entries) {
                let mut m = BTreeMap::new();
                for (k, x) in want {
                    m.insert(k, x);
                }
                v.compared += 1;
                let w = format!("{:?}", m);
                match &obs[2].ok {
                    Some(got) if got.contains(&w) => {}
                    other => {
                        v.fail("lastwins_map_not_last", format!("{:?}: LastWins map got {:?}/{:?}, want {}", r.text, other, obs[2].err, w));
                        return v;
                    }
                }
            }
        }
        v
    }
    fn shrink(&self, c: &Case) -> Vec<Case> {
        let mut out = Vec::new();
        for i in 0..c.entries.len() {
            let mut e = c.entries.clone();
            e.remove(i);
            out.push(Case { entries: e, ..c.clone() });
        }
        for i in 0..c.entries.len() {
            for kk in 0..c.entries[i].0 {
                let mut e = c.entries.clone();
                e[i].0 = kk;
                out.push(Case { entries: e, ..c.clone() });
            }
            for vv in 0..c.entries[i].1 {
                let mut e = c.entries.clone();
                e[i].1 = vv;
                out.push(Case { entries: e, ..c.clone() });
            }
        }
        if c.ctx != 0 {
            out.push(Case { ctx: 0, ..c.clone() });
        }
        if c.layout != 0 {
            out.push(Case { layout: 0, ..c.clone() });
        }
        if c.target != 1 {
            out.push(Case { target: 1, ..c.clone() });
        }
        out
    }
    fn key(&self, c: &Case, clause: &str) -> String {
        let es: Vec<String> = c.entries.iter().map(|&(k, v)| format!("{}: {}", KEY_LABELS[k as usize], VAL_LABELS[v as usize])).collect();
        format!("{}|{{{}}}|ctx{}|{}|{}", clause, es.join("; "), c.ctx, ["block", "flow"][c.layout as usize], TARGETS[c.target as usize])
    }
}

fn seen_before(ids: &[String], i: usize) -> bool {
    ids[..i].contains(&ids[i])
}

pub fn run(ctx: &Ctx) -> i32 {
    let p = C04;
    let nk = KEY_LABELS.len() as u64;
    let nv = VAL_LABELS.len() as u64;
    let ne = nk * nv;
    let decode_entries = |mut i: u64, n: usize| -> Vec<(u8, u8)> {
        let mut v = Vec::new();
        for _ in 0..n {
            let e = i % ne;
            i /= ne;
            v.push(((e / nv) as u8, (e % nv) as u8));
        }
        v
    };
    let mut acc = Acc::default();
    // full product for <= full_n entries
    let full_n = ctx.tier.pick(2usize, 3usize);
    for n in 1..=full_n {
        let total = ne.pow(n as u32) * 3 * 2 * 3;
        let a = run_indexed(&p, total, |i| {
            let r = i % 18;
            Some(Case { entries: decode_entries(i / 18, n), ctx: (r % 3) as u8, layout: ((r / 3) % 2) as u8, target: (r / 6) as u8 })
        });
        acc = acc.merge(a);
    }
    // one more entry with a reduced alphabet: keys {a, "a", b, !!str a, [a], {a: 1}, *ka}, values {1, nested seq, *vc}
    let rk: [u8; 7] = [0, 1, 3, 5, 6, 8, 10];
    let rv: [u8; 3] = [0, 1, 3];
    let rn = (rk.len() * rv.len()) as u64;
    let n = full_n + 1;
    let total = rn.pow(n as u32) * 18;
    let a = run_indexed(&p, total, |i| {
        let r = i % 18;
        let mut j = i / 18;
        let mut es = Vec::new();
        for _ in 0..n {
            let e = j % rn;
            j /= rn;
            es.push((rk[(e / rv.len() as u64) as usize], rv[(e % rv.len() as u64) as usize]));
        }
        Some(Case { entries: es, ctx: (r % 3) as u8, layout: ((r / 3) % 2) as u8, target: (r / 6) as u8 })
    });
    acc = acc.merge(a);
    acc.samples.truncate(0);
    for es in [vec![(0u8, 0u8), (1, 1)], vec![(6, 2), (6, 0), (3, 3)]] {
        let c = Case { entries: es, ctx: 1, layout: 0, target: 1 };
        let (doc, _) = build_doc(&C04::nodes(&c), c.ctx, c.layout);
        acc.samples.push(json!({"case": c, "text": render_default(&doc)}));
    }
    let meta = Meta {
        level: "model_checking",
        rule: "all mappings with up to N entries over the key x value alphabets, x 3 nesting contexts x 2 layouts x 3 targets, each run under all three policies; non-trivial = a key node repeats".into(),
        exhaustive: true,
        bounds: json!({"keys": KEY_LABELS, "values": VAL_LABELS, "entries_full_alphabet": full_n, "entries_reduced_alphabet": full_n + 1}),
        assumptions: vec!["key identity = structure + scalar text + tag, style-insensitive (as the property states)".into(), "the location of a key is the position of its content token or of its properties".into()],
    };
    finish(ctx, meta, acc)
}

pub fn replay_file(ctx: &Ctx, path: &str) -> i32 {
    replay(&C04, ctx, path)
}
