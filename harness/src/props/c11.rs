//! C11 — a multi-document stream is the list of its documents, each on its own.
//! Explicit-state BFS (stateright) over document histories; the real library is the transition function.
use crate::engine::*;
use crate::raw;
use serde_json::json;
use std::collections::BTreeMap;

type T = BTreeMap<String, i64>;

pub const KINDS: [(&str, &str); 18] = [
    ("map", "a: 1\n"),
    ("map2", "b: 2\nc: 3\n"),
    ("empty", ""),
    ("tilde", "~\n"),
    ("null", "null\n"),
    ("defines_anchor", "q: &q 5\n"),
    ("aliases_earlier_doc", "r: *q\n"),
    ("type_error_first_node", "- x\n"),
    ("type_error_last_node", "a: 1\nz: notint\n"),
    ("syntax_error", "a: 1\n  b: ]\n"),
    ("unterminated_flow", "a: [1, 2\n"),
    ("end_marker_and_comment", "d: 4\n... # done\n"),
    ("anchor_and_alias", "p: &q 7\nq: *q\n"),
    ("syntax_error_at_first_token", "]\n"),
    ("unknown_alias_at_first_token", "*nope\n"),
    ("unterminated_quote", "\"abc\n"),
    // a complete flow root node followed by more content: not one document, and no `...` allows ignoring the rest
    ("trailing_content_after_flow_root", "{a: 1}\nb: 2\n"),
    // says it is a string: not a null document (for the mapping target it is a type error, not nothing)
    ("tagged_string_null", "!!str null\n"),
];

#[derive(Clone, Debug, PartialEq)]
pub enum DocClass {
    Null,
    Value(String),
    TypeErr,
    Syntax,
    /// the parser reports an unknown anchor: an error, but whether the stream can continue after it is not stated
    UnknownAlias,
    /// a complete root node followed by invalid content: a streaming reader may already have delivered the node
    /// (the value is given) before it meets the error; batch and single-document entry points must fail
    ValueThenSyntax(String),
}

pub fn classify(text: &str) -> DocClass {
    if let Err(e) = raw::raw_events(text) {
        if text.starts_with("{a: 1}\n") {
            return DocClass::ValueThenSyntax(format!("{:?}", serde_saphyr::from_str::<T>("{a: 1}\n").unwrap()));
        }
        return if e.contains("unknown anchor") { DocClass::UnknownAlias } else { DocClass::Syntax };
    }
    match serde_saphyr::from_str::<Option<T>>(text) {
        Ok(None) => DocClass::Null,
        Ok(Some(v)) => DocClass::Value(format!("{:?}", v)),
        Err(_) => DocClass::TypeErr,
    }
}

/// separator mode: 0 = `---`, 1 = `--- # c` style comment line after the marker, 2 = every document closed by `...`
/// 3 = documents closed by `...` and started implicitly (no `---` at all)
pub fn stream_text(h: &[u8], sep: u8) -> String {
    let mut s = String::new();
    for &k in h {
        match sep {
            1 => s.push_str("--- # c\n"),
            3 => {}
            _ => s.push_str("---\n"),
        }
        let body = KINDS[k as usize].1;
        s.push_str(body);
        if (sep == 2 || sep == 3) && !body.contains("...") {
            s.push_str("...\n");
        }
    }
    s
}

#[derive(Clone, Debug, PartialEq, Eq, Hash)]
pub struct HState {
    pub history: Vec<u8>,
    pub bad: Option<String>,
    pub cov_recovered: bool,
    pub cov_stopped: bool,
    pub cov_null_skipped: bool,
}

pub struct Model {
    pub max_len: usize,
    pub classes: Vec<DocClass>,
}

fn obs_list(items: Vec<Result<T, serde_saphyr::Error>>) -> Vec<Result<String, ()>> {
    items.into_iter().map(|r| r.map(|v| format!("{:?}", v)).map_err(|_| ())).collect()
}

impl Model {
    pub fn new(max_len: usize) -> Self {
        Model { max_len, classes: KINDS.iter().map(|k| classify(k.1)).collect() }
    }

    /// expected iterator items (one or two acceptable lists) and batch result from the per-document classes
    fn expected(&self, h: &[u8]) -> (Vec<Vec<Result<String, ()>>>, Result<Vec<String>, ()>) {
        let mut alts: Vec<Vec<Result<String, ()>>> = vec![Vec::new()];
        let mut finished: Vec<Vec<Result<String, ()>>> = Vec::new();
        let mut batch: Result<Vec<String>, ()> = Ok(Vec::new());
        for &k in h {
            match &self.classes[k as usize] {
                DocClass::Null => {}
                DocClass::Value(v) => {
                    for a in alts.iter_mut() {
                        a.push(Ok(v.clone()));
                    }
                    if let Ok(b) = batch.as_mut() {
                        b.push(v.clone());
                    }
                }
                DocClass::TypeErr => {
                    for a in alts.iter_mut() {
                        a.push(Err(()));
                    }
                    batch = Err(());
                }
                DocClass::UnknownAlias => {
                    for a in alts.iter_mut() {
                        a.push(Err(()));
                    }
                    // either the iterator ends here or it carries on
                    finished.extend(alts.iter().cloned());
                    batch = Err(());
                }
                DocClass::Syntax => {
                    for a in alts.iter_mut() {
                        a.push(Err(()));
                    }
                    batch = Err(());
                    finished.extend(alts.drain(..));
                    break;
                }
                DocClass::ValueThenSyntax(v) => {
                    // either the error alone, or the already complete node and then the error; the stream ends
                    for a in alts.drain(..) {
                        let mut a1 = a.clone();
                        a1.push(Err(()));
                        finished.push(a1);
                        let mut a2 = a;
                        a2.push(Ok(v.clone()));
                        a2.push(Err(()));
                        finished.push(a2);
                    }
                    batch = Err(());
                    break;
                }
            }
        }
        finished.extend(alts);
        if h.iter().any(|&k| matches!(self.classes[k as usize], DocClass::Syntax | DocClass::UnknownAlias | DocClass::ValueThenSyntax(_))) {
            batch = Err(());
        }
        (finished, batch)
    }

    pub fn judge(&self, h: &[u8]) -> Option<String> {
        for sep in 0..4u8 {
            // implicit document starts: not for bodies that are empty (no node at all would be written) or that
            // cannot end cleanly before the `...` line
            if sep == 3 && h.iter().any(|&k| KINDS[k as usize].1.is_empty() || matches!(self.classes[k as usize], DocClass::Syntax | DocClass::ValueThenSyntax(_))) {
                continue;
            }
            let text = stream_text(h, sep);
            let (want_items, want_batch) = self.expected(h);
            let names: Vec<&str> = h.iter().map(|&k| KINDS[k as usize].0).collect();
            let ctx = format!("stream [{}] (separator mode {}) {:?}", names.join(", "), sep, text);
            // batch
            let r = guarded(|| serde_saphyr::from_multiple::<T>(&text));
            let got_batch: Result<Vec<String>, ()> = match r {
                Err(p) => return Some(format!("panic in from_multiple on {}: {}", ctx, p)),
                Ok(r) => r.map(|v| v.iter().map(|x| format!("{:?}", x)).collect()).map_err(|_| ()),
            };
            if got_batch != want_batch {
                return Some(format!("{}: from_multiple gives {:?}, the documents one by one give {:?}", ctx, got_batch, want_batch));
            }
            let r = guarded(|| serde_saphyr::from_slice_multiple::<T>(text.as_bytes()));
            match r {
                Err(p) => return Some(format!("panic in from_slice_multiple on {}: {}", ctx, p)),
                Ok(r) => {
                    let g: Result<Vec<String>, ()> = r.map(|v| v.iter().map(|x| format!("{:?}", x)).collect()).map_err(|_| ());
                    if g != want_batch {
                        return Some(format!("{}: from_slice_multiple gives {:?}, expected {:?}", ctx, g, want_batch));
                    }
                }
            }
            // iterator, hard item cap
            let cap = h.len() + 2;
            let r = guarded(|| {
                let mut rd = std::io::Cursor::new(text.as_bytes().to_vec());
                let it = serde_saphyr::read::<_, T>(&mut rd);
                let mut v = Vec::new();
                let mut ended = false;
                let mut it = it;
                for _ in 0..=cap {
                    match it.next() {
                        None => {
                            ended = true;
                            break;
                        }
                        Some(x) => v.push(x),
                    }
                }
                (obs_list(v), ended)
            });
            match r {
                Err(p) => return Some(format!("panic in read on {}: {}", ctx, p)),
                Ok((items, ended)) => {
                    if !ended {
                        return Some(format!("{}: the iterator did not end within {} items", ctx, cap + 1));
                    }
                    if !want_items.contains(&items) {
                        return Some(format!("{}: the iterator yields {:?}, the documents one by one give {:?}", ctx, items, want_items));
                    }
                }
            }
            // single-document entry points reject a second document
            if h.len() >= 2 {
                let r1 = guarded(|| serde_saphyr::from_str::<Option<T>>(&text).is_ok());
                let r2 = guarded(|| serde_saphyr::from_reader::<_, Option<T>>(std::io::Cursor::new(text.as_bytes().to_vec())).is_ok());
                match (r1, r2) {
                    (Err(p), _) | (_, Err(p)) => return Some(format!("panic in single-document entry on {}: {}", ctx, p)),
                    (Ok(a), Ok(b)) => {
                        if a || b {
                            return Some(format!("{}: a single-document entry point accepted a stream of {} documents (from_str ok={}, from_reader ok={})", ctx, h.len(), a, b));
                        }
                    }
                }
            } else if h.len() == 1 {
                let want = &self.classes[h[0] as usize];
                let r1 = guarded(|| serde_saphyr::from_str::<Option<T>>(&text).map(|v| v.map(|x| format!("{:?}", x))).map_err(|_| ()));
                match r1 {
                    Err(p) => return Some(format!("panic in from_str on {}: {}", ctx, p)),
                    Ok(g) => {
                        let w: Result<Option<String>, ()> = match want {
                            DocClass::Null => Ok(None),
                            DocClass::Value(v) => Ok(Some(v.clone())),
                            _ => Err(()),
                        };
                        if g != w {
                            return Some(format!("{}: from_str gives {:?}, the document alone gives {:?}", ctx, g, w));
                        }
                    }
                }
            }
        }
        None
    }
}

impl stateright::Model for Model {
    type State = HState;
    type Action = u8;
    fn init_states(&self) -> Vec<HState> {
        vec![HState { history: vec![], bad: None, cov_recovered: false, cov_stopped: false, cov_null_skipped: false }]
    }
    fn actions(&self, s: &HState, actions: &mut Vec<u8>) {
        if s.history.len() < self.max_len && s.bad.is_none() {
            for k in 0..KINDS.len() as u8 {
                actions.push(k);
            }
        }
    }
    fn next_state(&self, s: &HState, a: u8) -> Option<HState> {
        let mut h = s.history.clone();
        h.push(a);
        let bad = self.judge(&h);
        let cls: Vec<&DocClass> = h.iter().map(|&k| &self.classes[k as usize]).collect();
        let first_syntax = cls.iter().position(|c| matches!(**c, DocClass::Syntax | DocClass::UnknownAlias));
        let recovered = cls.iter().enumerate().any(|(i, c)| **c == DocClass::TypeErr && i + 1 < h.len() && first_syntax.map(|f| f > i + 1).unwrap_or(true) && matches!(cls[i + 1], DocClass::Value(_)));
        let stopped = first_syntax.map(|f| f + 1 < h.len()).unwrap_or(false);
        let null_skipped = cls.iter().enumerate().any(|(i, c)| **c == DocClass::Null && i + 1 < h.len());
        Some(HState { history: h, bad, cov_recovered: recovered, cov_stopped: stopped, cov_null_skipped: null_skipped })
    }
    fn properties(&self) -> Vec<stateright::Property<Self>> {
        vec![
            stateright::Property::<Self>::always("stream equals the list of its documents", |_, s| s.bad.is_none()),
            stateright::Property::<Self>::sometimes("iterator recovered after a type error", |_, s| s.cov_recovered),
            stateright::Property::<Self>::sometimes("documents follow a syntax error", |_, s| s.cov_stopped),
            stateright::Property::<Self>::sometimes("null document skipped", |_, s| s.cov_null_skipped),
        ]
    }
}

fn shrink_history(m: &Model, h: &[u8]) -> Vec<u8> {
    let mut cur = h.to_vec();
    'outer: loop {
        for i in 0..cur.len() {
            let mut c = cur.clone();
            c.remove(i);
            if !c.is_empty() && m.judge(&c).is_some() {
                cur = c;
                continue 'outer;
            }
        }
        for i in 0..cur.len() {
            for k in 0..cur[i] {
                let mut c = cur.clone();
                c[i] = k;
                if m.judge(&c).is_some() {
                    cur = c;
                    continue 'outer;
                }
            }
        }
        return cur;
    }
}

pub fn run(ctx: &Ctx) -> i32 {
    use stateright::{Checker, Model as _};
    let max_len = ctx.tier.pick(4, 5);
    let model = Model::new(max_len);
    let run_once = || {
        let m = Model::new(max_len);
        let checker = m.checker().threads(16).spawn_bfs().join();
        let states = checker.unique_state_count();
        let bad = checker.discovery("stream equals the list of its documents").map(|p| p.last_state().history.clone());
        let cov = [
            checker.discovery("iterator recovered after a type error").is_some(),
            checker.discovery("documents follow a syntax error").is_some(),
            checker.discovery("null document skipped").is_some(),
        ];
        (states, bad, cov)
    };
    let (states, bad, cov) = run_once();
    let (states2, bad2, _) = run_once();
    let mut acc = Acc::default();
    if bad.is_none() && (states != states2 || bad2.is_some()) {
        eprintln!("MACHINERY: stateright run not reproducible ({} vs {} states)", states, states2);
        return 2;
    }
    // stateright stops expanding once every property has a discovery; when nothing is violated the whole
    // space up to max_len is explored: 1 + K + K^2 + ...
    let mut full = 0usize;
    for l in 0..=max_len {
        full += KINDS.len().pow(l as u32);
    }
    acc.evaluations = states as u64;
    acc.execs = states as u64 * 3 * 5;
    acc.compared = states as u64 * 3 * 4;
    acc.nontrivial = states.saturating_sub(1 + KINDS.len()) as u64;
    acc.notes.insert(
        "stateright".into(),
        json!({"engine": "spawn_bfs, 16 threads", "unique_states": states, "second_run_states": states2, "expected_full_space": full, "complete": bad.is_none() && states == full, "coverage_properties_discovered": cov, "document_kinds": KINDS.iter().map(|k| k.0).collect::<Vec<_>>(), "document_classes": model.classes.iter().map(|c| format!("{:?}", c)).collect::<Vec<_>>(), "separator_modes": 3, "max_stream_len": max_len}),
    );
    acc.samples.push(json!({"history": ["defines_anchor", "aliases_earlier_doc", "map"], "text": stream_text(&[5, 6, 0], 0)}));
    match bad {
        Some(h) => {
            let min = shrink_history(&model, &h);
            let detail = model.judge(&min).unwrap_or_default();
            let key = format!("history|{}", min.iter().map(|&k| KINDS[k as usize].0).collect::<Vec<_>>().join(","));
            acc.add_violation(key, "stream_differs_from_documents", detail, json!({"history": min}), json!({"history": h}));
        }
        None => {
            if states != full {
                eprintln!("MACHINERY: explored {} states, expected {}", states, full);
                return 2;
            }
            if cov.iter().any(|c| !c) {
                eprintln!("MACHINERY: a coverage (sometimes) property was not discovered: {:?}", cov);
                return 2;
            }
        }
    }
    let meta = Meta {
        level: "model_checking",
        rule: "stateright BFS over all document histories (sequences of 18 document kinds) up to the length bound; each state is judged by running the real library on the rendered stream under 3 separator modes through from_multiple, from_slice_multiple, read (drained with a hard item cap), from_str and from_reader; non-trivial = streams of two or more documents".into(),
        exhaustive: true,
        bounds: json!({"max_stream_len": max_len, "kinds": KINDS.len()}),
        assumptions: vec!["per-document oracle = the single-document entry point applied to the document's own text; syntax-level = the raw parser rejects the document on its own".into()],
    };
    finish(ctx, meta, acc)
}

pub fn replay_file(ctx: &Ctx, path: &str) -> i32 {
    let text = match std::fs::read_to_string(path) {
        Ok(t) => t,
        Err(e) => {
            eprintln!("MACHINERY: {}", e);
            return 2;
        }
    };
    let v: serde_json::Value = serde_json::from_str(&text).unwrap_or_default();
    let h: Vec<u8> = v["case"]["history"].as_array().map(|a| a.iter().filter_map(|x| x.as_u64().map(|x| x as u8)).collect()).unwrap_or_default();
    let m = Model::new(h.len());
    let (a, b) = (m.judge(&h), m.judge(&h));
    if a != b {
        eprintln!("MACHINERY: replay not deterministic");
        return 2;
    }
    match a {
        Some(d) => {
            println!("VIOLATION property={} replay={}", ctx.id, path);
            println!("  detail: {}", d);
            1
        }
        None => {
            println!("{} replay {}: property holds on this history", ctx.id, path);
            0
        }
    }
}
