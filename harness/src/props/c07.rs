//! C07 — budget limits are enforced exactly and the usage report is accurate.
use crate::doc::*;
use crate::engine::*;
use crate::props::c02;
use crate::raw::{self, REv};
use crate::tree::Tree;
use crate::treegen::shrink_node;
use serde::{Deserialize, Serialize};
use serde_json::json;
use serde_saphyr::budget::{check_yaml_budget, BudgetBreach, BudgetReport, EnforcingPolicy};
use serde_saphyr::Budget;
use std::cell::RefCell;
use std::rc::Rc;

#[derive(Clone, Copy, Debug, Default, PartialEq, Eq, Serialize, Deserialize)]
pub struct Usage {
    pub events: usize,
    pub nodes: usize,
    pub max_depth: usize,
    pub aliases: usize,
    pub anchors: usize,
    pub scalar_bytes: usize,
    pub merge_keys: usize,
    pub documents: usize,
}

pub const COUNTERS: [&str; 8] = ["events", "nodes", "max_depth", "aliases", "anchors", "scalar_bytes", "merge_keys", "documents"];

impl Usage {
    pub fn get(&self, i: usize) -> usize {
        [self.events, self.nodes, self.max_depth, self.aliases, self.anchors, self.scalar_bytes, self.merge_keys, self.documents][i]
    }
}

/// Independent counter over the raw parser events; `with_replay` adds, for every alias, the events of the
/// fully expanded anchored subtree at the alias' nesting position (what a target that consumes every node pulls).
pub fn reference_usage(text: &str, with_replay: bool) -> Result<Usage, String> {
    let evs = raw::raw_events(text)?;
    let mut u = Usage::default();
    let mut depth = 0usize;
    // expanded event lists per anchor id: (kind: 0 scalar(len, is_merge_candidate) 1 start 2 end)
    #[derive(Clone)]
    enum X {
        Scalar(usize, bool),
        SeqStart,
        MapStart,
        End,
    }
    let mut anchors: std::collections::HashMap<usize, Vec<X>> = std::collections::HashMap::new();
    // stack of open recordings: (anchor id, buffer, depth at start)
    let mut rec: Vec<(usize, Vec<X>, usize)> = Vec::new();
    let mut distinct = std::collections::HashSet::new();
    // container stack for key-position tracking: (is_map, expecting_key)
    let mut ctx: Vec<(bool, bool)> = Vec::new();
    fn note_value(ctx: &mut Vec<(bool, bool)>) -> bool {
        // returns true if the node just seen was in key position of a mapping
        if let Some((true, expecting_key)) = ctx.last_mut() {
            let was_key = *expecting_key;
            *expecting_key = !*expecting_key;
            was_key
        } else {
            false
        }
    }
    for e in &evs {
        u.events += 1;
        match &e.ev {
            REv::DocStart(_) => {
                u.documents += 1;
            }
            REv::Scalar { value, style, anchor, tag } => {
                u.nodes += 1;
                u.scalar_bytes += value.len();
                let in_key = note_value(&mut ctx);
                let merge = in_key && *style == raw::RStyle::Plain && tag.is_none() && value == "<<";
                if merge {
                    u.merge_keys += 1;
                }
                if *anchor != 0 {
                    distinct.insert(*anchor);
                    anchors.insert(*anchor, vec![X::Scalar(value.len(), *style == raw::RStyle::Plain && value == "<<")]);
                }
                for r in rec.iter_mut() {
                    r.1.push(X::Scalar(value.len(), *style == raw::RStyle::Plain && value == "<<"));
                }
            }
            REv::SeqStart { anchor, .. } | REv::MapStart { anchor, .. } => {
                let is_map = matches!(e.ev, REv::MapStart { .. });
                u.nodes += 1;
                note_value(&mut ctx);
                // the value slot is completed when the container ends; undo the flip for containers in key position is
                // not needed: a container key flips once here (key seen) and its value flips again later
                ctx.push((is_map, true));
                depth += 1;
                u.max_depth = u.max_depth.max(depth);
                for r in rec.iter_mut() {
                    r.1.push(if is_map { X::MapStart } else { X::SeqStart });
                }
                if *anchor != 0 {
                    distinct.insert(*anchor);
                    rec.push((*anchor, vec![if is_map { X::MapStart } else { X::SeqStart }], depth));
                }
            }
            REv::SeqEnd | REv::MapEnd => {
                ctx.pop();
                for r in rec.iter_mut() {
                    r.1.push(X::End);
                }
                if let Some(last) = rec.last() {
                    if last.2 == depth {
                        let (id, buf, _) = rec.pop().unwrap();
                        anchors.insert(id, buf);
                    }
                }
                depth -= 1;
            }
            REv::Alias(id) => {
                u.aliases += 1;
                let in_key = note_value(&mut ctx);
                let _ = in_key;
                if with_replay {
                    let buf = anchors.get(id).cloned().ok_or_else(|| "alias to an open or unknown anchor".to_string())?;
                    let mut d = depth;
                    // key-position tracking inside the replayed subtree (for merge keys)
                    let mut rctx: Vec<(bool, bool)> = Vec::new();
                    for x in &buf {
                        u.events += 1;
                        match x {
                            X::Scalar(len, merge_like) => {
                                u.nodes += 1;
                                u.scalar_bytes += len;
                                let k = note_value(&mut rctx);
                                if k && *merge_like {
                                    u.merge_keys += 1;
                                }
                            }
                            X::SeqStart | X::MapStart => {
                                u.nodes += 1;
                                note_value(&mut rctx);
                                rctx.push((matches!(x, X::MapStart), true));
                                d += 1;
                                u.max_depth = u.max_depth.max(d);
                            }
                            X::End => {
                                rctx.pop();
                                d -= 1;
                            }
                        }
                    }
                    for r in rec.iter_mut() {
                        r.1.extend(buf.iter().cloned());
                    }
                }
            }
            _ => {}
        }
    }
    u.anchors = distinct.len();
    Ok(u)
}

fn unlimited() -> Budget {
    let mut b = Budget::default();
    b.max_reader_input_bytes = None;
    b.max_events = usize::MAX;
    b.max_aliases = usize::MAX;
    b.max_anchors = usize::MAX;
    b.max_depth = usize::MAX;
    b.max_documents = usize::MAX;
    b.max_nodes = usize::MAX;
    b.max_total_scalar_bytes = usize::MAX;
    b.max_merge_keys = usize::MAX;
    b.enforce_alias_anchor_ratio = false;
    b
}

fn with_limit(c: usize, limit: usize) -> Budget {
    let mut b = unlimited();
    match c {
        0 => b.max_events = limit,
        1 => b.max_nodes = limit,
        2 => b.max_depth = limit,
        3 => b.max_aliases = limit,
        4 => b.max_anchors = limit,
        5 => b.max_total_scalar_bytes = limit,
        6 => b.max_merge_keys = limit,
        _ => b.max_documents = limit,
    }
    b
}

fn breach_counter(b: &BudgetBreach) -> Option<usize> {
    Some(match b {
        BudgetBreach::Events { .. } => 0,
        BudgetBreach::Nodes { .. } => 1,
        BudgetBreach::Depth { .. } => 2,
        BudgetBreach::Aliases { .. } => 3,
        BudgetBreach::Anchors { .. } => 4,
        BudgetBreach::ScalarBytes { .. } => 5,
        BudgetBreach::MergeKeys { .. } => 6,
        BudgetBreach::Documents { .. } => 7,
        _ => return None,
    })
}

fn report_usage(r: &BudgetReport) -> Usage {
    Usage {
        events: r.events,
        nodes: r.nodes,
        max_depth: r.max_depth,
        aliases: r.aliases,
        anchors: r.anchors,
        scalar_bytes: r.total_scalar_bytes,
        merge_keys: r.merge_keys,
        documents: r.documents,
    }
}

#[derive(Debug)]
pub struct Run {
    pub ok: bool,
    /// Some(counter) if the error is a budget error
    pub budget_breach: Option<Option<usize>>,
    pub is_ratio_breach: bool,
    pub err: String,
    pub report: Option<Usage>,
}

/// entry: 0 from_str, 1 from_reader, 2 from_multiple
fn run_entry(entry: u8, text: &str, budget: Budget) -> Result<Run, String> {
    let cell: Rc<RefCell<Option<BudgetReport>>> = Rc::new(RefCell::new(None));
    let c2 = cell.clone();
    let mut o = serde_saphyr::Options::default();
    o.budget = Some(budget);
    let o = o.with_budget_report(move |r: BudgetReport| {
        *c2.borrow_mut() = Some(r);
    });
    let res = guarded(|| match entry {
        0 => serde_saphyr::from_str_with_options::<Tree>(text, o).map(|_| ()),
        1 => serde_saphyr::from_reader_with_options::<_, Tree>(std::io::Cursor::new(text.as_bytes().to_vec()), o).map(|_| ()),
        _ => serde_saphyr::from_multiple_with_options::<Tree>(text, o).map(|_| ()),
    })?;
    let report = cell.borrow().as_ref().map(report_usage);
    Ok(match res {
        Ok(()) => Run { ok: true, budget_breach: None, is_ratio_breach: false, err: String::new(), report },
        Err(e) => {
            let (bb, ratio) = match e.without_snippet() {
                serde_saphyr::Error::Budget { breach, .. } => (Some(breach_counter(breach)), matches!(breach, BudgetBreach::AliasAnchorRatio { .. })),
                _ => (None, false),
            };
            Run { ok: false, budget_breach: bb, is_ratio_breach: ratio, err: e.to_string().lines().next().unwrap_or("").to_string(), report }
        }
    })
}

#[derive(Clone, Debug, Serialize, Deserialize)]
pub struct Case {
    pub tree: Node,
    pub layout: u8,
    /// 0 from_str, 1 from_reader, 2 from_multiple
    pub entry: u8,
}

pub struct C07;

pub const ENTRIES: [&str; 3] = ["from_str", "from_reader", "from_multiple"];

impl Prop for C07 {
    type Case = Case;
    fn check(&self, c: &Case) -> Verdict {
        let mut v = Verdict::default();
        let tree = c02::apply_layout(&c.tree, c.layout);
        let text = render_default(&tree);
        if validate(&tree, &text) != Validity::Ok || expand(&tree).is_err() {
            v.rejected = true;
            return v;
        }
        let want = match reference_usage(&text, true) {
            Ok(u) => u,
            Err(_) => {
                v.rejected = true;
                return v;
            }
        };
        let raw_only = reference_usage(&text, false).unwrap();
        macro_rules! run {
            ($b:expr) => {
                match run_entry(c.entry, &text, $b) {
                    Ok(r) => r,
                    Err(p) => {
                        v.fail("panic", format!("{:?}: {}", text, p));
                        return v;
                    }
                }
            };
        }
        // baseline with everything unlimited
        let base = run!(unlimited());
        v.execs += 1;
        if tree.has_alias() {
            v.classes.push("with_replay");
        }
        v.nontrivial = want.aliases > 0 || want.anchors > 0 || want.merge_keys > 0;
        v.outcome = hash64(&(base.ok, want.max_depth, want.aliases.min(3), want.merge_keys.min(2)));
        if base.budget_breach.is_some() {
            v.fail("rejected_within_limits", format!("{:?} via {} with every limit at usize::MAX: {}", text, ENTRIES[c.entry as usize], base.err));
            return v;
        }
        if !base.ok {
            // not deserializable for another reason (duplicate keys, invalid merge value, ...): thresholds are not defined
            v.classes.push("doc_fails_for_other_reason");
            return v;
        }
        // (a) report accuracy
        v.compared += 1;
        match &base.report {
            None => {
                v.fail("no_report", format!("{:?} via {}: callback not invoked", text, ENTRIES[c.entry as usize]));
                return v;
            }
            Some(r) => {
                if *r != want {
                    v.fail("report_differs_from_independent_count", format!("{:?} via {}: report {:?}, independent count {:?}", text, ENTRIES[c.entry as usize], r, want));
                    return v;
                }
            }
        }
        if c.entry == 0 {
            // pre-check API: raw events only
            v.compared += 1;
            match guarded(|| check_yaml_budget(&text, unlimited(), EnforcingPolicy::AllContent)) {
                Ok(Ok(r)) => {
                    let got = report_usage(&r);
                    if got != raw_only || r.breached.is_some() {
                        v.fail("check_yaml_budget_report", format!("{:?}: check_yaml_budget report {:?} breached={:?}, independent raw count {:?}", text, got, r.breached, raw_only));
                        return v;
                    }
                }
                Ok(Err(e)) => {
                    v.fail("check_yaml_budget_report", format!("{:?}: scan error {}", text, e));
                    return v;
                }
                Err(p) => {
                    v.fail("panic", p);
                    return v;
                }
            }
        }
        // (b) threshold exactness
        for ci in 0..8 {
            let u = want.get(ci);
            let at = run!(with_limit(ci, u));
            v.execs += 1;
            v.compared += 1;
            if !at.ok {
                v.fail(
                    "rejected_at_exact_usage",
                    format!("{:?} via {}: {} usage is {} and the limit is {} but got: {}", text, ENTRIES[c.entry as usize], COUNTERS[ci], u, u, at.err),
                );
                return v;
            }
            if u >= 1 {
                let below = run!(with_limit(ci, u - 1));
                v.execs += 1;
                v.compared += 1;
                if below.ok {
                    v.fail("accepted_above_limit", format!("{:?} via {}: {} usage is {} but limit {} was accepted", text, ENTRIES[c.entry as usize], COUNTERS[ci], u, u - 1));
                    return v;
                }
                match below.budget_breach {
                    Some(Some(k)) if k == ci => {}
                    other => {
                        v.fail(
                            "wrong_breach_kind",
                            format!("{:?} via {}: {} limit {} (usage {}) gave {:?}: {}", text, ENTRIES[c.entry as usize], COUNTERS[ci], u - 1, u, other.map(|o| o.map(|k| COUNTERS[k])), below.err),
                        );
                        return v;
                    }
                }
            }
        }
        // (c) alias / anchor ratio
        if want.aliases >= 1 {
            v.classes.push("ratio_checked");
            let a = want.aliases;
            let n = want.anchors;
            for (min_aliases, mult) in [(a, 0usize), (a, a.div_ceil(n.max(1))), (a, (a - 1) / n.max(1)), (a + 1, 0)] {
                let mut b = unlimited();
                b.enforce_alias_anchor_ratio = true;
                b.alias_anchor_min_aliases = min_aliases;
                b.alias_anchor_ratio_multiplier = mult;
                let r = run!(b);
                v.execs += 1;
                v.compared += 1;
                let expect_breach = a >= min_aliases && (n == 0 || a > mult * n);
                if expect_breach != r.is_ratio_breach || (!expect_breach && !r.ok) {
                    v.fail(
                        "alias_anchor_ratio",
                        format!("{:?} via {}: aliases={} anchors={} min_aliases={} multiplier={}: expected breach={} got ok={} err={}", text, ENTRIES[c.entry as usize], a, n, min_aliases, mult, expect_breach, r.ok, r.err),
                    );
                    return v;
                }
            }
        }
        v
    }
    fn shrink(&self, c: &Case) -> Vec<Case> {
        let mut out = Vec::new();
        for t in shrink_node(&c.tree) {
            out.push(Case { tree: t, ..c.clone() });
        }
        if c.layout != 0 {
            out.push(Case { layout: 0, ..c.clone() });
        }
        if c.entry != 0 {
            out.push(Case { entry: 0, ..c.clone() });
        }
        out
    }
    fn key(&self, c: &Case, clause: &str) -> String {
        format!("{}|{}|{}", clause, c02::apply_layout(&c.tree, c.layout).show(), ENTRIES[c.entry as usize])
    }
}

// ---------------------------------------------------------------------------------------------
// per-document enforcement: explicit-state search over document histories (stateright)

pub const DOC_KINDS: [(&str, &str); 9] = [
    ("plain", "a: 1\n"),
    ("anchor_alias", "p: &x 1\nq: *x\n"),
    ("nest3", "a:\n  b:\n    - c\n"),
    ("scalar40", "k: aaaaaaaaaaaaaaaaaaaaaaaaaaaaaaaaaaaaaaaa\n"),
    ("merge", "s: &m {u: 1}\nt:\n  <<: *m\n"),
    ("type_error_deep", "a:\n  b:\n    c: [[x]]\n"),
    ("null", "~\n"),
    ("two_anchors", "- &x 1\n- &y 2\n- *x\n"),
    ("three_aliases_of_one_anchor", "a: &x 1\nb: *x\nc: *x\nd: *x\n"),
];

#[derive(Clone, Debug, PartialEq, Eq, Hash)]
pub struct HState {
    pub history: Vec<u8>,
    /// verdict of the last transition: None = fine, Some(description) = violation
    pub bad: Option<String>,
    pub recovered: bool,
    pub multi: bool,
    /// the last document follows one that (alone) breaches some budget of the model
    pub after_breach: bool,
}

/// target for the stream: a map whose values must be scalars/seq of scalars, so that `type_error_deep` fails late
#[derive(Debug, Deserialize)]
#[allow(dead_code)]
#[serde(untagged)]
enum Shallow {
    Null(()),
    Seq(Vec<Tree>),
    Map(std::collections::BTreeMap<String, ShallowV>),
}
#[derive(Debug, Deserialize)]
#[allow(dead_code)]
#[serde(untagged)]
enum ShallowV {
    I(i64),
    S(String),
    M(std::collections::BTreeMap<String, ShallowV2>),
}
#[derive(Debug, Deserialize)]
#[allow(dead_code)]
#[serde(untagged)]
enum ShallowV2 {
    I(i64),
    S(String),
    Q(Vec<String>),
    M(std::collections::BTreeMap<String, i64>),
}

fn stream_text(h: &[u8]) -> String {
    let mut s = String::new();
    for &k in h {
        s.push_str("---\n");
        s.push_str(DOC_KINDS[k as usize].1);
    }
    s
}

/// verdict per document when read through the iterator with the budget: "ok" | "budget:<kind>" | "err"
fn read_verdicts(text: &str, budget: Budget, cap: usize) -> Result<Vec<String>, String> {
    guarded(|| {
        let mut o = serde_saphyr::Options::default();
        o.budget = Some(budget);
        let mut rd = std::io::Cursor::new(text.as_bytes().to_vec());
        let it = serde_saphyr::read_with_options::<_, Shallow>(&mut rd, o);
        let mut out = Vec::new();
        for item in it.take(cap) {
            out.push(match item {
                Ok(_) => "ok".to_string(),
                Err(e) => match e.without_snippet() {
                    serde_saphyr::Error::Budget { breach, .. } => format!("budget:{:?}", breach_counter(breach).map(|k| COUNTERS[k])),
                    _ => "err".to_string(),
                },
            });
        }
        out
    })
}

pub struct HistModel {
    pub max_len: usize,
    pub budgets: Vec<(String, Budget)>,
    /// per budget, per kind: verdict as the only document of a stream
    pub solo: Vec<Vec<Vec<String>>>,
    /// per budget, per kind: verdicts of the stream [kind, null document]
    pub inner: Vec<Vec<Vec<String>>>,
}

impl HistModel {
    pub fn new(max_len: usize) -> Self {
        // budgets: for each counter, the maximum single-document usage (must accept everything) and one less
        let mut budgets = Vec::new();
        let usages: Vec<Usage> = DOC_KINDS.iter().map(|(_, t)| reference_usage(&format!("---\n{}", t), true).unwrap()).collect();
        budgets.push(("unlimited".to_string(), unlimited()));
        let solo_of = |b: &Budget| -> Vec<Vec<String>> { (0..DOC_KINDS.len()).map(|k| read_verdicts(&stream_text(&[k as u8]), b.clone(), 4).unwrap_or_else(|p| vec![format!("panic:{}", p)])).collect() };
        for ci in 0..7 {
            let m = usages.iter().map(|u| u.get(ci)).max().unwrap();
            budgets.push((format!("{}={}", COUNTERS[ci], m), with_limit(ci, m)));
            // the largest limit under which some document kind, alone in a stream, is really refused by the
            // library (the reference usage may count stream-level events the per-document counter does not see)
            let mut l = m;
            while l >= 1 {
                l -= 1;
                let b = with_limit(ci, l);
                if solo_of(&b).iter().any(|v| v.iter().any(|x| x.starts_with("budget:"))) {
                    budgets.push((format!("{}={}", COUNTERS[ci], l), b));
                    if l >= 1 {
                        budgets.push((format!("{}={}", COUNTERS[ci], l - 1), with_limit(ci, l - 1)));
                    }
                    break;
                }
            }
        }
        // the alias/anchor ratio heuristic: more than 2 aliases per anchor is refused (from the first alias on)
        {
            let mut b = unlimited();
            b.enforce_alias_anchor_ratio = true;
            b.alias_anchor_min_aliases = 1;
            b.alias_anchor_ratio_multiplier = 2;
            budgets.push(("alias_anchor_ratio<=2".to_string(), b));
        }
        let solo = budgets
            .iter()
            .map(|(_, b)| (0..DOC_KINDS.len()).map(|k| read_verdicts(&stream_text(&[k as u8]), b.clone(), 4).unwrap_or_else(|p| vec![format!("panic:{}", p)])).collect())
            .collect();
        // only the events counter sees the end-of-stream events; for every other budget a document in the middle of
        // a stream must get exactly the verdict it gets alone
        let inner: Vec<Vec<Vec<String>>> = budgets
            .iter()
            .enumerate()
            .map(|(bi, (name, b))| {
                if name.starts_with("events") {
                    (0..DOC_KINDS.len()).map(|k| read_verdicts(&stream_text(&[k as u8, 6]), b.clone(), 4).unwrap_or_else(|p| vec![format!("panic:{}", p)])).collect()
                } else {
                    let s: &Vec<Vec<Vec<String>>> = &solo;
                    s[bi].clone()
                }
            })
            .collect();
        HistModel { max_len, budgets, solo, inner }
    }
    fn judge(&self, h: &[u8]) -> Option<String> {
        let text = stream_text(h);
        for (bi, (bname, b)) in self.budgets.iter().enumerate() {
            let got = match read_verdicts(&text, b.clone(), 2 * h.len() + 2) {
                Ok(g) => g,
                Err(p) => return Some(format!("panic: {}", p)),
            };
            // expected: concatenation of the per-document verdict lists (null documents yield no item). For every
            // document but the last the list is taken from the stream [document, null document], so that what the
            // end-of-stream events add to the counters is not attributed to the document.
            let mut want = Vec::new();
            for (i, &k) in h.iter().enumerate() {
                if i + 1 == h.len() {
                    want.extend(self.solo[bi][k as usize].iter().cloned());
                } else {
                    want.extend(self.inner[bi][k as usize].iter().cloned());
                }
            }
            if got != want {
                return Some(format!(
                    "stream [{}] under budget {}: per-document verdicts {:?}, but each document on its own gives {:?}",
                    h.iter().map(|&k| DOC_KINDS[k as usize].0).collect::<Vec<_>>().join(", "),
                    bname,
                    got,
                    want
                ));
            }
        }
        None
    }
}

impl stateright::Model for HistModel {
    type State = HState;
    type Action = u8;
    fn init_states(&self) -> Vec<HState> {
        vec![HState { history: vec![], bad: None, recovered: false, multi: false, after_breach: false }]
    }
    fn actions(&self, s: &HState, actions: &mut Vec<u8>) {
        if s.history.len() < self.max_len && s.bad.is_none() {
            for k in 0..DOC_KINDS.len() as u8 {
                actions.push(k);
            }
        }
    }
    fn next_state(&self, s: &HState, a: u8) -> Option<HState> {
        let mut h = s.history.clone();
        h.push(a);
        let bad = self.judge(&h);
        let recovered = s.recovered || (h.len() >= 2 && h[..h.len() - 1].contains(&5));
        let multi = h.iter().filter(|&&k| k != 6).count() >= 2;
        let after_breach = s.after_breach || (h.len() >= 2 && h[..h.len() - 1].iter().any(|&k| self.solo.iter().any(|per| per[k as usize].iter().any(|x| x.starts_with("budget:")))));
        Some(HState { history: h, bad, recovered, multi, after_breach })
    }
    fn properties(&self) -> Vec<stateright::Property<Self>> {
        vec![
            stateright::Property::<Self>::always("per-document verdict independent of earlier documents", |_, s| s.bad.is_none()),
            stateright::Property::<Self>::sometimes("a document follows a failed (type error) document", |_, s| s.recovered),
            stateright::Property::<Self>::sometimes("stream with two non-null documents", |_, s| s.multi),
            stateright::Property::<Self>::sometimes("a document follows one that breaches a budget", |_, s| s.after_breach),
        ]
    }
}

pub fn shrink_history(m: &HistModel, h: &[u8]) -> Vec<u8> {
    let mut cur = h.to_vec();
    'outer: loop {
        for i in 0..cur.len() {
            let mut c = cur.clone();
            c.remove(i);
            if !c.is_empty() && m.judge(&c).is_some() {
                cur = c;
                continue 'outer;
            }
        }
        for i in 0..cur.len() {
            for k in 0..cur[i] {
                let mut c = cur.clone();
                c[i] = k;
                if m.judge(&c).is_some() {
                    cur = c;
                    continue 'outer;
                }
            }
        }
        return cur;
    }
}

fn run_histories(ctx: &Ctx, acc: &mut Acc) -> Result<(), String> {
    use stateright::{Checker, Model};
    let max_len = ctx.tier.pick(3, 4);
    let model = HistModel::new(max_len);
    if std::env::var("VERIF_C07_DEBUG").is_ok() {
        for (bi, (bname, b)) in model.budgets.iter().enumerate() {
            if !bname.starts_with("events") {
                continue;
            }
            for k in 0..DOC_KINDS.len() as u8 {
                let h = [k, 0u8];
                println!("{} [{} , plain] solo={:?} got={:?}", bname, DOC_KINDS[k as usize].0, model.solo[bi][k as usize], read_verdicts(&stream_text(&h), b.clone(), 6));
            }
        }
    }
    let run_once = || {
        let m = HistModel { max_len, budgets: model.budgets.clone(), solo: model.solo.clone(), inner: model.inner.clone() };
        let checker = m.checker().threads(16).spawn_bfs().join();
        let states = checker.unique_state_count();
        let bad: Option<Vec<u8>> = checker.discovery("per-document verdict independent of earlier documents").map(|p| p.last_state().history.clone());
        let s1 = checker.discovery("a document follows a failed (type error) document").is_some();
        let s2 = checker.discovery("stream with two non-null documents").is_some() && checker.discovery("a document follows one that breaches a budget").is_some();
        (states, bad, s1, s2)
    };
    let (states, bad, s1, s2) = run_once();
    let (states2, bad2, _, _) = run_once();
    if bad.is_none() && (states != states2 || bad2.is_some()) {
        return Err(format!("stateright run not reproducible: {} vs {} states", states, states2));
    }
    acc.notes.insert(
        "per_document_histories".into(),
        json!({"engine": "stateright spawn_bfs", "max_stream_len": max_len, "document_kinds": DOC_KINDS.iter().map(|k| k.0).collect::<Vec<_>>(), "budgets": model.budgets.iter().map(|b| b.0.clone()).collect::<Vec<_>>(), "unique_states": states, "run_twice_same_count": states == states2}),
    );
    acc.evaluations += states as u64;
    acc.execs += states as u64 * model.budgets.len() as u64;
    acc.compared += states as u64 * model.budgets.len() as u64;
    acc.nontrivial += states.saturating_sub(1 + DOC_KINDS.len()) as u64;
    match bad {
        Some(h) => {
            let min = shrink_history(&model, &h);
            let detail = model.judge(&min).unwrap_or_default();
            // identify the finding by the minimal history and the first budget that shows it
            let key = format!("per_document_history|{}", min.iter().map(|&k| DOC_KINDS[k as usize].0).collect::<Vec<_>>().join(","));
            acc.add_violation(key, "per_document_history", detail, json!({"history": min, "stream": stream_text(&min)}), json!({"history": h}));
        }
        None => {
            if !s1 || !s2 {
                return Err("stateright: a coverage (sometimes) property was not discovered".into());
            }
        }
    }
    Ok(())
}

pub fn run(ctx: &Ctx) -> i32 {
    let p = C07;
    let g = c02::generator(false);
    let full = ctx.tier.pick(3, 4);
    let by = g.build(full);
    let per_tree = |acc: &mut Acc, t: Node| {
        if !t.is_collection() {
            return;
        }
        for layout in 0..2u8 {
            for entry in 0..3u8 {
                if layout == 1 && entry != 0 {
                    continue;
                }
                process_case(&p, acc, &Case { tree: t.clone(), layout, entry });
            }
        }
    };
    let mut acc = Acc::default();
    for k in 1..=full {
        acc = acc.merge(c02::run_chunks(&by[k], &per_tree));
    }
    acc = acc.merge(g.for_each_next(&by, Acc::default, |a, t| per_tree(a, t), Acc::merge));
    // canonical-anchor trees (3+ anchors, nested anchored containers)
    {
        let sg = c02::shape_generator();
        let n = ctx.tier.pick(5, 6);
        let sby = sg.build(n);
        let per_shape = |acc: &mut Acc, shape: Node| {
            c02::labellings(&shape, &mut |t| per_tree(acc, t));
        };
        for k in 1..=n {
            acc = acc.merge(c02::run_chunks(&sby[k], &per_shape));
        }
    }
    // merge keys next to aliases in the same mapping (key / value bookkeeping of the enforcer), too large for the
    // exhaustive bound
    {
        let p1 = Node::plain;
        let m = |es: Vec<(Node, Node)>| Node::map(es);
        let family = vec![
            m(vec![(p1("d"), m(vec![(p1("t"), p1("1"))]).anchored("d")), (p1("n"), p1("foo").anchored("n")), (p1("svc"), m(vec![(p1("name"), Node::alias("n")), (p1("<<"), Node::alias("d"))]))]),
            m(vec![(p1("base"), m(vec![(p1("k"), p1("1"))]).anchored("b")), (p1("d"), m(vec![(p1("<<"), Node::alias("b")), (p1("e"), p1("<<"))]))]),
            m(vec![(p1("b"), m(vec![(p1("q"), p1("1"))]).anchored("b")), (p1("d"), m(vec![(p1("x"), Node::alias("b")), (p1("<<"), Node::alias("b"))]))]),
            Node::seq(vec![p1("k").anchored("s"), m(vec![(Node::alias("s"), p1("1")), (p1("<<"), m(vec![(p1("q"), p1("1"))]).flowed())])]),
            m(vec![(p1("a"), Node::seq(vec![p1("1")]).anchored("e")), (p1("b"), Node::alias("e")), (p1("c"), m(vec![(p1("u"), Node::alias("e")), (p1("<<"), m(vec![(p1("z"), p1("2"))]).flowed()), (p1("v"), Node::alias("e")), (p1("w"), p1("<<"))]))]),
        ];
        for t in family {
            acc.class("merge_next_to_alias_family", 1);
            per_tree(&mut acc, t);
        }
    }
    acc.samples.truncate(0);
    let sample = Node::map(vec![(Node::plain("a"), Node::seq(vec![Node::plain("1")]).anchored("x")), (Node::plain("<<"), Node::alias("x"))]);
    acc.samples.push(json!({"text": render_default(&sample), "usage": reference_usage(&render_default(&sample), true).ok()}));
    if let Err(e) = run_histories(ctx, &mut acc) {
        eprintln!("MACHINERY: {}", e);
        return 2;
    }
    let meta = Meta {
        level: "model_checking",
        rule: "every collection-rooted tree of the C02 alphabet up to the node bound (plus canonical-anchor trees) x entry points; per tree: report vs independent count, and for each of 8 counters limit=usage (must pass) and usage-1 (must fail with that breach kind), 4 alias/anchor ratio settings; plus stateright BFS over document histories for per-document enforcement; non-trivial = the document uses anchors, aliases or merge keys".into(),
        exhaustive: true,
        bounds: json!({"max_nodes": full + 1, "entry_points": ENTRIES, "counters": COUNTERS}),
        assumptions: vec![
            "reference counter = raw saphyr-parser events (all of them, stream/document markers included) plus, for each alias, the events of the fully expanded anchored node at the alias' depth".into(),
            "thresholds are only evaluated for documents that deserialize into the untyped tree with all limits at usize::MAX".into(),
        ],
    };
    finish(ctx, meta, acc)
}

pub fn replay_file(ctx: &Ctx, path: &str) -> i32 {
    // history replays carry a "history" field instead of a tree case
    if let Ok(text) = std::fs::read_to_string(path) {
        if let Ok(v) = serde_json::from_str::<serde_json::Value>(&text) {
            if let Some(h) = v["case"]["history"].as_array() {
                let h: Vec<u8> = h.iter().filter_map(|x| x.as_u64().map(|x| x as u8)).collect();
                let m = HistModel::new(h.len());
                let a = m.judge(&h);
                let b = m.judge(&h);
                if a != b {
                    eprintln!("MACHINERY: history replay not deterministic");
                    return 2;
                }
                return match a {
                    Some(d) => {
                        println!("VIOLATION property={} replay={}", ctx.id, path);
                        println!("  detail: {}", d);
                        1
                    }
                    None => {
                        println!("{} replay {}: property holds on this history", ctx.id, path);
                        0
                    }
                };
            }
        }
    }
    replay(&C07, ctx, path)
}
