pub mod c01;
pub mod c02;
pub mod c03;
pub mod c04;
pub mod c05;
pub mod c06;
pub mod c07;
pub mod c08;
pub mod c09;
pub mod c10;
pub mod c11;
pub mod c12;
pub mod c13;
pub mod c14;
pub mod c15;
pub mod c16;
pub mod c17;
pub mod c18;
#[cfg(feature = "robotics")]
pub mod c19;
pub mod c20;

use crate::engine::Ctx;

pub fn dispatch(ctx: &Ctx, replay: Option<&str>) -> i32 {
    macro_rules! p {
        ($m:ident) => {
            match replay {
                Some(f) => $m::replay_file(ctx, f),
                None => $m::run(ctx),
            }
        };
    }
    match ctx.id.as_str() {
        "C01" => p!(c01),
        "C02" => p!(c02),
        "C03" => p!(c03),
        "C04" => p!(c04),
        "C05" => p!(c05),
        "C06" => p!(c06),
        "C07" => p!(c07),
        "C08" => p!(c08),
        "C09" => p!(c09),
        "C10" => p!(c10),
        "C11" => p!(c11),
        "C12" => p!(c12),
        "C13" => p!(c13),
        "C14" => p!(c14),
        "C15" => p!(c15),
        "C16" => p!(c16),
        "C17" => p!(c17),
        "C18" => p!(c18),
        #[cfg(feature = "robotics")]
        "C19" => p!(c19),
        "C20" => p!(c20),
        other => {
            eprintln!("MACHINERY: unknown property {}", other);
            2
        }
    }
}
