//! C13 — every data-model shape round-trips as one well-formed YAML document.
use crate::common::SerOpts;
use crate::dynv::*;
use crate::engine::*;
use crate::raw;
use rayon::prelude::*;
use serde::{Deserialize, Serialize};
use serde_json::json;

#[derive(Clone, Debug, Serialize, Deserialize)]
pub struct Case {
    #[serde(with = "crate::dynv::json")]
    pub val: Dyn,
    pub opts: SerOpts,
    /// sequences and mappings are serialized without a length hint
    #[serde(default)]
    pub no_len: bool,
}

pub fn leaves() -> Vec<Dyn> {
    vec![
        Dyn::I64(7),
        Dyn::Unit,
        Dyn::Bool(true),
        Dyn::s("s"),
        Dyn::s("l1\nl2"),
        Dyn::None,
        Dyn::f64(1.5),
        Dyn::Seq(vec![]),
        Dyn::Map(vec![]),
        Dyn::Variant { enum_name: "E".into(), index: 0, variant: "UnitVar".into(), val: VarVal::Unit },
        Dyn::UnitStruct("Us".into()),
        Dyn::Char('c'),
        Dyn::s(""),
    ]
}

pub const ARITY1: [&str; 9] = ["Some", "Seq1", "Newtype", "MapStr1", "MapInt", "MapBool", "MapKey", "VarNewtype", "VarStruct1"];
pub const ARITY2: [&str; 8] = ["Seq2", "Tuple2", "TupleStruct2", "MapStr2", "Struct2", "VarTuple", "VarStruct", "MapKeyValue"];

pub fn build1(shape: usize, x: Dyn) -> Dyn {
    match shape {
        0 => Dyn::Some(Box::new(x)),
        1 => Dyn::Seq(vec![x]),
        2 => Dyn::NewtypeStruct("Nt".into(), Box::new(x)),
        3 => Dyn::Map(vec![(Dyn::s("k"), x)]),
        4 => Dyn::Map(vec![(Dyn::I64(1), x)]),
        5 => Dyn::Map(vec![(Dyn::Bool(true), x)]),
        6 => Dyn::Map(vec![(x, Dyn::I64(4))]),
        8 => Dyn::Variant { enum_name: "E".into(), index: 4, variant: "S1v".into(), val: VarVal::Struct(vec![("a".into(), x)]) },
        _ => Dyn::Variant { enum_name: "E".into(), index: 1, variant: "Nv".into(), val: VarVal::Newtype(Box::new(x)) },
    }
}

pub fn build2(shape: usize, x: Dyn, y: Dyn) -> Dyn {
    match shape {
        0 => Dyn::Seq(vec![x, y]),
        1 => Dyn::Tuple(vec![x, y]),
        2 => Dyn::TupleStruct("Ts".into(), vec![x, y]),
        3 => Dyn::Map(vec![(Dyn::s("k"), x), (Dyn::s("l"), y)]),
        4 => Dyn::Struct("St".into(), vec![("f".into(), x), ("g".into(), y)]),
        5 => Dyn::Variant { enum_name: "E".into(), index: 2, variant: "Tv".into(), val: VarVal::Tuple(vec![x, y]) },
        7 => Dyn::Map(vec![(x, y)]),
        _ => Dyn::Variant { enum_name: "E".into(), index: 3, variant: "Sv".into(), val: VarVal::Struct(vec![("f".into(), x), ("g".into(), y)]) },
    }
}

/// by_size[n] = all values with exactly n nodes
pub fn values_by_size(max: usize) -> Vec<Vec<Dyn>> {
    let mut by: Vec<Vec<Dyn>> = vec![Vec::new(); max + 1];
    if max >= 1 {
        by[1] = leaves();
    }
    for n in 2..=max {
        let mut v = Vec::new();
        for s in 0..ARITY1.len() {
            for x in &by[n - 1] {
                v.push(build1(s, x.clone()));
            }
        }
        for s in 0..ARITY2.len() {
            for a in 1..(n - 1) {
                let b = n - 1 - a;
                if b < 1 {
                    continue;
                }
                for x in &by[a] {
                    for y in &by[b] {
                        v.push(build2(s, x.clone(), y.clone()));
                    }
                }
            }
        }
        by[n] = v;
    }
    by
}

/// the same shape with its first scalar leaf changed (a second, different key of the same type)
fn vary(v: &Dyn) -> Option<Dyn> {
    fn first_some(items: &[Dyn]) -> Option<Vec<Dyn>> {
        for (i, x) in items.iter().enumerate() {
            if let Some(y) = vary(x) {
                let mut out = items.to_vec();
                out[i] = y;
                return Some(out);
            }
        }
        None
    }
    Some(match v {
        Dyn::I64(n) => Dyn::I64(n + 1),
        Dyn::Bool(b) => Dyn::Bool(!b),
        Dyn::Str(s) => Dyn::s(&format!("{}z", s)),
        Dyn::Char(_) => Dyn::Char('d'),
        Dyn::Some(x) => Dyn::Some(Box::new(vary(x)?)),
        Dyn::NewtypeStruct(n, x) => Dyn::NewtypeStruct(n.clone(), Box::new(vary(x)?)),
        Dyn::Seq(items) => Dyn::Seq(first_some(items)?),
        Dyn::Tuple(items) => Dyn::Tuple(first_some(items)?),
        Dyn::TupleStruct(n, items) => Dyn::TupleStruct(n.clone(), first_some(items)?),
        Dyn::Map(es) => {
            let mut out = es.clone();
            for (i, (k, x)) in es.iter().enumerate() {
                if let Some(k2) = vary(k) {
                    out[i].0 = k2;
                    return Some(Dyn::Map(out));
                }
                if let Some(x2) = vary(x) {
                    out[i].1 = x2;
                    return Some(Dyn::Map(out));
                }
            }
            return None;
        }
        Dyn::Struct(n, fs) => {
            let vals: Vec<Dyn> = fs.iter().map(|(_, x)| x.clone()).collect();
            let vals = first_some(&vals)?;
            Dyn::Struct(n.clone(), fs.iter().map(|(k, _)| k.clone()).zip(vals).collect())
        }
        Dyn::Variant { enum_name, index, variant, val } => {
            let val = match val {
                VarVal::Unit => return None,
                VarVal::Newtype(x) => VarVal::Newtype(Box::new(vary(x)?)),
                VarVal::Tuple(items) => VarVal::Tuple(first_some(items)?),
                VarVal::Struct(fs) => {
                    let vals: Vec<Dyn> = fs.iter().map(|(_, x)| x.clone()).collect();
                    let vals = first_some(&vals)?;
                    VarVal::Struct(fs.iter().map(|(k, _)| k.clone()).zip(vals).collect())
                }
            };
            Dyn::Variant { enum_name: enum_name.clone(), index: *index, variant: variant.clone(), val }
        }
        _ => return None,
    })
}

pub struct C13;

fn is_nullish(v: &Dyn) -> bool {
    match v {
        Dyn::Unit | Dyn::None | Dyn::UnitStruct(_) => true,
        Dyn::NewtypeStruct(_, x) => is_nullish(x), // newtype structs are transparent
        _ => false,
    }
}
fn is_empty_coll(v: &Dyn) -> bool {
    match v {
        Dyn::Seq(x) => x.is_empty(),
        Dyn::Map(x) => x.is_empty(),
        Dyn::NewtypeStruct(_, x) => is_empty_coll(x),
        _ => false,
    }
}
fn contains(v: &Dyn, f: &dyn Fn(&Dyn) -> bool) -> bool {
    if f(v) {
        return true;
    }
    match v {
        Dyn::Some(x) | Dyn::NewtypeStruct(_, x) => contains(x, f),
        Dyn::Seq(v) | Dyn::Tuple(v) | Dyn::TupleStruct(_, v) => v.iter().any(|x| contains(x, f)),
        Dyn::Map(v) => v.iter().any(|(k, x)| contains(k, f) || contains(x, f)),
        Dyn::Struct(_, v) => v.iter().any(|(_, x)| contains(x, f)),
        Dyn::Variant { val, .. } => match val {
            VarVal::Unit => false,
            VarVal::Newtype(x) => contains(x, f),
            VarVal::Tuple(v) => v.iter().any(|x| contains(x, f)),
            VarVal::Struct(v) => v.iter().any(|(_, x)| contains(x, f)),
        },
        _ => false,
    }
}

/// Values the YAML data model cannot tell apart from another value of the same type, whatever the emitter does:
/// `Some(null-like)` vs `None`; and, when `empty_as_braces` is off (empty collections are written as nothing, the
/// documented behaviour of that option), an empty collection at the root, inside `Some`, or inside a mapping key.
pub fn representable(v: &Dyn, o: &SerOpts) -> bool {
    if contains(v, &|x| matches!(x, Dyn::Some(i) if is_nullish(i))) {
        return false;
    }
    // mapping keys: `{}` read into an Option key is None by design (the "explicit empty key" idiom), and a one-entry
    // mapping key whose own key is null-like (`{~: v}`) is that idiom too (DESIGN.md §6b: unspecified)
    let key_idiom = |k: &Dyn| -> bool {
        contains(k, &|x| matches!(x, Dyn::Some(i) if is_empty_coll(i))) || contains(k, &|x| matches!(x, Dyn::Map(es) if es.len() == 1 && is_nullish(&es[0].0)))
    };
    if contains(v, &|x| matches!(x, Dyn::Map(es) if es.iter().any(|(k, _)| key_idiom(k)))) {
        return false;
    }
    if o.no_empty_braces {
        if is_empty_coll(v) {
            return false;
        }
        if contains(v, &|x| matches!(x, Dyn::Some(i) if contains(i, &is_empty_coll))) {
            return false;
        }
        if contains(v, &|x| matches!(x, Dyn::Map(es) if es.iter().any(|(k, _)| contains(k, &is_empty_coll)))) {
            return false;
        }
    }
    true
}

pub fn has_nested_container(v: &Dyn) -> bool {
    fn is_container(v: &Dyn) -> bool {
        v.count() > 1 || matches!(v, Dyn::Seq(_) | Dyn::Map(_))
    }
    fn kids(v: &Dyn) -> Vec<&Dyn> {
        match v {
            Dyn::Some(x) | Dyn::NewtypeStruct(_, x) => vec![x],
            Dyn::Seq(v) | Dyn::Tuple(v) | Dyn::TupleStruct(_, v) => v.iter().collect(),
            Dyn::Map(v) => v.iter().flat_map(|(k, x)| [k, x]).collect(),
            Dyn::Struct(_, v) => v.iter().map(|(_, x)| x).collect(),
            Dyn::Variant { val, .. } => match val {
                VarVal::Unit => vec![],
                VarVal::Newtype(x) => vec![x],
                VarVal::Tuple(v) => v.iter().collect(),
                VarVal::Struct(v) => v.iter().map(|(_, x)| x).collect(),
            },
            _ => vec![],
        }
    }
    is_container(v) && kids(v).iter().any(|k| is_container(k))
}

/// serialize, check single well-formed document, typed read-back
pub fn roundtrip(val: &Dyn, opts: &SerOpts) -> Result<String, (String, String)> {
    let text = match guarded(|| serde_saphyr::to_string_with_options(val, opts.to_lib())) {
        Err(p) => return Err(("panic_ser".into(), p)),
        // (the refusal of composite keys inside flow collections is an open finding of its own: keep it apart from
        // every other serialization error)
        Ok(Err(e)) => {
            let msg = e.to_string();
            let clause = if msg.contains("non-scalar key") { "ser_error_non_scalar_key_in_flow" } else { "ser_error" };
            return Err((clause.into(), format!("serialize failed: {}", msg)));
        }
        Ok(Ok(t)) => t,
    };
    match raw::raw_doc_count(&text) {
        Ok(1) => {}
        Ok(n) => return Err(("not_one_document".into(), format!("emitted {:?} parses as {} documents", text, n))),
        Err(e) => return Err(("not_wellformed".into(), format!("emitted {:?} does not scan: {}", text, e))),
    }
    let ty = readback_type(val);
    match guarded(|| from_str_ty(&text, &ty, serde_saphyr::Options::default())) {
        Err(p) => Err(("panic_de".into(), p)),
        Ok(Err(e)) => Err(("readback_error".into(), format!("emitted {:?}; typed read-back failed: {}", text, e.to_string().lines().next().unwrap_or("")))),
        Ok(Ok(back)) => {
            if same_data(&back, val) {
                Ok(text)
            } else {
                Err(("readback_differs".into(), format!("emitted {:?}; read back {:?}, expected {:?}", text, back, val)))
            }
        }
    }
}

impl Prop for C13 {
    type Case = Case;
    fn check(&self, c: &Case) -> Verdict {
        let mut v = Verdict::default();
        if !representable(&c.val, &c.opts) {
            v.rejected = true;
            return v;
        }
        v.execs = 2;
        v.compared = 1;
        v.nontrivial = has_nested_container(&c.val);
        UNKNOWN_LEN.with(|f| f.set(c.no_len));
        let rt = roundtrip(&c.val, &c.opts);
        UNKNOWN_LEN.with(|f| f.set(false));
        match rt {
            Ok(text) => {
                v.outcome = hash64(&(text.lines().count().min(6), text.contains('{') || text.contains('['), text.contains("? ")));
            }
            Err((clause, detail)) => {
                v.outcome = hash64(&clause);
                v.fail(&clause, detail);
            }
        }
        v
    }
    fn shrink(&self, c: &Case) -> Vec<Case> {
        let mut out = Vec::new();
        for o in c.opts.shrink() {
            out.push(Case { opts: o, ..c.clone() });
        }
        for s in shrink_dyn(&c.val) {
            out.push(Case { val: s, opts: c.opts, no_len: c.no_len });
        }
        out
    }
    fn key(&self, c: &Case, clause: &str) -> String {
        format!("{}|{:?}|{}{}", clause, c.val, c.opts.label(), if c.no_len { "|no length hints" } else { "" })
    }
}

pub fn option_vectors() -> Vec<SerOpts> {
    // 2^7: indent 2|3, compact, empty_as_braces, quote_all, yaml_12, prefer_block_scalars, tagged_enums
    let mut v = Vec::new();
    for bits in 0..64u32 {
        for indent in [0u8, 3] {
            let mut o = SerOpts::from_bits(bits);
            o.indent = indent;
            v.push(o);
        }
    }
    v
}

pub fn run(ctx: &Ctx) -> i32 {
    let p = C13;
    let max = ctx.tier.pick(4, 5);
    let by = values_by_size(max);
    let opts = option_vectors();
    let mut acc = Acc::default();
    let mut sizes = Vec::new();
    for n in 1..=max {
        sizes.push(by[n].len());
        let list = &by[n];
        // quick: the largest level under the 64 flag vectors only (indent_step 3 is on the smaller levels, in the
        // composite-key entry pass and in the sibling pass)
        let lopts: Vec<SerOpts> = if ctx.tier == Tier::Quick && n == max { opts.iter().filter(|o| o.indent == 0).cloned().collect() } else { opts.clone() };
        let total = list.len() as u64 * lopts.len() as u64;
        let a = run_indexed(&p, total, |i| {
            let o = lopts[(i % lopts.len() as u64) as usize];
            Some(Case { val: list[(i / lopts.len() as u64) as usize].clone(), opts: o, no_len: false })
        });
        acc = acc.merge(a);
    }
    // extra option axes on the pair-complete set (<= 3 nodes): indent 1, 4, 8 and a custom anchor-name generator
    let mut extra = Vec::new();
    for indent in [1u8, 4, 8] {
        for compact in [false, true] {
            extra.push(SerOpts { indent, compact, ..SerOpts::default() });
        }
    }
    extra.push(SerOpts { custom_anchor: true, ..SerOpts::default() });
    // a small fold width: every string and variant name longer than 4 characters is a block-scalar candidate
    extra.push(SerOpts { wrap: 1, ..SerOpts::default() });
    extra.push(SerOpts { wrap: 1, indent: 3, compact: true, ..SerOpts::default() });
    let small: Vec<&Dyn> = by.iter().take(ctx.tier.pick(4, 5)).flatten().collect();
    let total = small.len() as u64 * extra.len() as u64;
    let a = run_indexed(&p, total, |i| Some(Case { val: small[(i / extra.len() as u64) as usize].clone(), opts: extra[(i % extra.len() as u64) as usize], no_len: false }));
    acc = acc.merge(a);
    {
        // an indentation step of 1 on everything up to 4 nodes
        let o1 = [SerOpts { indent: 1, ..SerOpts::default() }, SerOpts { indent: 1, compact: true, ..SerOpts::default() }];
        let upto4: Vec<&Dyn> = by.iter().take(5).flatten().collect();
        let total = upto4.len() as u64 * 2;
        let a = run_indexed(&p, total, |i| Some(Case { val: upto4[(i / 2) as usize].clone(), opts: o1[(i % 2) as usize], no_len: false }));
        acc = acc.merge(a);
    }
    {
        // no length hints (serialize_seq(None) / serialize_map(None), as serde's collect_seq over a filtering
        // iterator gives): every value up to 4 nodes x the layout-relevant option vectors
        let nl_opts = [SerOpts::default(), SerOpts { compact: true, ..SerOpts::default() }, SerOpts { indent: 4, ..SerOpts::default() }, SerOpts { no_empty_braces: true, ..SerOpts::default() }, SerOpts { compact: true, indent: 3, ..SerOpts::default() }];
        let vals: Vec<&Dyn> = by.iter().take(5).flatten().collect();
        let no = nl_opts.len() as u64;
        let total = vals.len() as u64 * no;
        let a = run_indexed(&p, total, |i| Some(Case { val: vals[(i / no) as usize].clone(), opts: nl_opts[(i % no) as usize], no_len: true }));
        acc.notes.insert("no_length_hint_pass".into(), json!({"max_nodes": 4, "option_vectors": no, "cases": a.evaluations}));
        acc = acc.merge(a);
    }
    // sibling pass: layout state must not leak from one child into the next. Every two-child parent shape x every
    // first child of up to 3 nodes x every second child of up to 2 (thorough 3) nodes, under a few option vectors
    {
        let firsts: Vec<&Dyn> = by.iter().take(4).flatten().collect();
        // quick: as second child every leaf and every one-child container around an integer / a multi-line string
        // (what can leak is decided by how the second child starts); thorough: everything up to 3 nodes
        let quick_seconds: Vec<Dyn> = leaves().into_iter().chain((0..ARITY1.len()).flat_map(|s| [build1(s, Dyn::I64(7)), build1(s, Dyn::s("l1\nl2"))])).collect();
        let seconds: Vec<&Dyn> = if ctx.tier == Tier::Quick { quick_seconds.iter().collect() } else { by.iter().take(4).flatten().collect() };
        let sopts = [SerOpts::default(), SerOpts { compact: true, ..SerOpts::default() }, SerOpts { indent: 3, ..SerOpts::default() }, SerOpts { no_empty_braces: true, ..SerOpts::default() }];
        let (nf, ns, no) = (firsts.len() as u64, seconds.len() as u64, sopts.len() as u64);
        let total = ARITY2.len() as u64 * nf * ns * no;
        let a = run_indexed(&p, total, |i| {
            let o = sopts[(i % no) as usize];
            let r = i / no;
            let y = seconds[(r % ns) as usize];
            let r = r / ns;
            let x = firsts[(r % nf) as usize];
            let shape = (r / nf) as usize;
            if x.count() + y.count() + 1 <= max {
                return None; // already covered by the exhaustive part
            }
            Some(Case { val: build2(shape, x.clone(), y.clone()), opts: o, no_len: false })
        });
        acc.notes.insert("sibling_pass".into(), json!({"first_child_max_nodes": 3, "second_child_max_nodes": ctx.tier.pick(2, 3), "parents": ARITY2, "option_vectors": sopts.len(), "cases": a.evaluations}));
        acc = acc.merge(a);
    }
    // composite-key entry pass: a mapping entry whose key is any value of up to 2 nodes and whose value is any value
    // of up to 3 nodes, at the root, as a sequence item and as a mapping value, under the layout-relevant options
    {
        // plus strings that need a block scalar with an indentation indicator / keep chomping, bare and inside each
        // one-child container
        let mut blocky: Vec<Dyn> = Vec::new();
        for t in [" l1\nl2", "l1\nl2\n\n", "\n l1", "l1 l2 l3"] {
            blocky.push(Dyn::s(t));
            for sh in 0..ARITY1.len() {
                blocky.push(build1(sh, Dyn::s(t)));
            }
        }
        let keys: Vec<&Dyn> = by.iter().take(3).flatten().chain(blocky.iter()).collect();
        let vals: Vec<&Dyn> = by.iter().take(4).flatten().chain(blocky.iter()).collect();
        let mut kopts = vec![SerOpts::default(), SerOpts { compact: true, ..SerOpts::default() }, SerOpts { indent: 4, ..SerOpts::default() }, SerOpts { wrap: 1, ..SerOpts::default() }];
        if ctx.tier == Tier::Thorough {
            kopts.extend([SerOpts { indent: 3, ..SerOpts::default() }, SerOpts { indent: 1, ..SerOpts::default() }, SerOpts { indent: 8, compact: true, ..SerOpts::default() }, SerOpts { no_empty_braces: true, ..SerOpts::default() }, SerOpts::from_bits(1)]);
        }
        let (nk, nv, no) = (keys.len() as u64, vals.len() as u64, kopts.len() as u64);
        const CONTEXTS: u64 = 4;
        let quick = ctx.tier == Tier::Quick;
        let total = CONTEXTS * nk * nv * no;
        let a = run_indexed(&p, total, |i| {
            let o = kopts[(i % no) as usize];
            let r = i / no;
            let y = vals[(r % nv) as usize];
            let r = r / nv;
            let x = keys[(r % nk) as usize];
            if quick && r / nk >= 2 && y.count() > 2 {
                return None; // quick: inside a mapping value / after a first entry, values of up to 2 nodes
            }
            let entry = Dyn::Map(vec![(x.clone(), y.clone())]);
            let val = match r / nk {
                0 => entry,
                1 => Dyn::Seq(vec![entry.clone(), entry]),
                2 => Dyn::Map(vec![(Dyn::s("k"), entry)]),
                // second entry of a mapping that is a sequence item
                _ => match vary(x) {
                    Some(x0) => Dyn::Seq(vec![Dyn::Map(vec![(x0, y.clone()), (x.clone(), y.clone())])]),
                    None => return None,
                },
            };
            Some(Case { val, opts: o, no_len: false })
        });
        acc.notes.insert("composite_key_entry_pass".into(), json!({"key_max_nodes": 2, "value_max_nodes": 3, "contexts": ["root", "sequence item (twice)", "mapping value", "second entry of a mapping that is a sequence item"], "option_vectors": no, "cases": a.evaluations}));
        acc = acc.merge(a);
    }
    // composite keys of 3 nodes over leaf values (a variant, a nested sequence or a mapping inside a composite key)
    {
        let keys3: Vec<&Dyn> = by[3].iter().collect();
        let vals1: Vec<&Dyn> = by[1].iter().collect();
        let kopts = [SerOpts::default(), SerOpts { compact: true, ..SerOpts::default() }, SerOpts { indent: 4, ..SerOpts::default() }];
        let (nk, nv, no) = (keys3.len() as u64, vals1.len() as u64, kopts.len() as u64);
        let total = 2 * nk * nv * no;
        let a = run_indexed(&p, total, |i| {
            let o = kopts[(i % no) as usize];
            let r = i / no;
            let y = vals1[(r % nv) as usize];
            let r = r / nv;
            let x = keys3[(r % nk) as usize];
            let entry = Dyn::Map(vec![(x.clone(), y.clone())]);
            let val = if r / nk == 0 { entry } else { Dyn::Seq(vec![entry.clone(), entry]) };
            Some(Case { val, opts: o, no_len: false })
        });
        acc.notes.insert("composite_key_3_nodes_pass".into(), json!({"cases": a.evaluations}));
        acc = acc.merge(a);
        // and every 4-node value as the key of one entry with an integer value (default options, compact)
        let keys4: Vec<&Dyn> = by[4.min(max)].iter().collect();
        let o4 = [SerOpts::default(), SerOpts { compact: true, ..SerOpts::default() }];
        let a = run_indexed(&p, keys4.len() as u64 * 2, |i| Some(Case { val: Dyn::Map(vec![(keys4[(i / 2) as usize].clone(), Dyn::I64(7))]), opts: o4[(i % 2) as usize], no_len: false }));
        acc.notes.insert("composite_key_4_nodes_pass".into(), json!({"cases": a.evaluations}));
        acc = acc.merge(a);
    }
    acc.samples.truncate(0);
    for v in by[max.min(4)].iter().step_by(by[max.min(4)].len() / 3 + 1) {
        acc.samples.push(json!({"value": format!("{:?}", v), "text": serde_saphyr::to_string(v).unwrap_or_default()}));
    }
    let _ = (0..1).into_par_iter().count();
    let meta = Meta {
        level: "model_checking",
        rule: "every value tree up to the node bound over 13 leaf shapes, 8 one-child and 7 two-child container shapes (all parent/child and sibling shape pairs occur from 3 nodes on), x 128 option vectors; non-trivial = a container directly inside a container".into(),
        exhaustive: true,
        bounds: json!({"max_nodes": max, "values_by_size": sizes, "option_vectors": opts.len(), "extra_option_vectors_on_<=3_nodes": extra.len(), "arity1": ARITY1, "arity2": ARITY2}),
        assumptions: vec![
            "typed read-back through a seed-driven deserializer that calls the same deserialize_* methods a derived impl calls".into(),
            "heterogeneous sequences/maps are read back as tuples/structs (same YAML), compared modulo that identification".into(),
        ],
    };
    finish(ctx, meta, acc)
}

pub fn replay_file(ctx: &Ctx, path: &str) -> i32 {
    replay(&C13, ctx, path)
}
