//! C18 — validating entry points agree with plain ones and locate every failed field.
//! Exhaustive subsets of violated constraints x provenance of each offending value, for garde and validator.
use crate::doc::*;
use crate::engine::*;
use serde::{Deserialize, Serialize};
use serde_json::json;
use serde_saphyr::Location;
use std::cell::RefCell;

// ---- the validated family, once per crate (the two `Validate` traits clash by name: separate modules)
pub mod g {
    use garde::Validate;
    use serde::Deserialize;
    #[derive(Debug, Deserialize, Validate, PartialEq, Clone)]
    #[serde(rename_all = "camelCase")]
    pub struct Root {
        #[garde(skip)]
        #[serde(default)]
        pub defs: Vec<crate::tree::Tree>,
        #[garde(length(min = 2))]
        pub first_name: String,
        #[garde(range(min = 1, max = 9))]
        pub level: i64,
        #[garde(dive)]
        pub inner: Inner,
        #[garde(dive)]
        pub items: Vec<Item>,
        #[garde(length(min = 2))]
        pub r#type: String,
        #[garde(dive)]
        #[serde(default)]
        pub opt_item: Option<Item>,
    }
    #[derive(Debug, Deserialize, Validate, PartialEq, Clone)]
    pub struct Inner {
        #[garde(length(min = 2))]
        pub code: String,
        #[garde(dive)]
        pub deep: Deep,
    }
    #[derive(Debug, Deserialize, Validate, PartialEq, Clone)]
    #[serde(rename_all = "kebab-case")]
    pub struct Deep {
        #[garde(range(min = 1))]
        pub max_count: i64,
    }
    #[derive(Debug, Deserialize, Validate, PartialEq, Clone)]
    pub struct Item {
        #[garde(length(min = 2))]
        pub tag: String,
    }
}
pub mod v {
    use serde::Deserialize;
    use validator::Validate;
    #[derive(Debug, Deserialize, Validate, PartialEq, Clone)]
    #[serde(rename_all = "camelCase")]
    pub struct Root {
        #[serde(default)]
        pub defs: Vec<crate::tree::Tree>,
        #[validate(length(min = 2))]
        pub first_name: String,
        #[validate(range(min = 1, max = 9))]
        pub level: i64,
        #[validate(nested)]
        pub inner: Inner,
        #[validate(nested)]
        pub items: Vec<Item>,
        #[validate(length(min = 2))]
        pub r#type: String,
        #[validate(nested)]
        #[serde(default)]
        pub opt_item: Option<Item>,
    }
    #[derive(Debug, Deserialize, Validate, PartialEq, Clone)]
    pub struct Inner {
        #[validate(length(min = 2))]
        pub code: String,
        #[validate(nested)]
        pub deep: Deep,
    }
    #[derive(Debug, Deserialize, Validate, PartialEq, Clone)]
    #[serde(rename_all = "kebab-case")]
    pub struct Deep {
        #[validate(range(min = 1))]
        pub max_count: i64,
    }
    #[derive(Debug, Deserialize, Validate, PartialEq, Clone)]
    pub struct Item {
        #[validate(length(min = 2))]
        pub tag: String,
    }
}

/// the six constraints: (YAML spelling of the leaf, YAML path fragments that must appear in the resolved path)
pub const NC: usize = 8;
pub const CONSTRAINTS: [(&str, &str); NC] = [
    ("firstName", "firstName"),
    ("level", "level"),
    ("code", "inner"),
    ("max-count", "deep"),
    ("tag", "items[0]"),
    ("type", "type"),
    ("tag", "items[1]"),
    ("tag", "optItem"),
];
/// provenance domain of each constraint
pub const PROV_DOMAIN: [&[u8]; NC] = [&[0, 1], &[0, 1], &[0, 1, 2, 3, 4], &[0, 1, 2, 3, 5], &[0, 1, 4], &[0, 1], &[0, 1, 4], &[0, 1, 4]];
pub const PROV_NAMES: [&str; 6] = ["inline", "alias", "merge", "alias-in-merge", "container-aliased", "struct-through-merge"];

#[derive(Clone, Debug, Serialize, Deserialize)]
pub struct Case {
    /// bit i = constraint i is violated
    pub violated: u8,
    /// provenance of each constrained value: 0 inline, 1 alias of a scalar in `defs`, 2 through a merge (only for
    /// inner.code / deep.max-count), 3 alias inside a merged mapping (same), 4 the struct holding the value is an
    /// alias of an anchored mapping in `defs` (inner, items[0], items[1], optItem)
    pub prov: [u8; NC],
    pub flow: bool,
    /// 0 garde, 1 validator
    pub krate: u8,
    /// 0 from_str, 1 from_slice, 2 from_reader
    pub entry: u8,
}

/// capturing localizer
#[derive(Default)]
struct Cap {
    events: RefCell<Vec<Ev>>,
}
#[derive(Debug, Clone)]
enum Ev {
    Base { entry: String, path: String },
    Prefix(u64, u64),
    FromAnchor(u64, u64),
    IssueLine { path: String, loc: Option<(u64, u64)> },
}
impl serde_saphyr::Localizer for Cap {
    fn validation_base_message(&self, entry: &str, resolved_path: &str) -> String {
        self.events.borrow_mut().push(Ev::Base { entry: entry.to_string(), path: resolved_path.to_string() });
        format!("validation error: {entry} for `{resolved_path}`")
    }
    fn attach_location<'a>(&self, base: std::borrow::Cow<'a, str>, loc: Location) -> std::borrow::Cow<'a, str> {
        if loc == Location::UNKNOWN {
            return base;
        }
        self.events.borrow_mut().push(Ev::Prefix(loc.line(), loc.column()));
        std::borrow::Cow::Owned(format!("{} at line {}, column {}", base, loc.line(), loc.column()))
    }
    fn snippet_location_prefix(&self, loc: Location) -> String {
        self.events.borrow_mut().push(Ev::Prefix(loc.line(), loc.column()));
        format!("line {} column {}", loc.line(), loc.column())
    }
    fn value_comes_from_the_anchor(&self, def: Location) -> String {
        self.events.borrow_mut().push(Ev::FromAnchor(def.line(), def.column()));
        format!("  | This value comes indirectly from the anchor at line {} column {}:", def.line(), def.column())
    }
    fn validation_issue_line(&self, resolved_path: &str, entry: &str, loc: Option<Location>) -> String {
        self.events.borrow_mut().push(Ev::IssueLine { path: resolved_path.to_string(), loc: loc.map(|l| (l.line(), l.column())) });
        format!("validation error at {resolved_path}: {entry}")
    }
}
pub struct Built {
    pub doc: Node,
    pub sites: Vec<Site>,
}

fn bad_good(i: usize, bad: bool) -> &'static str {
    match i {
        0 | 2 | 4 | 5 | 6 | 7 => {
            if bad {
                "x"
            } else {
                "okay"
            }
        }
        1 => {
            if bad {
                "77"
            } else {
                "5"
            }
        }
        _ => {
            if bad {
                "0"
            } else {
                "3"
            }
        }
    }
}

#[derive(Clone, Debug)]
pub enum Step {
    Key(&'static str),
    Idx(usize),
}

/// pre-order index of the node reached by `steps` (mapping: the value of the entry with that key)
fn locate(n: &Node, steps: &[Step]) -> Option<usize> {
    let mut idx = 0usize;
    let mut cur = n;
    for st in steps {
        match (&cur.kind, st) {
            (Kind::Map(entries), Step::Key(k)) => {
                let mut off = idx + 1;
                let mut found = None;
                for (kn, vn) in entries {
                    let is = matches!(&kn.kind, Kind::Scalar { text, .. } if text == k);
                    off += kn.count();
                    if is {
                        found = Some((off, vn));
                        break;
                    }
                    off += vn.count();
                }
                let (o, v) = found?;
                idx = o;
                cur = v;
            }
            (Kind::Seq(items), Step::Idx(i)) => {
                let mut off = idx + 1;
                for it in items.iter().take(*i) {
                    off += it.count();
                }
                cur = items.get(*i)?;
                idx = off;
            }
            _ => return None,
        }
    }
    Some(idx)
}

pub struct Site {
    /// where the field's value is written at the field's position (scalar, alias token, or the alias of a merge entry)
    pub own_use: Vec<Step>,
    /// where the offending scalar is defined when `own_use` is an alias / merge
    pub own_def: Option<Vec<Step>>,
    /// the alias token standing for the struct that holds the field, when that struct is an alias
    pub container_alias: Option<Vec<Step>>,
    pub through_merge: bool,
    /// further acceptable use-site tokens (the alias inside a `<<: [*a, *b]` list)
    pub extra_use: Vec<Vec<Step>>,
}

/// Build the document. Layout of the root mapping: defs (anchored scalars and mappings), firstName, level,
/// inner, items, type, optItem.
pub fn build(c: &Case) -> Built {
    use Step::*;
    let p = Node::plain;
    let val = |i: usize| p(bad_good(i, c.violated & (1 << i) != 0));
    let mut defs: Vec<Node> = Vec::new();
    let mut def_scalar: [Option<usize>; NC] = [None; NC];
    for i in 0..NC {
        if c.prov[i] == 1 {
            def_scalar[i] = Some(defs.len());
            defs.push(val(i).anchored(&format!("s{}", i)));
        }
    }
    let code_merged = c.prov[2] == 2 || c.prov[2] == 3;
    let count_merged = c.prov[3] == 2 || c.prov[3] == 3;
    let deep_merged = c.prov[3] == 5;
    let mut bm = None;
    let mut c2 = None;
    let mut c3 = None;
    let mut bi = None;
    let mut bd = None;
    if c.prov[2] == 3 {
        c2 = Some(defs.len());
        defs.push(val(2).anchored("c2"));
    }
    if c.prov[3] == 3 {
        c3 = Some(defs.len());
        defs.push(val(3).anchored("c3"));
    }
    if code_merged {
        let v = if c.prov[2] == 3 { Node::alias("c2") } else { val(2) };
        bi = Some(defs.len());
        defs.push(Node::map(vec![(p("code"), v)]).anchored("bi"));
    }
    if count_merged {
        let v = if c.prov[3] == 3 { Node::alias("c3") } else { val(3) };
        bd = Some(defs.len());
        defs.push(Node::map(vec![(p("max-count"), v)]).anchored("bd"));
    }
    let use_of = |i: usize| if c.prov[i] == 1 { Node::alias(&format!("s{}", i)) } else { val(i) };
    let deep = if count_merged { Node::map(vec![(p("<<"), Node::alias("bd"))]) } else { Node::map(vec![(p("max-count"), use_of(3))]) };
    if deep_merged {
        // the whole nested struct `deep` reaches `inner` through a merge key
        bm = Some(defs.len());
        defs.push(Node::map(vec![(p("deep"), deep.clone())]).anchored("bm"));
    }
    let mut inner_entries = Vec::new();
    match (code_merged, deep_merged) {
        (true, true) => inner_entries.push((p("<<"), Node::seq(vec![Node::alias("bi"), Node::alias("bm")]).flowed())),
        (true, false) => inner_entries.push((p("<<"), Node::alias("bi"))),
        (false, true) => inner_entries.push((p("<<"), Node::alias("bm"))),
        (false, false) => {}
    }
    if !code_merged {
        inner_entries.push((p("code"), use_of(2)));
    }
    if !deep_merged {
        inner_entries.push((p("deep"), deep));
    }
    let inner_node = Node::map(inner_entries);
    // containers
    let mut cont_def: [Option<usize>; NC] = [None; NC];
    let mut place = |i: usize, node: Node, name: &str, defs: &mut Vec<Node>| -> Node {
        if c.prov[i] == 4 {
            cont_def[i] = Some(defs.len());
            defs.push(node.anchored(name));
            Node::alias(name)
        } else {
            node
        }
    };
    let inner_placed = place(2, inner_node, "in", &mut defs);
    let item0 = place(4, Node::map(vec![(p("tag"), use_of(4))]), "i0", &mut defs);
    let item1 = place(6, Node::map(vec![(p("tag"), use_of(6))]), "i1", &mut defs);
    let opt = place(7, Node::map(vec![(p("tag"), use_of(7))]), "io", &mut defs);
    let mut root = Vec::new();
    if !defs.is_empty() {
        root.push((p("defs"), Node::seq(defs)));
    }
    root.push((p("firstName"), use_of(0)));
    root.push((p("level"), use_of(1)));
    root.push((p("inner"), inner_placed));
    root.push((p("items"), Node::seq(vec![item0, item1])));
    root.push((p("type"), use_of(5)));
    root.push((p("optItem"), opt));
    let mut doc = Node::map(root);
    if c.flow {
        doc = doc.with_flow_inside();
    }
    // sites
    let d = |j: usize| vec![Key("defs"), Idx(j)];
    let with = |mut base: Vec<Step>, more: &[Step]| {
        base.extend_from_slice(more);
        base
    };
    let container_path = |i: usize, in_place: Vec<Step>| -> (Vec<Step>, Option<Vec<Step>>) {
        match cont_def[i] {
            Some(j) => (d(j), Some(in_place)),
            None => (in_place, None),
        }
    };
    let mut sites: Vec<Site> = Vec::new();
    for i in 0..NC {
        let (cont, cont_alias, leaf): (Vec<Step>, Option<Vec<Step>>, &'static str) = match i {
            0 => (vec![], None, "firstName"),
            1 => (vec![], None, "level"),
            2 => {
                let (a, b) = container_path(2, vec![Key("inner")]);
                (a, b, "code")
            }
            3 => {
                let (a, b) = container_path(2, vec![Key("inner")]);
                (if deep_merged { a } else { with(a, &[Key("deep")]) }, b, "max-count")
            }
            4 => {
                let (a, b) = container_path(4, vec![Key("items"), Idx(0)]);
                (a, b, "tag")
            }
            5 => (vec![], None, "type"),
            6 => {
                let (a, b) = container_path(6, vec![Key("items"), Idx(1)]);
                (a, b, "tag")
            }
            _ => {
                let (a, b) = container_path(7, vec![Key("optItem")]);
                (a, b, "tag")
            }
        };
        let merged = (i == 2 && code_merged) || (i == 3 && (count_merged || deep_merged));
        let own_use = if merged { with(cont.clone(), &[Key("<<")]) } else { with(cont.clone(), &[Key(leaf)]) };
        let own_def = match (i, c.prov[i]) {
            (_, 1) => Some(d(def_scalar[i].unwrap())),
            (2, 2) => Some(with(d(bi.unwrap()), &[Key("code")])),
            (2, 3) => Some(d(c2.unwrap())),
            (3, 2) => Some(with(d(bd.unwrap()), &[Key("max-count")])),
            (3, 3) => Some(d(c3.unwrap())),
            (3, 5) => Some(with(d(bm.unwrap()), &[Key("deep"), Key("max-count")])),
            _ => None,
        };
        let mut extra_use = Vec::new();
        if merged && code_merged && deep_merged {
            extra_use.push(with(own_use.clone(), &[Idx(if i == 2 { 0 } else { 1 })]));
        }
        sites.push(Site { own_use, own_def, container_alias: cont_alias, through_merge: merged, extra_use });
    }
    Built { doc, sites }
}

pub struct C18;

enum Out {
    Ok(String),
    /// (is the validation variant, captured events, rendered, Error::locations() of the first issue)
    Err(bool, Vec<Ev>, String, Option<((u64, u64), (u64, u64))>),
}

fn run_valid(c: &Case, text: &str) -> Result<(Out, Result<String, String>), String> {
    fn handle<T: std::fmt::Debug>(r: Result<T, serde_saphyr::Error>, is_validation: impl Fn(&serde_saphyr::Error) -> bool) -> Out {
        match r {
            Ok(v) => Out::Ok(format!("{:?}", v)),
            Err(e) => {
                let cap = Cap::default();
                let fmt = serde_saphyr::DefaultMessageFormatter.with_localizer(&cap);
                let rendered = e.render_with_formatter(&fmt);
                let evs = cap.events.borrow().clone();
                let locs = e.locations().map(|l| ((l.reference_location.line(), l.reference_location.column()), (l.defined_location.line(), l.defined_location.column())));
                Out::Err(is_validation(&e), evs, rendered, locs)
            }
        }
    }
    guarded(|| {
        let bytes = text.as_bytes();
        if c.krate == 0 {
            let isv = |e: &serde_saphyr::Error| matches!(e.without_snippet(), serde_saphyr::Error::ValidationError { .. });
            let plain = serde_saphyr::from_str::<g::Root>(text).map(|v| format!("{:?}", v)).map_err(|e| e.to_string());
            let out = match c.entry {
                0 => handle(serde_saphyr::from_str_valid::<g::Root>(text), isv),
                1 => handle(serde_saphyr::from_slice_valid::<g::Root>(bytes), isv),
                _ => handle(serde_saphyr::from_reader_valid::<_, g::Root>(std::io::Cursor::new(bytes.to_vec())), isv),
            };
            (out, plain)
        } else {
            let isv = |e: &serde_saphyr::Error| matches!(e.without_snippet(), serde_saphyr::Error::ValidatorError { .. });
            let plain = serde_saphyr::from_str::<v::Root>(text).map(|v| format!("{:?}", v)).map_err(|e| e.to_string());
            let out = match c.entry {
                0 => handle(serde_saphyr::from_str_validate::<v::Root>(text), isv),
                1 => handle(serde_saphyr::from_slice_validate::<v::Root>(bytes), isv),
                _ => handle(serde_saphyr::from_reader_validate::<_, v::Root>(std::io::Cursor::new(bytes.to_vec())), isv),
            };
            (out, plain)
        }
    })
}

impl Prop for C18 {
    type Case = Case;
    fn check(&self, c: &Case) -> Verdict {
        let mut v = Verdict::default();
        let b = build(c);
        let r = render(&b.doc, &Layout::default());
        if validate(&b.doc, &r.text) != Validity::Ok {
            v.rejected = true;
            return v;
        }
        let (out, plain) = match run_valid(c, &r.text) {
            Ok(x) => x,
            Err(p) => {
                v.fail("panic", format!("{:?}: {}", r.text, p));
                return v;
            }
        };
        v.execs = 2;
        v.compared = 1;
        let indirect = (0..6).any(|i| c.violated & (1 << i) != 0 && c.prov[i] != 0);
        v.nontrivial = indirect;
        if indirect {
            v.classes.push("violation_reached_indirectly");
        }
        v.outcome = hash64(&(c.violated, matches!(out, Out::Ok(_))));
        let what = format!("{:?} via {} ({})", r.text, ["from_str", "from_slice", "from_reader"][c.entry as usize], ["garde", "validator"][c.krate as usize]);
        match (c.violated, out) {
            (0, Out::Ok(val)) => {
                if Ok(val.clone()) != plain {
                    v.fail("valid_value_differs_from_plain", format!("{}: validating entry point gives {} but the plain one {:?}", what, val, plain));
                }
            }
            (0, Out::Err(_, _, rendered, _)) => v.fail("valid_document_rejected", format!("{}: {}", what, rendered)),
            (_, Out::Ok(val)) => v.fail("violations_not_reported", format!("{}: constraints {:#08b} are violated but got Ok({})", what, c.violated, val)),
            (_, Out::Err(is_validation, evs, rendered, first_locs)) => {
                if !is_validation {
                    v.fail("not_a_validation_error", format!("{}: {}", what, rendered));
                    return v;
                }
                // issues: Base followed by its Prefix / FromAnchor events (snippet rendering), or IssueLine (plain)
                #[derive(Debug)]
                struct Issue {
                    path: String,
                    used: Option<(u64, u64)>,
                    defined: Option<(u64, u64)>,
                }
                let mut issues: Vec<Issue> = Vec::new();
                for e in &evs {
                    match e {
                        Ev::Base { path, .. } => issues.push(Issue { path: path.clone(), used: None, defined: None }),
                        Ev::IssueLine { path, loc } => issues.push(Issue { path: path.clone(), used: *loc, defined: None }),
                        Ev::Prefix(l, col) => {
                            if let Some(i) = issues.last_mut() {
                                if i.used.is_none() {
                                    i.used = Some((*l, *col));
                                } else if i.defined.is_none() {
                                    i.defined = Some((*l, *col));
                                }
                            }
                        }
                        Ev::FromAnchor(l, col) => {
                            if let Some(i) = issues.last_mut() {
                                i.defined = Some((*l, *col));
                            }
                        }
                    }
                }
                let n_viol = c.violated.count_ones() as usize;
                v.compared += n_viol as u32;
                if issues.len() != n_viol {
                    v.fail("wrong_number_of_issues", format!("{}: {} constraints violated but {} issues reported: {:?}\n{}", what, n_viol, issues.len(), issues, rendered));
                    return v;
                }
                for i in 0..NC {
                    if c.violated & (1 << i) == 0 {
                        continue;
                    }
                    let (leaf, frag) = CONSTRAINTS[i];
                    // the leaf is reported in its YAML spelling; inner segments may keep the Rust spelling
                    let norm = |x: &str| x.chars().filter(|ch| ch.is_ascii_alphanumeric() || *ch == '[' || *ch == ']').map(|ch| ch.to_ascii_lowercase()).collect::<String>();
                    let issue = issues.iter().find(|is| is.path.ends_with(leaf) && norm(&is.path).contains(&norm(frag)));
                    let issue = match issue {
                        Some(x) => x,
                        None => {
                            v.fail("issue_path_not_in_yaml_spelling", format!("{}: no issue whose path ends in `{}` (and mentions `{}`): {:?}", what, leaf, frag, issues.iter().map(|x| &x.path).collect::<Vec<_>>()));
                            return v;
                        }
                    };
                    let site = &b.sites[i];
                    let at = |steps: &Vec<Step>| -> (u64, u64) {
                        let idx = locate(&b.doc, steps).expect("site path");
                        let pp = r.pos_of(r.nodes[idx].content);
                        (pp.line as u64, pp.col as u64)
                    };
                    let key_of = |steps: &Vec<Step>| -> (u64, u64) {
                        // the key token of the entry whose value `steps` denotes (pre-order: key right before value)
                        let idx = locate(&b.doc, steps).expect("site path");
                        let pp = r.pos_of(r.nodes[idx - 1].content);
                        (pp.line as u64, pp.col as u64)
                    };
                    let own_use = at(&site.own_use);
                    let literal = site.own_def.as_ref().map(|d| at(d)).unwrap_or(own_use);
                    let mut ok_use = vec![own_use];
                    if site.through_merge {
                        ok_use.push(key_of(&site.own_use));
                    }
                    for x in &site.extra_use {
                        ok_use.push(at(x));
                    }
                    if let Some(ca) = &site.container_alias {
                        // the struct holding the field is itself an alias: the field is "used" at that alias token;
                        // the position inside the anchored mapping is accepted as well
                        ok_use.push(at(ca));
                    }
                    match issue.used {
                        Some(u) if ok_use.contains(&u) => {}
                        other => {
                            v.fail("issue_use_site", format!("{}: `{}` is used at line/column {:?} but the issue reports {:?}\n{}", what, issue.path, ok_use, other, rendered));
                            return v;
                        }
                    }
                    // the offending literal itself must be one of the reported positions
                    let indirect = site.own_def.is_some() || site.container_alias.is_some();
                    if n_viol == 1 {
                        // Error::locations() describes the (only) issue: the same demands on the error value itself
                        match first_locs {
                            Some((u, d)) => {
                                if !ok_use.contains(&u) {
                                    v.fail("locations_use_site", format!("{}: `{}` is used at line/column {:?} but Error::locations() gives reference {:?}", what, issue.path, ok_use, u));
                                    return v;
                                }
                                if (indirect && d != literal && u != literal) || (site.own_def.is_some() && d != literal) || (!indirect && d != own_use) {
                                    v.fail("locations_definition_site", format!("{}: the value of `{}` is written at line/column {:?} but Error::locations() gives reference {:?} definition {:?}", what, issue.path, literal, u, d));
                                    return v;
                                }
                            }
                            None => {
                                v.fail("locations_missing", format!("{}: Error::locations() is None for a validation error on `{}`", what, issue.path));
                                return v;
                            }
                        }
                    }
                    if c.entry == 2 {
                        // no source text: the plain message carries the use site only (checked above); the definition
                        // site is observable through Error::locations() for the first issue only
                        continue;
                    }
                    if indirect {
                        let reported: Vec<(u64, u64)> = issue.used.iter().chain(issue.defined.iter()).cloned().collect();
                        if !reported.contains(&literal) {
                            v.fail(
                                "issue_definition_site",
                                format!("{}: the value of `{}` is written at line/column {:?} (reached indirectly) but the issue reports use {:?} definition {:?}\n{}", what, issue.path, literal, issue.used, issue.defined, rendered),
                            );
                            return v;
                        }
                        if site.own_def.is_some() && issue.defined != Some(literal) {
                            v.fail(
                                "issue_definition_site",
                                format!("{}: `{}` comes from the anchored node at line/column {:?} but the issue reports definition {:?}\n{}", what, issue.path, literal, issue.defined, rendered),
                            );
                            return v;
                        }
                    } else if let Some(dd) = issue.defined {
                        if dd != own_use {
                            v.fail("issue_definition_site", format!("{}: `{}` is written in place at {:?} but the issue reports a definition at {:?}\n{}", what, issue.path, own_use, dd, rendered));
                            return v;
                        }
                    }
                }
            }
        }
        v
    }
    fn shrink(&self, c: &Case) -> Vec<Case> {
        let mut out = Vec::new();
        for i in 0..NC {
            if c.violated & (1 << i) != 0 && c.violated.count_ones() > 1 {
                out.push(Case { violated: c.violated & !(1 << i), ..c.clone() });
            }
            if c.prov[i] != 0 {
                let mut p = c.prov;
                p[i] = 0;
                out.push(Case { prov: p, ..c.clone() });
            }
        }
        if c.flow {
            out.push(Case { flow: false, ..c.clone() });
        }
        if c.entry != 0 {
            out.push(Case { entry: 0, ..c.clone() });
        }
        out
    }
    fn key(&self, c: &Case, clause: &str) -> String {
        let names: Vec<String> = (0..NC).filter(|i| c.violated & (1 << i) != 0).map(|i| format!("{}:{}", CONSTRAINTS[i].0, PROV_NAMES[c.prov[i] as usize])).collect();
        let others: Vec<String> = (0..NC).filter(|i| c.violated & (1 << i) == 0 && c.prov[*i] != 0).map(|i| format!("{}:{}", CONSTRAINTS[i].0, PROV_NAMES[c.prov[i] as usize])).collect();
        format!("{}|violated=[{}]|other_indirect=[{}]|{}|{}|{}", clause, names.join(","), others.join(","), if c.flow { "flow" } else { "block" }, ["garde", "validator"][c.krate as usize], ["from_str", "from_slice", "from_reader"][c.entry as usize])
    }
}

/// streams: every subset of failing documents must be reported
fn stream_pass(acc: &mut Acc, n_docs: usize) {
    let good = Case { violated: 0, prov: [0; NC], flow: false, krate: 0, entry: 0 };
    let bad = Case { violated: 0b000101, prov: [0, 0, 1, 0, 0, 0, 0, 0], flow: false, krate: 0, entry: 0 };
    for mask in 0..(1u32 << n_docs) {
        for krate in 0..2u8 {
            let mut text = String::new();
            for d in 0..n_docs {
                text.push_str("---\n");
                let c = if mask & (1 << d) != 0 { &bad } else { &good };
                text.push_str(&render_default(&build(c).doc));
            }
            let n_bad = mask.count_ones() as usize;
            acc.evaluations += 1;
            acc.execs += 1;
            acc.compared += 1;
            if n_bad >= 1 {
                acc.nontrivial += 1;
            }
            acc.class("stream", 1);
            let res: Result<Result<usize, (bool, usize, String)>, String> = guarded(|| {
                if krate == 0 {
                    match serde_saphyr::from_multiple_valid::<g::Root>(&text) {
                        Ok(v) => Ok(v.len()),
                        Err(e) => match e.without_snippet() {
                            serde_saphyr::Error::ValidationErrors { errors } => Err((true, errors.len(), e.to_string())),
                            serde_saphyr::Error::ValidationError { .. } => Err((true, 1, e.to_string())),
                            _ => Err((false, 0, e.to_string())),
                        },
                    }
                } else {
                    match serde_saphyr::from_multiple_validate::<v::Root>(&text) {
                        Ok(v) => Ok(v.len()),
                        Err(e) => match e.without_snippet() {
                            serde_saphyr::Error::ValidatorErrors { errors } => Err((true, errors.len(), e.to_string())),
                            serde_saphyr::Error::ValidatorError { .. } => Err((true, 1, e.to_string())),
                            _ => Err((false, 0, e.to_string())),
                        },
                    }
                }
            });
            let key = |clause: &str| format!("{}|stream of {} documents, failing mask {:#b}|{}", clause, n_docs, mask, ["garde", "validator"][krate as usize]);
            // the streaming iterators: one item per document, Err exactly for the failing ones, in order
            {
                let items: Result<Vec<bool>, String> = guarded(|| {
                    let mut rd = std::io::Cursor::new(text.as_bytes().to_vec());
                    if krate == 0 {
                        serde_saphyr::read_valid::<_, g::Root>(&mut rd).take(n_docs + 2).map(|r| r.is_ok()).collect()
                    } else {
                        serde_saphyr::read_validate::<_, v::Root>(&mut rd).take(n_docs + 2).map(|r| r.is_ok()).collect()
                    }
                });
                acc.execs += 1;
                acc.compared += 1;
                let want: Vec<bool> = (0..n_docs).map(|d| mask & (1 << d) == 0).collect();
                match items {
                    Err(p) => acc.add_violation(key("panic_iterator"), "panic", p, json!({"mask": mask, "n": n_docs}), json!({})),
                    Ok(got) => {
                        if got != want {
                            acc.add_violation(
                                key("iterator_items_differ"),
                                "iterator_items_differ",
                                format!("validating iterator yields Ok/Err pattern {:?}, the documents are valid/invalid as {:?}", got, want),
                                json!({"mask": mask, "n": n_docs}),
                                json!({}),
                            );
                        }
                    }
                }
            }
            match res {
                Err(p) => acc.add_violation(key("panic"), "panic", p, json!({"mask": mask, "n": n_docs}), json!({})),
                Ok(Ok(n)) => {
                    if n_bad > 0 || n != n_docs {
                        acc.add_violation(key("stream_violations_not_reported"), "stream_violations_not_reported", format!("{} failing documents but got Ok with {} values", n_bad, n), json!({"mask": mask, "n": n_docs}), json!({}));
                    }
                }
                Ok(Err((is_val, n, msg))) => {
                    if n_bad == 0 {
                        acc.add_violation(key("valid_stream_rejected"), "valid_stream_rejected", msg, json!({"mask": mask, "n": n_docs}), json!({}));
                    } else if !is_val || n != n_bad {
                        acc.add_violation(
                            key("not_every_failing_document_reported"),
                            "not_every_failing_document_reported",
                            format!("{} of {} documents fail validation but {} are reported: {}", n_bad, n_docs, n, msg.lines().next().unwrap_or("")),
                            json!({"mask": mask, "n": n_docs}),
                            json!({}),
                        );
                    }
                }
            }
        }
    }
}

pub fn run(ctx: &Ctx) -> i32 {
    let p = C18;
    let mut cases = Vec::new();
    // provenance vectors: the full product of the per-constraint domains in thorough; in quick the scalars
    // (firstName, level, type) share one choice and the items / optItem share one
    let mut provs: Vec<[u8; NC]> = Vec::new();
    if ctx.tier == Tier::Thorough {
        let total: usize = PROV_DOMAIN.iter().map(|d| d.len()).product();
        for m in 0..total {
            let mut x = m;
            let mut pv = [0u8; NC];
            for i in 0..NC {
                pv[i] = PROV_DOMAIN[i][x % PROV_DOMAIN[i].len()];
                x /= PROV_DOMAIN[i].len();
            }
            provs.push(pv);
        }
    } else {
        for a in [0u8, 1] {
            for b in PROV_DOMAIN[2] {
                for cc in PROV_DOMAIN[3] {
                    for d in PROV_DOMAIN[4] {
                        provs.push([a, a, *b, *cc, *d, a, *d, *d]);
                    }
                }
            }
        }
    }
    let subsets: Vec<u16> = (0..(1u16 << NC)).collect();
    for &violated in &subsets {
        let violated = violated as u8;
        for pv in &provs {
            for flow in [false, true] {
                for krate in 0..2u8 {
                    for entry in 0..3u8 {
                        if ctx.tier == Tier::Quick && entry != 0 && (flow || violated.count_ones() > 2) {
                            continue;
                        }
                        if ctx.tier == Tier::Thorough && entry == 1 && violated.count_ones() > 2 {
                            continue; // from_slice delegates to from_str: only up to two violations
                        }
                        cases.push(Case { violated, prov: *pv, flow, krate, entry });
                    }
                }
            }
        }
    }
    if std::env::var("VERIF_C18_DEBUG").is_ok() {
        for c in [Case { violated: 0b001101, prov: [1, 0, 3, 2, 0, 0, 0, 0], flow: false, krate: 0, entry: 0 }, Case { violated: 0b11011100, prov: [0, 0, 4, 1, 4, 0, 4, 4], flow: false, krate: 1, entry: 0 }] {
            let b = build(&c);
            let r = render(&b.doc, &Layout::default());
            println!("{}", r.text);
            if let Ok((Out::Err(_, evs, rendered, _), _)) = run_valid(&c, &r.text) {
                println!("{}\n{:?}", rendered, evs);
            }
            println!("verdict: {:?}", p.check(&c).fail.map(|f| f.detail));
        }
    }
    let mut acc = run_list(&p, &cases);
    stream_pass(&mut acc, ctx.tier.pick(3, 4));
    acc.samples.truncate(0);
    let sample = Case { violated: 0b001101, prov: [1, 0, 3, 2, 0, 0, 4, 0], flow: false, krate: 0, entry: 0 };
    acc.samples.push(json!({"case": sample, "document": render_default(&build(&sample).doc)}));
    let meta = Meta {
        level: "model_checking",
        rule: "every subset of the 8 constraints violated (2^8) x provenance vectors (inline / alias / merge / alias inside a merged mapping per offending value) x block|flow x garde|validator x from_str|from_slice|from_reader; plus streams with every subset of failing documents; non-trivial = at least one violated constraint is reached through an alias or a merge".into(),
        exhaustive: true,
        bounds: json!({"constraints": CONSTRAINTS.iter().map(|c| c.0).collect::<Vec<_>>(), "provenance_vectors": provs.len(), "stream_len": ctx.tier.pick(3, 4)}),
        assumptions: vec![
            "reported paths and locations are observed through a capturing Localizer (validation_base_message / snippet_location_prefix / value_comes_from_the_anchor / validation_issue_line)".into(),
            "for a value reached through a merge the use site may be either token of the merge entry (the `<<` key or its alias value)".into(),
        ],
    };
    finish(ctx, meta, acc)
}

pub fn replay_file(ctx: &Ctx, path: &str) -> i32 {
    replay(&C18, ctx, path)
}
