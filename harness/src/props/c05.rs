//! C05 — typed deserialization is position-faithful; shape mismatches are errors.
//! Schemas (run-time type descriptions) x canonical documents x all single-edit mutants,
//! compared with a reference interpreter over the document tree (validated against raw parser events).
use crate::doc::*;
use crate::dynv::*;
use crate::engine::*;
use serde::{Deserialize, Serialize};
use serde_json::json;

#[derive(Clone, Debug, Serialize, Deserialize)]
pub struct Case {
    pub ty: Ty,
    pub doc: Node,
    /// how the document was derived from a canonical one
    pub mutation: String,
    /// 0 block, 1 flow
    pub layout: u8,
}

// ---------------------------------------------------------------------------------------------
// reference interpreter

#[derive(Clone, Debug, PartialEq)]
pub enum Ref {
    Val(Dyn),
    Err(String),
    /// the documentation / property statement is silent here
    Unspec,
}

fn is_nullish(n: &Node) -> bool {
    n.tag.is_none() && matches!(&n.kind, Kind::Scalar { text, style: Style::Plain } if text.is_empty() || text == "~" || text == "null")
}

fn plain_text(n: &Node) -> Option<&str> {
    match &n.kind {
        Kind::Scalar { text, style: Style::Plain } if n.tag.is_none() => Some(text),
        _ => None,
    }
}

/// combine children: first definite error wins, then Unspec, else values
fn all_vals(rs: Vec<Ref>) -> Result<Vec<Dyn>, Ref> {
    if let Some(e) = rs.iter().find(|r| matches!(r, Ref::Err(_))) {
        return Err(e.clone());
    }
    if rs.iter().any(|r| matches!(r, Ref::Unspec)) {
        return Err(Ref::Unspec);
    }
    Ok(rs.into_iter().map(|r| if let Ref::Val(v) = r { v } else { unreachable!() }).collect())
}

pub fn eval(ty: &Ty, n: &Node) -> Ref {
    // tags: only the enum `!Variant` notation is modelled; any other tagged node is unspecified
    // (an Option passes the node on to its payload type: `!U` for Option<E> is Some(U), not a null)
    if n.tag.is_some() && !matches!(ty, Ty::Enum { .. } | Ty::Option(_)) {
        return Ref::Unspec;
    }
    match ty {
        Ty::Bool => match &n.kind {
            Kind::Seq(_) | Kind::Map(_) => Ref::Err("container for bool".into()),
            _ => match plain_text(n) {
                Some("true") => Ref::Val(Dyn::Bool(true)),
                Some("false") => Ref::Val(Dyn::Bool(false)),
                Some(t) if t.starts_with('t') && t.len() > 1 && t[1..].bytes().all(|b| b.is_ascii_digit()) => Ref::Err("word for bool".into()),
                Some(t) if !t.is_empty() && t.bytes().all(|b| b.is_ascii_digit()) && t.len() >= 2 => Ref::Err("number for bool".into()),
                _ => Ref::Unspec,
            },
        },
        Ty::I64 => match &n.kind {
            Kind::Seq(_) | Kind::Map(_) => Ref::Err("container for i64".into()),
            _ => match plain_text(n) {
                Some(t) if !t.is_empty() && t.len() < 10 && t.bytes().all(|b| b.is_ascii_digit()) && !(t.len() > 1 && t.starts_with('0')) => {
                    Ref::Val(Dyn::I64(t.parse().unwrap()))
                }
                Some(t) if t.starts_with('t') && t.len() > 1 && t[1..].bytes().all(|b| b.is_ascii_digit()) => Ref::Err("word for i64".into()),
                Some("true") | Some("false") => Ref::Err("bool for i64".into()),
                _ => Ref::Unspec,
            },
        },
        Ty::Str => match &n.kind {
            Kind::Seq(_) | Kind::Map(_) => Ref::Err("container for string".into()),
            Kind::Scalar { text, style } => {
                if *style != Style::Plain {
                    Ref::Val(Dyn::Str(text.clone()))
                } else if is_nullish(n) {
                    Ref::Err("null for string".into())
                } else {
                    Ref::Val(Dyn::Str(text.clone()))
                }
            }
            Kind::Alias(_) => Ref::Unspec,
        },
        Ty::Unit => {
            if is_nullish(n) {
                Ref::Val(Dyn::Unit)
            } else if n.is_collection() {
                Ref::Err("container for unit".into())
            } else {
                Ref::Unspec
            }
        }
        Ty::Option(t) => {
            if is_nullish(n) {
                Ref::Val(Dyn::None)
            } else {
                match eval(t, n) {
                    Ref::Val(v) => Ref::Val(Dyn::Some(Box::new(v))),
                    other => other,
                }
            }
        }
        Ty::Seq(t) => match &n.kind {
            Kind::Seq(items) => match all_vals(items.iter().map(|i| eval(t, i)).collect()) {
                Ok(v) => Ref::Val(Dyn::Seq(v)),
                Err(r) => r,
            },
            Kind::Map(_) => Ref::Err("mapping for sequence".into()),
            _ => {
                if is_nullish(n) {
                    Ref::Unspec
                } else {
                    Ref::Err("scalar for sequence".into())
                }
            }
        },
        Ty::Tuple(ts) => match &n.kind {
            Kind::Seq(items) => {
                if items.len() != ts.len() {
                    return Ref::Err(format!("tuple arity {} vs {}", ts.len(), items.len()));
                }
                match all_vals(ts.iter().zip(items).map(|(t, i)| eval(t, i)).collect()) {
                    Ok(v) => Ref::Val(Dyn::Tuple(v)),
                    Err(r) => r,
                }
            }
            Kind::Map(_) => Ref::Err("mapping for tuple".into()),
            _ => {
                if is_nullish(n) {
                    Ref::Unspec
                } else {
                    Ref::Err("scalar for tuple".into())
                }
            }
        },
        Ty::Map(kt, vt) => match &n.kind {
            Kind::Map(es) => {
                let mut keys = Vec::new();
                for (k, _) in es {
                    if k.tag.is_none() && k.is_scalar() {
                        if let Kind::Scalar { text, .. } = &k.kind {
                            if keys.contains(text) {
                                return Ref::Err("duplicate key".into());
                            }
                            keys.push(text.clone());
                        }
                    }
                }
                if es.iter().any(|(k, _)| plain_text(k) == Some("<<")) {
                    return Ref::Unspec;
                }
                let mut rs = Vec::new();
                for (k, v) in es {
                    rs.push(eval(kt, k));
                    rs.push(eval(vt, v));
                }
                match all_vals(rs) {
                    Ok(v) => {
                        let mut out = Vec::new();
                        let mut it = v.into_iter();
                        while let (Some(a), Some(b)) = (it.next(), it.next()) {
                            out.push((a, b));
                        }
                        Ref::Val(Dyn::Map(out))
                    }
                    Err(r) => r,
                }
            }
            Kind::Seq(_) => Ref::Err("sequence for mapping".into()),
            _ => {
                if is_nullish(n) {
                    Ref::Unspec
                } else {
                    Ref::Err("scalar for mapping".into())
                }
            }
        },
        Ty::Struct { name, fields, deny_unknown } => match &n.kind {
            Kind::Map(es) => match eval_fields(fields, *deny_unknown, es) {
                Ok(v) => Ref::Val(Dyn::Struct(name.clone(), v)),
                Err(r) => r,
            },
            Kind::Seq(_) => Ref::Unspec,
            _ => {
                if is_nullish(n) {
                    Ref::Unspec
                } else {
                    Ref::Err("scalar for struct".into())
                }
            }
        },
        Ty::Enum { name, variants } => eval_enum(name, variants, n),
        _ => Ref::Unspec,
    }
}

fn eval_fields(fields: &[(String, Ty)], deny: bool, es: &[(Node, Node)]) -> Result<Vec<(String, Dyn)>, Ref> {
    let mut slots: Vec<Option<Ref>> = vec![None; fields.len()];
    let mut unspec = false;
    let mut seen_keys: Vec<String> = Vec::new();
    for (k, _) in es {
        if let Kind::Scalar { text, .. } = &k.kind {
            if k.tag.is_none() {
                if seen_keys.contains(text) {
                    return Err(Ref::Err("duplicate mapping key".into()));
                }
                seen_keys.push(text.clone());
            }
        }
    }
    for (k, v) in es {
        if is_nullish(k) {
            // a null key for a struct: not a field name; whether it is skipped or rejected is not stated
            unspec = true;
            continue;
        }
        let name = match &k.kind {
            Kind::Scalar { text, .. } if k.tag.is_none() => text.clone(),
            Kind::Scalar { .. } => {
                unspec = true;
                continue;
            }
            _ => return Err(Ref::Err("non-scalar key for struct".into())),
        };
        if name == "<<" && plain_text(k).is_some() {
            unspec = true;
            continue;
        }
        match fields.iter().position(|(f, _)| *f == name) {
            Some(i) => {
                if slots[i].is_some() {
                    return Err(Ref::Err("duplicate field".into()));
                }
                slots[i] = Some(eval(&fields[i].1, v));
            }
            None => {
                if deny {
                    return Err(Ref::Err(format!("unknown field {}", name)));
                }
            }
        }
    }
    let mut rs = Vec::new();
    for (i, (_, t)) in fields.iter().enumerate() {
        match slots[i].take() {
            Some(r) => rs.push(r),
            None => match t {
                Ty::Option(_) => rs.push(Ref::Val(Dyn::None)),
                _ => return Err(Ref::Err("missing field".into())),
            },
        }
    }
    if unspec {
        if let Some(e) = rs.iter().find(|r| matches!(r, Ref::Err(_))) {
            return Err(e.clone());
        }
        return Err(Ref::Unspec);
    }
    let vals = all_vals(rs)?;
    Ok(fields.iter().map(|(n, _)| n.clone()).zip(vals).collect())
}

fn eval_payload(name: &str, idx: usize, vn: &str, vt: &VarTy, payload: &Node) -> Ref {
    let mk = |val: VarVal| Ref::Val(Dyn::Variant { enum_name: name.to_string(), index: idx as u32, variant: vn.to_string(), val });
    match vt {
        VarTy::Unit => {
            if is_nullish(payload) {
                mk(VarVal::Unit)
            } else if matches!(payload.kind, Kind::Alias(_)) || (payload.tag.is_some() && is_nullish(&Node { tag: None, ..payload.clone() })) {
                // a null-like payload carrying a tag: what the tag makes of it is not specified
                Ref::Unspec
            } else {
                // a value where a unit is expected is a kind mismatch (a quoted empty string is a string)
                Ref::Err("payload for a unit variant".into())
            }
        }
        VarTy::Newtype(t) => match eval(t, payload) {
            Ref::Val(v) => mk(VarVal::Newtype(Box::new(v))),
            o => o,
        },
        VarTy::Tuple(ts) => match eval(&Ty::Tuple(ts.clone()), payload) {
            Ref::Val(Dyn::Tuple(v)) => mk(VarVal::Tuple(v)),
            Ref::Val(_) => Ref::Unspec,
            o => o,
        },
        VarTy::Struct(fs) => match &payload.kind {
            Kind::Map(es) => match eval_fields(fs, false, es) {
                Ok(v) => mk(VarVal::Struct(v)),
                Err(r) => r,
            },
            Kind::Seq(_) => Ref::Unspec,
            _ => {
                if is_nullish(payload) || (payload.tag.is_some() && is_nullish(&Node { tag: None, ..payload.clone() })) {
                    Ref::Unspec
                } else {
                    Ref::Err("scalar for struct variant".into())
                }
            }
        },
    }
}

fn eval_enum(name: &str, variants: &[(String, VarTy)], n: &Node) -> Ref {
    // `!Variant payload`
    if let Some(tag) = &n.tag {
        let suffix = tag.trim_start_matches('!');
        if tag.starts_with("!!") || suffix.is_empty() {
            return Ref::Unspec;
        }
        return match variants.iter().position(|(v, _)| v == suffix) {
            None => Ref::Unspec, // a tag that names no variant: how it is treated is not stated
            Some(i) => {
                let mut p = n.clone();
                p.tag = None;
                // documented tagged forms: `!Variant scalar` (newtype payload) and `!Variant [..]` (tuple payload);
                // a tagged mapping is not a documented notation
                if matches!(p.kind, Kind::Map(_)) {
                    return Ref::Unspec;
                }
                match &variants[i].1 {
                    // `!U` alone (or with a null) is the unit variant; any other payload is a kind mismatch, as in
                    // the mapping notation
                    VarTy::Unit => {
                        if is_nullish(&p) {
                            Ref::Val(Dyn::Variant { enum_name: name.to_string(), index: i as u32, variant: variants[i].0.clone(), val: VarVal::Unit })
                        } else if matches!(p.kind, Kind::Alias(_)) {
                            Ref::Unspec
                        } else {
                            Ref::Err("payload for a tagged unit variant".into())
                        }
                    }
                    vt => eval_payload(name, i, &variants[i].0, vt, &p),
                }
            }
        };
    }
    match &n.kind {
        Kind::Scalar { text, .. } => {
            if is_nullish(n) {
                return Ref::Unspec;
            }
            match variants.iter().position(|(v, _)| v == text) {
                None => Ref::Err(format!("unknown variant {}", text)),
                Some(i) => match &variants[i].1 {
                    VarTy::Unit => Ref::Val(Dyn::Variant { enum_name: name.to_string(), index: i as u32, variant: text.clone(), val: VarVal::Unit }),
                    // payload-carrying variant written as a bare scalar: its own value is unspecified
                    _ => Ref::Unspec,
                },
            }
        }
        Kind::Map(es) => {
            if es.len() != 1 {
                return Ref::Err(format!("{}-entry mapping for enum", es.len()));
            }
            let (k, v) = &es[0];
            let kn = match &k.kind {
                Kind::Scalar { text, .. } if k.tag.is_none() => text.clone(),
                Kind::Scalar { .. } => return Ref::Unspec,
                _ => return Ref::Err("non-scalar variant key".into()),
            };
            match variants.iter().position(|(vn, _)| *vn == kn) {
                None => Ref::Err(format!("unknown variant {}", kn)),
                Some(i) => eval_payload(name, i, &variants[i].0, &variants[i].1, v),
            }
        }
        Kind::Seq(_) => Ref::Err("sequence for enum".into()),
        Kind::Alias(_) => Ref::Unspec,
    }
}

// ---------------------------------------------------------------------------------------------
// schema enumeration

pub const ENUM_NAME: &str = "E";

fn enum_of(t: &Ty) -> Ty {
    Ty::Enum {
        name: ENUM_NAME.into(),
        variants: vec![
            ("U".into(), VarTy::Unit),
            ("N".into(), VarTy::Newtype(Box::new(t.clone()))),
            ("T".into(), VarTy::Tuple(vec![t.clone(), Ty::I64])),
            ("S".into(), VarTy::Struct(vec![("x".into(), t.clone())])),
        ],
    }
}

/// schemas by number of type constructors
pub fn schemas(max: usize) -> Vec<Vec<Ty>> {
    let mut by: Vec<Vec<Ty>> = vec![Vec::new(); max + 1];
    by[1] = vec![Ty::I64, Ty::Str, Ty::Bool];
    for n in 2..=max {
        let mut v = Vec::new();
        for t in &by[n - 1] {
            v.push(Ty::opt(t.clone()));
            v.push(Ty::seq(t.clone()));
            v.push(Ty::map(Ty::Str, t.clone()));
            v.push(enum_of(t));
            v.push(Ty::Struct { name: "S1".into(), fields: vec![("f".into(), t.clone())], deny_unknown: false });
            v.push(Ty::Struct { name: "S1d".into(), fields: vec![("f".into(), t.clone())], deny_unknown: true });
            v.push(Ty::Tuple(vec![t.clone()]));
        }
        for a in 1..(n - 1) {
            let b = n - 1 - a;
            for x in &by[a] {
                for y in &by[b] {
                    v.push(Ty::Tuple(vec![x.clone(), y.clone()]));
                    v.push(Ty::Struct { name: "S2".into(), fields: vec![("f".into(), x.clone()), ("g".into(), y.clone())], deny_unknown: true });
                }
            }
        }
        // drop Option<Option<..>> (not representable)
        v.retain(|t| !matches!(t, Ty::Option(i) if matches!(**i, Ty::Option(_))));
        by[n] = v;
    }
    by
}

/// all canonical (matching) documents of a type; scalars get unique tokens from the counter
pub fn canon(ty: &Ty, next: &mut u32) -> Vec<Node> {
    fn tok(next: &mut u32) -> u32 {
        *next += 1;
        10 + *next
    }
    match ty {
        Ty::I64 => vec![Node::plain(&tok(next).to_string())],
        Ty::Str => vec![Node::plain(&format!("t{}", tok(next)))],
        Ty::Bool => vec![Node::plain("true")],
        Ty::Unit => vec![Node::plain("~")],
        Ty::Option(t) => {
            let mut v = canon(t, next);
            v.push(Node::plain("~"));
            v
        }
        Ty::Seq(t) => {
            let mut out = Vec::new();
            let a = canon(t, next);
            let b = canon(t, next);
            for x in &a {
                out.push(Node::seq(vec![x.clone(), b[0].clone()]));
            }
            out.push(Node::seq(vec![a[0].clone()]));
            out
        }
        Ty::Tuple(ts) => {
            let parts: Vec<Vec<Node>> = ts.iter().map(|t| canon(t, next)).collect();
            product(&parts).into_iter().map(Node::seq).collect()
        }
        Ty::Map(_, vt) => {
            let a = canon(vt, next);
            let b = canon(vt, next);
            let mut out = Vec::new();
            for x in &a {
                out.push(Node::map(vec![(Node::plain("ka"), x.clone()), (Node::plain("kb"), b[0].clone())]));
            }
            out
        }
        Ty::Struct { fields, .. } => {
            let parts: Vec<Vec<Node>> = fields.iter().map(|(_, t)| canon(t, next)).collect();
            product(&parts).into_iter().map(|vals| Node::map(fields.iter().zip(vals).map(|((f, _), v)| (Node::plain(f), v)).collect())).collect()
        }
        Ty::Enum { variants, .. } => {
            let mut out = Vec::new();
            for (vn, vt) in variants {
                match vt {
                    VarTy::Unit => {
                        out.push(Node::plain(vn));
                        out.push(Node::map(vec![(Node::plain(vn), Node::plain("~"))]));
                        out.push(Node::plain("~").tagged(&format!("!{}", vn)));
                    }
                    VarTy::Newtype(t) => {
                        for p in canon(t, next) {
                            out.push(Node::map(vec![(Node::plain(vn), p.clone())]));
                            // (also a null payload: `!N ~` is N(None) for an Option payload)
                            if p.tag.is_none() {
                                out.push(p.tagged(&format!("!{}", vn)));
                            }
                        }
                    }
                    VarTy::Tuple(ts) => {
                        let parts: Vec<Vec<Node>> = ts.iter().map(|t| canon(t, next)).collect();
                        for vals in product(&parts).into_iter().take(2) {
                            let p = Node::seq(vals);
                            out.push(Node::map(vec![(Node::plain(vn), p.clone())]));
                            out.push(p.tagged(&format!("!{}", vn)));
                        }
                    }
                    VarTy::Struct(fs) => {
                        let parts: Vec<Vec<Node>> = fs.iter().map(|(_, t)| canon(t, next)).collect();
                        for vals in product(&parts).into_iter().take(2) {
                            let p = Node::map(fs.iter().zip(vals).map(|((f, _), v)| (Node::plain(f), v)).collect());
                            out.push(Node::map(vec![(Node::plain(vn), p.clone())]));
                            out.push(p.tagged(&format!("!{}", vn)));
                        }
                    }
                }
            }
            out
        }
        _ => vec![Node::plain("~")],
    }
}

fn product(parts: &[Vec<Node>]) -> Vec<Vec<Node>> {
    let mut out: Vec<Vec<Node>> = vec![vec![]];
    for p in parts {
        let mut next = Vec::new();
        for o in &out {
            for x in p.iter().take(3) {
                let mut o2 = o.clone();
                o2.push(x.clone());
                next.push(o2);
            }
        }
        out = next;
    }
    out
}

// ---------------------------------------------------------------------------------------------
// single-edit mutants

/// apply `f` to the node with pre-order index `target`; returns None if f declines
fn edit_at(n: &Node, target: usize, idx: &mut usize, f: &dyn Fn(&Node) -> Option<Node>) -> Option<Node> {
    let me = *idx;
    *idx += 1;
    if me == target {
        return f(n);
    }
    let mut m = n.clone();
    match &mut m.kind {
        Kind::Seq(v) => {
            for c in v.iter_mut() {
                if let Some(r) = edit_at(c, target, idx, f) {
                    *c = r;
                    return Some(m);
                }
                if *idx > target {
                    return None;
                }
            }
        }
        Kind::Map(v) => {
            for (k, x) in v.iter_mut() {
                if let Some(r) = edit_at(k, target, idx, f) {
                    *k = r;
                    return Some(m);
                }
                if *idx > target {
                    return None;
                }
                if let Some(r) = edit_at(x, target, idx, f) {
                    *x = r;
                    return Some(m);
                }
                if *idx > target {
                    return None;
                }
            }
        }
        _ => {}
    }
    None
}

fn has_duplicate_key(n: &Node) -> bool {
    if let Kind::Map(es) = &n.kind {
        for i in 0..es.len() {
            for j in 0..i {
                if es[i].0 == es[j].0 {
                    return true;
                }
            }
        }
    }
    n.children().iter().any(|c| has_duplicate_key(c))
}

pub fn mutants(doc: &Node) -> Vec<(String, Node)> {
    let mut out = Vec::new();
    let n = doc.count();
    let p = Node::plain;
    for i in 0..n {
        let mut add = |label: &str, f: &dyn Fn(&Node) -> Option<Node>| {
            if let Some(m) = edit_at(doc, i, &mut 0, f) {
                out.push((format!("{}@{}", label, i), m));
            }
        };
        // replace the node by a node of another kind
        add("to_int", &|x| if plain_text(x).map(|t| t.bytes().all(|b| b.is_ascii_digit())).unwrap_or(false) { None } else { Some(p("91")) });
        add("to_word", &|x| if plain_text(x).map(|t| t.starts_with('t')).unwrap_or(false) { None } else { Some(p("t92")) });
        add("to_null", &|x| if is_nullish(x) { None } else { Some(p("~")) });
        // the nearest miss of a null-like: an empty string written with quotes
        add("to_empty_quoted", &|x| if matches!(&x.kind, Kind::Scalar { text, style } if text.is_empty() && *style != Style::Plain) { None } else { Some(Node::scalar("", Style::Double)) });
        add("to_empty_single_quoted", &|x| if is_nullish(x) { Some(Node::scalar("", Style::Single)) } else { None });
        add("to_seq", &|x| if matches!(x.kind, Kind::Seq(_)) { None } else { Some(Node::seq(vec![p("93")])) });
        add("to_map", &|x| if matches!(x.kind, Kind::Map(_)) { None } else { Some(Node::map(vec![(p("kz"), p("94"))])) });
        for vn in ["U", "N", "T", "S"] {
            add(&format!("to_variant_{}", vn), &|x| if plain_text(x) == Some(vn) { None } else { Some(p(vn)) });
        }
        add("quote", &|x| match &x.kind {
            Kind::Scalar { text, style: Style::Plain } if x.tag.is_none() && !text.is_empty() => Some(Node::scalar(text, Style::Double)),
            _ => None,
        });
        // insert / delete / swap inside collections
        add("seq_insert_last", &|x| match &x.kind {
            Kind::Seq(v) => {
                let mut w = v.clone();
                w.push(p("95"));
                Some(Node { kind: Kind::Seq(w), ..x.clone() })
            }
            _ => None,
        });
        add("seq_insert_first", &|x| match &x.kind {
            Kind::Seq(v) => {
                let mut w = v.clone();
                w.insert(0, p("96"));
                Some(Node { kind: Kind::Seq(w), ..x.clone() })
            }
            _ => None,
        });
        add("seq_delete_last", &|x| match &x.kind {
            Kind::Seq(v) if !v.is_empty() => {
                let mut w = v.clone();
                w.pop();
                Some(Node { kind: Kind::Seq(w), ..x.clone() })
            }
            _ => None,
        });
        add("seq_swap", &|x| match &x.kind {
            Kind::Seq(v) if v.len() >= 2 && v[0] != v[1] => {
                let mut w = v.clone();
                w.swap(0, 1);
                Some(Node { kind: Kind::Seq(w), ..x.clone() })
            }
            _ => None,
        });
        add("map_insert", &|x| match &x.kind {
            Kind::Map(v) => {
                let mut w = v.clone();
                w.push((p("zz"), p("97")));
                Some(Node { kind: Kind::Map(w), ..x.clone() })
            }
            _ => None,
        });
        add("map_delete_last", &|x| match &x.kind {
            Kind::Map(v) if !v.is_empty() => {
                let mut w = v.clone();
                w.pop();
                Some(Node { kind: Kind::Map(w), ..x.clone() })
            }
            _ => None,
        });
        add("map_rename_first_key", &|x| match &x.kind {
            Kind::Map(v) if !v.is_empty() => {
                let mut w = v.clone();
                w[0].0 = p("qq");
                Some(Node { kind: Kind::Map(w), ..x.clone() })
            }
            _ => None,
        });
        add("map_dup_first", &|x| match &x.kind {
            Kind::Map(v) if !v.is_empty() => {
                let mut w = v.clone();
                let e = w[0].clone();
                w.push(e);
                Some(Node { kind: Kind::Map(w), ..x.clone() })
            }
            _ => None,
        });
        add("tagged_payload_word", &|x| if x.tag.is_some() && is_nullish(&Node { tag: None, ..x.clone() }) { Some(Node { kind: Kind::Scalar { text: "t98".into(), style: Style::Plain }, ..x.clone() }) } else { None });
        add("tagged_payload_seq", &|x| if x.tag.is_some() && is_nullish(&Node { tag: None, ..x.clone() }) { Some(Node { tag: x.tag.clone(), ..Node::seq(vec![p("99")]).flowed() }) } else { None });
        add("retag", &|x| if x.tag.is_some() { Some(Node { tag: Some("!Zz".into()), ..x.clone() }) } else { None });
        add("untag", &|x| if x.tag.is_some() { Some(Node { tag: None, ..x.clone() }) } else { None });
    }
    out
}

// ---------------------------------------------------------------------------------------------

pub struct C05;

fn tokens_of(v: &Dyn, path: &str, out: &mut Vec<(String, String)>) {
    match v {
        Dyn::I64(i) if *i > 10 => out.push((i.to_string(), path.to_string())),
        Dyn::Str(s) if s.starts_with('t') && s.len() > 1 => out.push((s.clone(), path.to_string())),
        Dyn::Some(x) => tokens_of(x, path, out),
        Dyn::NewtypeStruct(_, x) => tokens_of(x, path, out),
        Dyn::Seq(v) | Dyn::Tuple(v) | Dyn::TupleStruct(_, v) => {
            for (i, x) in v.iter().enumerate() {
                tokens_of(x, &format!("{}/{}", path, i), out);
            }
        }
        Dyn::Map(v) => {
            for (k, x) in v {
                tokens_of(x, &format!("{}/{:?}", path, k), out);
            }
        }
        Dyn::Struct(_, v) => {
            for (k, x) in v {
                tokens_of(x, &format!("{}/{}", path, k), out);
            }
        }
        Dyn::Variant { variant, val, .. } => match val {
            VarVal::Unit => {}
            VarVal::Newtype(x) => tokens_of(x, &format!("{}/{}", path, variant), out),
            VarVal::Tuple(v) => {
                for (i, x) in v.iter().enumerate() {
                    tokens_of(x, &format!("{}/{}/{}", path, variant, i), out);
                }
            }
            VarVal::Struct(v) => {
                for (k, x) in v {
                    tokens_of(x, &format!("{}/{}/{}", path, variant, k), out);
                }
            }
        },
        _ => {}
    }
}

/// document position path of every scalar token, in the same path language as tokens_of, guided by the type
fn doc_token_paths(ty: &Ty, n: &Node, path: &str, out: &mut Vec<(String, String)>) {
    let scalar_tok = |n: &Node| -> Option<String> {
        match &n.kind {
            Kind::Scalar { text, .. } if text.len() > 1 && (text.starts_with('t') || text.bytes().all(|b| b.is_ascii_digit())) && text != "true" => Some(text.clone()),
            _ => None,
        }
    };
    match (ty, &n.kind) {
        (Ty::Option(t), _) => doc_token_paths(t, n, path, out),
        (Ty::I64, _) | (Ty::Str, _) => {
            if let Some(t) = scalar_tok(n) {
                out.push((t, path.to_string()));
            }
        }
        (Ty::Seq(t), Kind::Seq(items)) => {
            for (i, x) in items.iter().enumerate() {
                doc_token_paths(t, x, &format!("{}/{}", path, i), out);
            }
        }
        (Ty::Tuple(ts), Kind::Seq(items)) => {
            for (i, (t, x)) in ts.iter().zip(items).enumerate() {
                doc_token_paths(t, x, &format!("{}/{}", path, i), out);
            }
        }
        (Ty::Map(_, vt), Kind::Map(es)) => {
            for (k, x) in es {
                if let Kind::Scalar { text, .. } = &k.kind {
                    doc_token_paths(vt, x, &format!("{}/{:?}", path, Dyn::Str(text.clone())), out);
                }
            }
        }
        (Ty::Struct { fields, .. }, Kind::Map(es)) => {
            for (k, x) in es {
                if let Kind::Scalar { text, .. } = &k.kind {
                    if let Some((_, t)) = fields.iter().find(|(f, _)| f == text) {
                        doc_token_paths(t, x, &format!("{}/{}", path, text), out);
                    }
                }
            }
        }
        (Ty::Enum { variants, .. }, Kind::Map(es)) if es.len() == 1 => {
            if let Kind::Scalar { text, .. } = &es[0].0.kind {
                if let Some((vn, vt)) = variants.iter().find(|(v, _)| v == text) {
                    enum_payload_paths(vn, vt, &es[0].1, path, out);
                }
            }
        }
        (Ty::Enum { variants, .. }, _) if n.tag.is_some() => {
            let suffix = n.tag.as_ref().unwrap().trim_start_matches('!').to_string();
            if let Some((vn, vt)) = variants.iter().find(|(v, _)| *v == suffix) {
                let mut p = n.clone();
                p.tag = None;
                enum_payload_paths(vn, vt, &p, path, out);
            }
        }
        _ => {}
    }
}

fn enum_payload_paths(vn: &str, vt: &VarTy, p: &Node, path: &str, out: &mut Vec<(String, String)>) {
    match vt {
        VarTy::Unit => {}
        VarTy::Newtype(t) => doc_token_paths(t, p, &format!("{}/{}", path, vn), out),
        VarTy::Tuple(ts) => {
            if let Kind::Seq(items) = &p.kind {
                for (i, (t, x)) in ts.iter().zip(items).enumerate() {
                    doc_token_paths(t, x, &format!("{}/{}/{}", path, vn, i), out);
                }
            }
        }
        VarTy::Struct(fs) => {
            if let Kind::Map(es) = &p.kind {
                for (k, x) in es {
                    if let Kind::Scalar { text, .. } = &k.kind {
                        if let Some((_, t)) = fs.iter().find(|(f, _)| f == text) {
                            doc_token_paths(t, x, &format!("{}/{}/{}", path, vn, text), out);
                        }
                    }
                }
            }
        }
    }
}

impl Prop for C05 {
    type Case = Case;
    fn check(&self, c: &Case) -> Verdict {
        let mut v = Verdict::default();
        let doc = if c.layout == 1 { c.doc.clone().with_flow(true) } else { c.doc.clone() };
        let text = render_default(&doc);
        if validate(&doc, &text) != Validity::Ok {
            v.rejected = true;
            return v;
        }
        let want = eval(&c.ty, &doc);
        v.execs = 1;
        v.compared = 1;
        v.nontrivial = c.mutation != "canonical";
        v.classes.push(match c.mutation.split('@').next().unwrap_or("") {
            "canonical" => "canonical",
            "to_int" | "to_word" | "to_null" | "to_seq" | "to_map" | "quote" => "mut_replace_kind",
            "to_variant_U" | "to_variant_N" | "to_variant_T" | "to_variant_S" => "mut_bare_variant_name",
            "seq_insert_last" | "seq_insert_first" | "map_insert" | "map_dup_first" => "mut_insert",
            "seq_delete_last" | "map_delete_last" => "mut_delete",
            "seq_swap" => "mut_swap",
            "map_rename_first_key" => "mut_rename",
            _ => "mut_tag",
        });
        let got = match guarded(|| from_str_ty(&text, &c.ty, serde_saphyr::Options::default())) {
            Ok(r) => r,
            Err(p) => {
                v.fail("panic", format!("{:?} as {:?}: {}", text, c.ty, p));
                return v;
            }
        };
        v.classes.push(match &want {
            Ref::Val(_) => "ref_value",
            Ref::Err(_) => "ref_error",
            Ref::Unspec => "ref_unspecified",
        });
        v.outcome = hash64(&(got.is_ok(), matches!(want, Ref::Val(_)), matches!(want, Ref::Err(_))));
        match (&want, &got) {
            (Ref::Err(why), Ok(val)) => {
                v.fail("mismatch_accepted", format!("{:?} as {:?}: reference says error ({}), got Ok({:?})", text, c.ty, why, val));
            }
            (Ref::Val(w), Ok(g)) => {
                if w != g {
                    v.fail("wrong_value", format!("{:?} as {:?}: expected {:?}, got {:?}", text, c.ty, w, g));
                }
            }
            (Ref::Val(_), Err(e)) if matches!(e.without_snippet(), serde_saphyr::Error::DuplicateMappingKey { .. }) && has_duplicate_key(&doc) => {
                // a repeated key inside content the target ignores (value of an unknown field): the default policy
                // may still refuse the document
                v.classes.push("duplicate_key_in_ignored_content");
            }
            (Ref::Val(w), Err(e)) => {
                v.fail("matching_document_rejected", format!("{:?} as {:?}: expected {:?}, got error {}", text, c.ty, w, e.to_string().lines().next().unwrap_or("")));
            }
            (Ref::Unspec, Ok(g)) => {
                // a node is never consumed by a neighbouring position: every token of the result sits at its own path
                let mut have = Vec::new();
                tokens_of(g, "", &mut have);
                let mut docp = Vec::new();
                doc_token_paths(&c.ty, &doc, "", &mut docp);
                for (tok, path) in &have {
                    // only tokens written exactly once identify a node (a double edit may copy an entry)
                    if docp.iter().filter(|(t, _)| t == tok).count() != 1 || have.iter().filter(|(t, _)| t == tok).count() != 1 {
                        continue;
                    }
                    if let Some((_, dp)) = docp.iter().find(|(t, _)| t == tok) {
                        if dp != path {
                            v.fail("node_consumed_by_neighbouring_position", format!("{:?} as {:?}: token {} written at {} was delivered at {} in {:?}", text, c.ty, tok, dp, path, g));
                            break;
                        }
                    }
                }
            }
            _ => {}
        }
        v
    }
    fn shrink(&self, _c: &Case) -> Vec<Case> {
        Vec::new()
    }
    fn key(&self, c: &Case, clause: &str) -> String {
        // canonical class: leaf types and scalar tokens abstracted, layout erased
        let doc = c.doc.clone().with_flow(false).show();
        let mut norm = String::new();
        let mut word = String::new();
        let flush = |word: &mut String, norm: &mut String| {
            if !word.is_empty() {
                if word.bytes().all(|b| b.is_ascii_digit()) {
                    norm.push('N');
                } else if word.starts_with('t') && word.len() > 1 && word[1..].bytes().all(|b| b.is_ascii_digit()) {
                    norm.push('W');
                } else {
                    norm.push_str(word);
                }
                word.clear();
            }
        };
        for ch in doc.chars() {
            if ch.is_ascii_alphanumeric() {
                word.push(ch);
            } else {
                flush(&mut word, &mut norm);
                norm.push(ch);
            }
        }
        flush(&mut word, &mut norm);
        let ty = ty_show(&c.ty).replace("i64", "_").replace("String", "_").replace("bool", "_");
        format!("{}|{}|{}", clause, ty, norm)
    }
}

pub fn ty_show(t: &Ty) -> String {
    match t {
        Ty::Bool => "bool".into(),
        Ty::I64 => "i64".into(),
        Ty::Str => "String".into(),
        Ty::Unit => "()".into(),
        Ty::Option(t) => format!("Option<{}>", ty_show(t)),
        Ty::Seq(t) => format!("Vec<{}>", ty_show(t)),
        Ty::Tuple(ts) => format!("({},)", ts.iter().map(ty_show).collect::<Vec<_>>().join(",")),
        Ty::Map(k, v) => format!("Map<{},{}>", ty_show(k), ty_show(v)),
        Ty::Struct { name, fields, .. } => format!("{}{{{}}}", name, fields.iter().map(|(f, t)| format!("{}:{}", f, ty_show(t))).collect::<Vec<_>>().join(",")),
        Ty::Enum { variants, .. } => {
            let t = match &variants[1].1 {
                VarTy::Newtype(t) => ty_show(t),
                _ => "?".into(),
            };
            format!("E<{}>", t)
        }
        other => format!("{:?}", other),
    }
}


// ---------------------------------------------------------------------------------------------
// arity across sources: a sequence read into a fixed-length target must get the same verdict whether it is read from
// the live stream, from a merge-derived value, through an alias, as a mapping key (all three are replayed from
// recorded buffers) or as a document of a streaming iterator.

#[derive(Debug, PartialEq, serde::Deserialize)]
struct HasP<P> {
    p: P,
}
#[derive(Debug, PartialEq, serde::Deserialize)]
struct ViaAlias<P> {
    #[allow(dead_code)]
    base: serde::de::IgnoredAny,
    x: HasP<P>,
}
/// order-preserving list of (key, value)
#[derive(Debug, PartialEq)]
struct Pairs<K, V>(Vec<(K, V)>);
impl<'de, K: serde::Deserialize<'de>, V: serde::Deserialize<'de>> serde::Deserialize<'de> for Pairs<K, V> {
    fn deserialize<D: serde::Deserializer<'de>>(d: D) -> Result<Self, D::Error> {
        struct Vis<K, V>(std::marker::PhantomData<(K, V)>);
        impl<'de, K: serde::Deserialize<'de>, V: serde::Deserialize<'de>> serde::de::Visitor<'de> for Vis<K, V> {
            type Value = Pairs<K, V>;
            fn expecting(&self, f: &mut std::fmt::Formatter) -> std::fmt::Result {
                f.write_str("a mapping")
            }
            fn visit_map<A: serde::de::MapAccess<'de>>(self, mut a: A) -> Result<Pairs<K, V>, A::Error> {
                let mut v = Vec::new();
                while let Some(k) = a.next_key()? {
                    v.push((k, a.next_value()?));
                }
                Ok(Pairs(v))
            }
        }
        d.deserialize_map(Vis(std::marker::PhantomData))
    }
}

fn arity_for<P: serde::de::DeserializeOwned + std::fmt::Debug + PartialEq + 'static>(acc: &mut Acc, tyname: &str, seqs: &[String]) {
    for seq in seqs {
        let live = guarded(|| serde_saphyr::from_str::<P>(seq).map(|v| format!("{:?}", v)).map_err(|_| ()));
        let live = match live {
            Ok(l) => l,
            Err(p) => {
                acc.add_violation(format!("panic|arity {} as {}", seq, tyname), "panic", p, json!({"seq": seq, "type": tyname}), json!({}));
                continue;
            }
        };
        let mut record = |name: &str, doc: String, got: Result<Result<String, ()>, String>| {
            acc.evaluations += 1;
            acc.execs += 1;
            acc.compared += 1;
            acc.nontrivial += 1;
            acc.class("arity_across_sources", 1);
            match got {
                Err(p) => acc.add_violation(format!("panic|arity {} as {} via {}", seq, tyname, name), "panic", p, json!({"seq": seq, "type": tyname, "source": name}), json!({})),
                Ok(g) => {
                    if g != live {
                        acc.add_violation(
                            format!("verdict_depends_on_source|{} as {}|{}", seq, tyname, name),
                            "verdict_depends_on_source",
                            format!("{:?}: the sequence {} read as {} from the live stream gives {:?} but {:?} when it is {}", doc, seq, tyname, live, g, name),
                            json!({"seq": seq, "type": tyname, "source": name}),
                            json!({}),
                        );
                    }
                }
            }
        };
        // own mapping value (live)
        let d = format!("p: {}\n", seq);
        record("an own mapping value", d.clone(), guarded(|| serde_saphyr::from_str::<HasP<P>>(&d).map(|v| format!("{:?}", v.p)).map_err(|_| ())));
        // merge-derived value
        let d = format!("<<: {{p: {}}}\n", seq);
        record("a merge-derived value", d.clone(), guarded(|| serde_saphyr::from_str::<HasP<P>>(&d).map(|v| format!("{:?}", v.p)).map_err(|_| ())));
        // merge through an alias
        let d = format!("base: &b {{p: {}}}\nx: {{<<: *b}}\n", seq);
        record("a value merged through an alias", d.clone(), guarded(|| serde_saphyr::from_str::<ViaAlias<P>>(&d).map(|v| format!("{:?}", v.x.p)).map_err(|_| ())));
        // aliased value
        let d = format!("- &a {}\n- *a\n", seq);
        record("an aliased sequence item", d.clone(), guarded(|| serde_saphyr::from_str::<(serde::de::IgnoredAny, P)>(&d).map(|v| format!("{:?}", v.1)).map_err(|_| ())));
        // mapping key
        let d = format!("? {}\n: 5\n", seq);
        record("a mapping key", d.clone(), guarded(|| serde_saphyr::from_str::<Pairs<P, i64>>(&d).map(|v| v.0.into_iter().next().map(|kv| format!("{:?}", kv.0)).unwrap_or_default()).map_err(|_| ())));
        // document of the streaming iterator: exactly one item, the live verdict, and the iterator ends
        let d = format!("{}\n", seq);
        let items = guarded(|| {
            let mut rd = std::io::Cursor::new(d.as_bytes().to_vec());
            let v: Vec<Result<String, ()>> = serde_saphyr::read::<_, P>(&mut rd).take(4).map(|r| r.map(|v| format!("{:?}", v)).map_err(|_| ())).collect();
            v
        });
        record(
            "the only document of a streaming iterator",
            d.clone(),
            items.map(|v| if v.len() == 1 { v[0].clone() } else if v.is_empty() { Err(()) } else { Ok(format!("{} items: {:?}", v.len(), v)) }),
        );
    }
}

fn arity_pass(acc: &mut Acc, tier: Tier) {
    let elems = ["1", "2", "x", "[1, 2]", "[1, 2, 3]", "~"];
    let mut seqs: Vec<String> = Vec::new();
    let maxlen = tier.pick(3, 4);
    let mut idx = vec![0usize; 0];
    // all element lists up to maxlen
    fn rec(cur: &mut Vec<usize>, maxlen: usize, n: usize, out: &mut Vec<Vec<usize>>) {
        out.push(cur.clone());
        if cur.len() == maxlen {
            return;
        }
        for i in 0..n {
            cur.push(i);
            rec(cur, maxlen, n, out);
            cur.pop();
        }
    }
    let mut all = Vec::new();
    rec(&mut idx, maxlen, elems.len(), &mut all);
    for l in all {
        seqs.push(format!("[{}]", l.iter().map(|&i| elems[i]).collect::<Vec<_>>().join(", ")));
    }
    arity_for::<(i64, i64)>(acc, "(i64, i64)", &seqs);
    arity_for::<[i64; 2]>(acc, "[i64; 2]", &seqs);
    arity_for::<((i64, i64), Option<String>)>(acc, "((i64, i64), Option<String>)", &seqs);
    arity_for::<(i64, Vec<i64>)>(acc, "(i64, Vec<i64>)", &seqs);
    arity_for::<Vec<(i64, i64)>>(acc, "Vec<(i64, i64)>", &seqs);
    arity_for::<(Option<i64>,)>(acc, "(Option<i64>,)", &seqs);
    // a `!!binary` scalar read as a sequence of bytes is the written-out sequence of its bytes
    fn bin<P: serde::de::DeserializeOwned + std::fmt::Debug + 'static>(acc: &mut Acc, tyname: &str) {
        use base64::Engine;
        for n in 0..=4usize {
            let bytes: Vec<u8> = (1..=n as u8).collect();
            let b64 = base64::engine::general_purpose::STANDARD.encode(&bytes);
            let tagged = format!("!!binary {}\n", if b64.is_empty() { "\"\"".to_string() } else { b64 });
            let written = format!("[{}]\n", bytes.iter().map(|b| b.to_string()).collect::<Vec<_>>().join(", "));
            acc.evaluations += 1;
            acc.execs += 2;
            acc.compared += 1;
            acc.nontrivial += 1;
            acc.class("binary_as_byte_sequence", 1);
            let a = guarded(|| serde_saphyr::from_str::<P>(&tagged).map(|v| format!("{:?}", v)).map_err(|_| ()));
            let b = guarded(|| serde_saphyr::from_str::<P>(&written).map(|v| format!("{:?}", v)).map_err(|_| ()));
            if a != b {
                acc.add_violation(
                    format!("binary_differs_from_byte_sequence|{} bytes as {}", n, tyname),
                    "binary_differs_from_byte_sequence",
                    format!("{:?} as {} gives {:?} but the same bytes written as {:?} give {:?}", tagged, tyname, a, written, b),
                    json!({"bytes": n, "type": tyname}),
                    json!({}),
                );
            }
        }
    }
    bin::<(u8, u8)>(acc, "(u8, u8)");
    bin::<[u8; 2]>(acc, "[u8; 2]");
    bin::<Vec<u8>>(acc, "Vec<u8>");
}

pub fn run(ctx: &Ctx) -> i32 {
    let p = C05;
    let max = ctx.tier.pick(3, 4);
    let by = schemas(max);
    let all: Vec<(usize, &Ty)> = by.iter().enumerate().flat_map(|(n, v)| v.iter().map(move |t| (n, t))).collect();
    use rayon::prelude::*;
    let double_max = ctx.tier.pick(3usize, 4usize);
    let acc = all
        .par_iter()
        .fold(Acc::default, |mut acc, (level, ty)| {
            let docs = canon(ty, &mut 0);
            for d in &docs {
                for layout in 0..2u8 {
                    let c = Case { ty: (*ty).clone(), doc: d.clone(), mutation: "canonical".into(), layout };
                    if acc.samples.len() < 1 {
                        acc.samples.push(json!({"type": ty_show(ty), "doc": d.show()}));
                    }
                    process_case(&p, &mut acc, &c);
                    for (label, m) in mutants(d) {
                        let c = Case { ty: (*ty).clone(), doc: m.clone(), mutation: label.clone(), layout };
                        process_case(&p, &mut acc, &c);
                        if layout == 0 && matches!(ty, Ty::Enum { .. } | Ty::Seq(_) | Ty::Tuple(_) | Ty::Map(..)) && *level <= double_max {
                            for (l2, m2) in mutants(&m) {
                                let c = Case { ty: (*ty).clone(), doc: m2, mutation: format!("{}+{}", label, l2), layout };
                                process_case(&p, &mut acc, &c);
                            }
                        }
                    }
                }
            }
            acc
        })
        .reduce(Acc::default, Acc::merge);
    let mut acc = acc;
    arity_pass(&mut acc, ctx.tier);
    let meta = Meta {
        level: "model_checking",
        rule: "all schemas up to the constructor bound x all canonical documents (every enum variant in every notation) x all single-edit mutants x 2 layouts; plus 'arity across sources': every flow sequence of up to 3 (thorough 4) elements over {1, 2, x, [1, 2], [1, 2, 3], ~} read into 6 fixed-length targets from the live stream vs as a merge-derived value, through an alias, as a mapping key and as the document of a streaming iterator (same verdict required); non-trivial = the document is a mutant (almost matching)".into(),
        exhaustive: true,
        bounds: json!({"max_type_constructors": max, "schemas": all.len(), "double_edits_for_enum_seq_tuple_map_schemas_up_to_size": double_max}),
        assumptions: vec![
            "reference interpreter is definite only where the property statement is: arity, field names, null/option, enum notations, kind mismatches; everything else is Unspecified (only the 'no node consumed by a neighbour' token check applies)".into(),
            "run-time DeserializeSeed drives exactly the deserialize_* calls of a derived impl".into(),
        ],
    };
    finish(ctx, meta, acc)
}

pub fn replay_file(ctx: &Ctx, path: &str) -> i32 {
    replay(&C05, ctx, path)
}
