//! C17 — rendered error reports are terminal-safe, cropped and show the right line.
use crate::engine::*;
use crate::readers::ScheduleReader;
use crate::space01::{self, reader_hang_suspect};
use serde::{Deserialize, Serialize};
use serde_json::json;
use std::borrow::Cow;

#[derive(Clone, Debug, Serialize, Deserialize)]
pub enum Case {
    /// a cell of the C01 token space (target, via from_str or from_reader), rendered with a crop radius
    Token { tokens: Vec<u8>, target: u8, reader: bool, radius: u8 },
    /// generated document: reflection channel x payload x line shape
    Gen { channel: u8, payload: u8, pad_before: u32, pad_after: u32, crlf: bool, reader: bool, radius: u8 },
    /// long document: `lines_before` well-formed lines, one offending line, `tail` lines after it; the reader's
    /// recent-bytes window has to be in step with the line numbering
    Long { lines_before: u32, crlf: bool, tail: u8, chunk: u32, reader: bool, radius: u8 },
    /// one long flow-sequence line with the offending item `items_before` items in, on line `line_no`
    Wide { line_no: u8, items_before: u32, items_after: u32, reader: bool, radius: u8 },
    /// validation report: eight one-line fields, bit i of `mask` = field i violates its constraint; every issue is
    /// drawn on its own line whatever the other issues' windows cover. krate: 0 garde, 1 validator
    ValidLines { krate: u8, mask: u8, gap: u8, radius: u8 },
    /// validation report reflecting input text: shape 0 = a map key inside the resolved path (garde), 1 = the
    /// offending value (validator prints it as a parameter), 2 = a key on the offending line (snippet only)
    ValidReflect { krate: u8, shape: u8, payload: u8, radius: u8 },
}

pub mod val {
    pub mod g {
        use garde::Validate;
        use serde::Deserialize;
        use std::collections::BTreeMap;
        #[derive(Debug, Deserialize, Validate)]
        pub struct Eight {
            #[garde(range(min = 2))]
            pub a: i64,
            #[garde(range(min = 2))]
            pub b: i64,
            #[garde(range(min = 2))]
            pub c: i64,
            #[garde(range(min = 2))]
            pub d: i64,
            #[garde(range(min = 2))]
            pub e: i64,
            #[garde(range(min = 2))]
            pub f: i64,
            #[garde(range(min = 2))]
            pub g: i64,
            #[garde(range(min = 2))]
            pub h: i64,
        }
        #[derive(Debug, Deserialize, Validate)]
        pub struct KeyMap {
            #[garde(dive)]
            pub m: BTreeMap<String, In>,
        }
        #[derive(Debug, Deserialize, Validate)]
        pub struct In {
            #[garde(range(min = 10))]
            pub x: i64,
        }
        #[derive(Debug, Deserialize, Validate)]
        pub struct Name {
            #[garde(length(min = 40000))]
            pub name: String,
        }
    }
    pub mod v {
        use serde::Deserialize;
        use std::collections::BTreeMap;
        use validator::Validate;
        #[derive(Debug, Deserialize, Validate)]
        pub struct Eight {
            #[validate(range(min = 2))]
            pub a: i64,
            #[validate(range(min = 2))]
            pub b: i64,
            #[validate(range(min = 2))]
            pub c: i64,
            #[validate(range(min = 2))]
            pub d: i64,
            #[validate(range(min = 2))]
            pub e: i64,
            #[validate(range(min = 2))]
            pub f: i64,
            #[validate(range(min = 2))]
            pub g: i64,
            #[validate(range(min = 2))]
            pub h: i64,
        }
        #[derive(Debug, Deserialize, Validate)]
        pub struct KeyMap {
            #[validate(nested)]
            pub m: BTreeMap<String, In>,
        }
        #[derive(Debug, Deserialize, Validate)]
        pub struct In {
            #[validate(range(min = 10))]
            pub x: i64,
        }
        #[derive(Debug, Deserialize, Validate)]
        pub struct Name {
            #[validate(length(min = 40000))]
            pub name: String,
        }
    }
}

/// eight fields, `gap` comment lines between consecutive fields
pub fn valid_lines_doc(mask: u8, gap: u8) -> String {
    let mut s = String::new();
    for (i, k) in "abcdefgh".chars().enumerate() {
        s.push_str(&format!("{}: {}\n", k, if mask & (1 << i) != 0 { 1 } else { 5 }));
        for _ in 0..gap {
            s.push_str("# -\n");
        }
    }
    s
}

pub fn valid_reflect_doc(shape: u8, payload: u8) -> String {
    let (_, written, _) = PAYLOADS[payload as usize];
    match shape {
        0 => format!("# one\nm:\n  \"k{}\": {{x: 9}}\n# tail\n", written),
        1 => format!("# one\nname: \"a{}b\"\n# tail\n", written),
        _ => format!("# one\nm: {{\"k{}\": {{x: 12}}, other: {{x: 9}}}}\n# tail\n", written),
    }
}

fn all_renders(e: &serde_saphyr::Error, source: Option<&str>) -> Result<Vec<(&'static str, String)>, String> {
    let user = serde_saphyr::UserMessageFormatter;
    let custom = Custom;
    let mut off = serde_saphyr::RenderOptions::default();
    off.snippets = serde_saphyr::SnippetMode::Off;
    guarded(|| {
        let mut v = vec![
            ("display", e.to_string()),
            ("render", e.render()),
            ("user", e.render_with_formatter(&user)),
            ("custom", e.render_with_formatter(&custom)),
            ("snippets_off", e.render_with_options(off)),
        ];
        if let Some(input) = source {
            let rep = serde_saphyr::miette::to_miette_report(e, input, "input.yaml");
            v.push(("miette_debug", format!("{:?}", rep)));
            let mut out = String::new();
            let h = miette::NarratableReportHandler::new();
            let _ = h.render_report(&mut out, rep.as_ref());
            v.push(("miette_narratable", out));
        }
        v
    })
}

/// (line, column in characters), 1-based, of the first label of a miette report inside the report's own source
fn miette_label_pos(rep: &miette::Report) -> Option<(u64, u64)> {
    let d: &dyn miette::Diagnostic = rep.as_ref();
    let label = d.labels()?.next()?;
    let src = d.source_code()?;
    let sc = src.read_span(label.inner(), 0, 0).ok()?;
    let (line, col_bytes) = (sc.line(), sc.column());
    let chars = if col_bytes == 0 {
        0
    } else {
        let pre = src.read_span(&miette::SourceSpan::new((label.offset() - col_bytes).into(), col_bytes), 0, 0).ok()?;
        String::from_utf8_lossy(pre.data()).chars().count()
    };
    Some((line as u64 + 1, chars as u64 + 1))
}

/// the miette adapter's primary label sits at the reported line / column of `source` (given with or without BOM)
fn judge_miette_label(source: &str, e: &serde_saphyr::Error, v: &mut Verdict, what: &str) {
    let l = match e.location() {
        Some(l) => l,
        None => return,
    };
    let pos = match guarded(|| miette_label_pos(&serde_saphyr::miette::to_miette_report(e, source, "input.yaml"))) {
        Ok(p) => p,
        Err(p) => {
            v.fail("render_panic_miette", format!("{}: {}", what, p));
            return;
        }
    };
    v.compared += 1;
    // the source as the reader sees it: a leading BOM is not part of line 1
    let has_bom = source.starts_with('\u{feff}');
    if let Some((pl, pc)) = pos {
        let pc_adj = if has_bom && pl == 1 { pc.max(2) - 1 } else { pc };
        let ok = (pl, pc) == (l.line(), l.column()) || (pl, pc_adj) == (l.line(), l.column());
        if !ok {
            v.fail("miette_label_not_at_reported_location", format!("{}: the error is at {}:{} but the miette label is at {}:{} of the source handed to the adapter{}", what, l.line(), l.column(), pl, pc, if has_bom { " (which starts with a byte-order mark)" } else { "" }));
        }
    }
}

fn judge_validation(text: &str, e: &serde_saphyr::Error, bad_lines: &[(u64, u64)], radius: usize, v: &mut Verdict, what: &str) {
    let renders = match all_renders(e, Some(text)) {
        Ok(r) => r,
        Err(p) => {
            v.fail(&format!("render_panic@{}", panic_site(&p)), format!("{}: rendering panicked: {}", what, p));
            return;
        }
    };
    v.execs += renders.len() as u32;
    for (name, rtext) in &renders {
        v.compared += 1;
        if let Some(c) = has_forbidden(rtext) {
            v.fail("control_character_in_report", format!("{}: {} contains U+{:04X}: {:?}", what, name, c as u32, rtext));
            return;
        }
        if name.starts_with("miette") || *name == "snippets_off" || radius == 0 {
            continue;
        }
        let sn = parse_snippet(rtext);
        for (n, t) in &sn.src {
            let core = t.trim_start_matches("… ").trim_start_matches('…').trim_end_matches('…');
            if core.chars().count() > 2 * radius + 1 {
                v.fail("line_wider_than_window", format!("{}: {} (radius {}) shows {} characters of line {}: {:?}", what, name, radius, core.chars().count(), n, t));
                return;
            }
            if let Some(ln) = line_of(text, *n) {
                let plain = |s: &str| s.chars().all(|c| (' '..='~').contains(&c));
                if plain(ln) && plain(core) && !ln.contains(core.trim_start_matches("...").trim_end_matches("...").trim_end()) {
                    v.fail("shown_line_is_not_that_line_of_the_input", format!("{}: {} shows {:?} as line {} but line {} of the input is {:?}", what, name, t, n, n, ln));
                    return;
                }
            }
        }
        // every issue is drawn: its line is shown with a marker under its column
        for &(bl, bc) in bad_lines {
            v.compared += 1;
            let hit = sn.markers.iter().any(|(si, off)| {
                let (n, shown) = &sn.src[*si];
                if *n != bl {
                    return false;
                }
                let want = line_of(text, bl).and_then(|ln| ln.chars().nth(bc as usize - 1));
                let ln = line_of(text, bl).unwrap_or("");
                let comparable = ln.chars().all(|c| (' '..='~').contains(&c));
                !comparable || shown.chars().nth(*off) == want
            });
            if !hit {
                v.fail("issue_not_drawn_on_its_line", format!("{}: {} has no marker under line {} column {}: {:?}", what, name, bl, bc, rtext));
                return;
            }
        }
    }
}

pub fn wide_doc(line_no: u8, items_before: u32, items_after: u32) -> String {
    let mut s = String::new();
    for i in 1..line_no {
        s.push_str(&format!("# comment {}\n", i));
    }
    s.push_str("v: [");
    for _ in 0..items_before {
        s.push_str("1, ");
    }
    s.push_str("oops");
    for _ in 0..items_after {
        s.push_str(", 1");
    }
    s.push_str("]\nw: 2\nx: 3\ny: 4\n");
    s
}

#[derive(Debug, Deserialize)]
#[allow(dead_code)]
struct WideDoc {
    v: Vec<u32>,
    w: u32,
    x: u32,
    y: u32,
}

pub fn long_doc(lines_before: u32, crlf: bool, tail: u8) -> String {
    let nl = if crlf { "\r\n" } else { "\n" };
    let mut s = String::new();
    for i in 0..lines_before {
        s.push_str(&format!("key{:05}: {}{}", i, i, nl));
    }
    s.push_str(&format!("broken_entry: not_a_number{}", nl));
    for i in 0..tail {
        s.push_str(&format!("tail{}: {}{}", i, i, nl));
    }
    s
}

pub const RADII: [usize; 6] = [0, 1, 2, 7, 64, 1_000_000];
pub const CHANNELS: [&str; 7] = ["duplicate_key", "unknown_field", "unknown_variant", "invalid_type_str", "invalid_scalar_long_line", "quoting_required", "merge_value_error"];
/// (label, text as written inside a double-quoted YAML scalar, the characters it denotes)
pub const PAYLOADS: [(&str, &str, &str); 12] = [
    ("plain", "a", "a"),
    ("esc_seq_escaped", "\\e[31mred", "\x1b[31mred"),
    ("bel_escaped", "x\\ay", "x\x07y"),
    ("nul_escaped", "x\\0y", "x\0y"),
    ("del_escaped", "x\\x7fy", "x\x7fy"),
    ("csi_c1_escaped", "x\\x9b31my", "x\u{9b}31my"),
    ("nel_escaped", "x\\Ny", "x\u{85}y"),
    ("cr_escaped", "x\\ry", "x\ry"),
    ("del_raw", "x\x7fy", "x\x7fy"),
    ("csi_c1_raw", "x\u{9b}y", "x\u{9b}y"),
    ("multibyte", "é😀é", "é😀é"),
    ("backspace_escaped", "x\\by", "x\x08y"),
];

#[derive(Debug, Deserialize)]
#[serde(deny_unknown_fields)]
#[allow(dead_code)]
struct Strict {
    #[serde(default)]
    pad: Option<String>,
    #[serde(default)]
    known: Option<u32>,
    #[serde(default)]
    e: Option<Color>,
    #[serde(default)]
    n: Option<OnlyInt>,
    #[serde(default)]
    m: Option<std::collections::BTreeMap<String, u32>>,
    #[serde(default)]
    s: Option<String>,
}
#[derive(Debug, Deserialize)]
#[allow(dead_code)]
enum Color {
    Red,
    Green,
}
/// accepts integers only, through deserialize_any: a string gives serde's invalid_type(Unexpected::Str(..))
#[derive(Debug)]
struct OnlyInt;
impl<'de> Deserialize<'de> for OnlyInt {
    fn deserialize<D: serde::Deserializer<'de>>(d: D) -> Result<Self, D::Error> {
        struct V;
        impl<'de> serde::de::Visitor<'de> for V {
            type Value = OnlyInt;
            fn expecting(&self, f: &mut std::fmt::Formatter) -> std::fmt::Result {
                write!(f, "an integer")
            }
            fn visit_u64<E>(self, _v: u64) -> Result<OnlyInt, E> {
                Ok(OnlyInt)
            }
        }
        d.deserialize_any(V)
    }
}

/// custom formatter with its own localizer
struct Custom;
impl serde_saphyr::MessageFormatter for Custom {
    fn format_message<'a>(&self, err: &'a serde_saphyr::Error) -> Cow<'a, str> {
        Cow::Owned(format!("custom<{}>", serde_saphyr::DefaultMessageFormatter.format_message(err)))
    }
}

fn gen_doc(channel: u8, payload: u8, pad_before: u32, pad_after: u32, crlf: bool) -> String {
    let (_, written, _) = PAYLOADS[payload as usize];
    let nl = if crlf { "\r\n" } else { "\n" };
    let before = "é".repeat(pad_before as usize);
    let after = "ü".repeat(pad_after as usize);
    // two context lines before and after the offending line; the offending line carries padding on both sides
    let mut s = String::new();
    s.push_str(&format!("# first{}", nl));
    s.push_str(&format!("known: 1{}", nl));
    match channel {
        0 => {
            s.push_str(&format!("\"{}{}{}\": 1{}", before, written, after, nl));
            s.push_str(&format!("\"{}{}{}\": 2{}", before, written, after, nl));
        }
        1 => s.push_str(&format!("\"{}{}{}\": 1{}", before, written, after, nl)),
        2 => s.push_str(&format!("e: \"{}{}{}\"{}", before, written, after, nl)),
        3 => s.push_str(&format!("n: \"{}{}{}\"{}", before, written, after, nl)),
        4 => s.push_str(&format!("pad: \"{}\"{}known: \"{}{}\"{}", before, nl, written, after, nl)),
        5 => s.push_str(&format!("s: 1{}{}{}", before.len(), after.len(), nl)),
        _ => s.push_str(&format!("m: {{<<: \"{}{}{}\"}}{}", before, written, after, nl)),
    }
    s.push_str(&format!("# tail 1{}", nl));
    s.push_str(&format!("# tail 2{}", nl));
    s.push_str(&format!("# tail 3{}", nl));
    s
}

fn has_forbidden(s: &str) -> Option<char> {
    s.chars().find(|&c| {
        let u = c as u32;
        (u < 0x20 && c != '\n' && c != '\t') || u == 0x7f || (0x80..=0x9f).contains(&u)
    })
}

/// (line number, text) of every gutter line `  N | text`, and the marker lines `    | ^^^ msg` with the index of
/// the source line they follow
struct Snip {
    src: Vec<(u64, String)>,
    /// (index into src, char offset of the first '^' inside the text area)
    markers: Vec<(usize, usize)>,
}

fn parse_snippet(rendered: &str) -> Snip {
    let mut src = Vec::new();
    let mut markers = Vec::new();
    for line in rendered.lines() {
        let t = line.trim_start();
        if let Some(bar) = t.find(" |") {
            let head = &t[..bar];
            if !head.is_empty() && head.bytes().all(|b| b.is_ascii_digit()) {
                let text = t[bar + 2..].strip_prefix(' ').unwrap_or(&t[bar + 2..]);
                src.push((head.parse().unwrap_or(0), text.to_string()));
                continue;
            }
        }
        if let Some(rest) = t.strip_prefix("| ").or_else(|| t.strip_prefix("|")) {
            if let Some(p) = rest.find('^') {
                if rest[..p].chars().all(|c| c == ' ') && !src.is_empty() {
                    markers.push((src.len() - 1, rest[..p].chars().count()));
                }
            }
        }
    }
    Snip { src, markers }
}

fn line_of(input: &str, line: u64) -> Option<&str> {
    // LF / CRLF lines (the renderer splits on LF)
    input.split('\n').nth(line as usize - 1).map(|l| l.strip_suffix('\r').unwrap_or(l))
}

pub struct C17;

fn judge(input: &str, e: &serde_saphyr::Error, radius: usize, reader: bool, v: &mut Verdict, what: &str) {
    // locations refer to the text without its byte-order mark
    let input = input.strip_prefix('\u{feff}').unwrap_or(input);
    let renders = match all_renders(e, if reader { None } else { Some(input) }) {
        Ok(r) => r,
        Err(p) => {
            v.fail(&format!("render_panic@{}", panic_site(&p)), format!("{}: rendering panicked: {}", what, p));
            return;
        }
    };
    v.execs += renders.len() as u32;
    let loc = e.location();
    for (name, text) in &renders {
        v.compared += 1;
        // miette's graphical handler draws with its own (ANSI-free in {:?} without a tty) box characters; the
        // control-character clause applies to everything
        if let Some(c) = has_forbidden(text) {
            v.fail("control_character_in_report", format!("{}: {} contains U+{:04X}: {:?}", what, name, c as u32, text));
            return;
        }
        if name.starts_with("miette") || *name == "snippets_off" {
            continue;
        }
        let sn = parse_snippet(text);
        if sn.src.is_empty() {
            v.classes.push("rendered_without_snippet");
            // a fallback is itself wrong when a snippet was possible: str input, LF/CRLF text, in-bounds location, r > 0
            if !reader && radius > 0 && !input.contains('\r') || (!reader && radius > 0 && input.contains("\r\n") && !input.replace("\r\n", "").contains('\r')) {
                if let Some(l) = loc {
                    let n_lines = input.split('\n').count() as u64;
                    let has_visible = line_of(input, l.line()).map(|ln| ln.chars().any(|c| c.is_ascii_graphic())).unwrap_or(false);
                    if l.line() >= 1 && l.line() <= n_lines && *name == "render" && has_visible {
                        v.fail("snippet_missing", format!("{}: location {}:{} is inside the input but the report has no source snippet: {:?}", what, l.line(), l.column(), text));
                        return;
                    }
                }
            }
            continue;
        }
        v.classes.push("rendered_with_snippet");
        let l = match loc {
            Some(l) => l,
            None => continue,
        };
        // alias errors render two snippets (use site and definition): judge the window per snippet block loosely:
        // every shown line number must be within +-2 of some reported location
        let locs = e.locations();
        let near = |n: u64| -> bool {
            let mut c = vec![l.line()];
            if let Some(ls) = locs {
                c.push(ls.reference_location.line());
                c.push(ls.defined_location.line());
            }
            c.iter().any(|&x| n + 2 >= x && n <= x + 2)
        };
        let two = locs.map(|ls| ls.reference_location != ls.defined_location).unwrap_or(false);
        if sn.src.len() > if two { 10 } else { 5 } {
            v.fail("window_too_tall", format!("{}: {} shows {} source lines: {:?}", what, name, sn.src.len(), text));
            return;
        }
        for (n, t) in &sn.src {
            if !near(*n) {
                v.fail("line_outside_window", format!("{}: {} shows line {} for an error at line {}: {:?}", what, name, n, l.line(), text));
                return;
            }
            let core = t.trim_start_matches("… ").trim_start_matches('…').trim_end_matches('…');
            // the renderer expands a tab to up to 4 columns: allow 3 extra columns per tab of that input line
            let tabs = line_of(input, *n).map(|ln| ln.matches('\t').count()).unwrap_or(0);
            if radius > 0 && core.chars().count() > 2 * radius + 1 + 3 * tabs {
                v.fail("line_wider_than_window", format!("{}: {} (radius {}) shows {} characters of line {}: {:?}", what, name, radius, core.chars().count(), n, t));
                return;
            }
            // the text shown under line number n is (a window of) line n of the input; judged for lines made of
            // printable ASCII only (no sanitising, tab expansion or width arithmetic involved), LF / CRLF input
            if !(input.contains('\r') && !input.contains("\r\n")) {
                if let Some(ln) = if *n >= 1 { line_of(input, *n) } else { None } {
                    let ln = ln.trim_end_matches('\r');
                    if ln.chars().all(|c| (' '..='~').contains(&c)) && core.chars().all(|c| (' '..='~').contains(&c)) && !ln.contains(core.trim_start_matches("...").trim_end_matches("...").trim_end()) {
                        v.fail("shown_line_is_not_that_line_of_the_input", format!("{}: {} shows {:?} as line {} but line {} of the input is {:?}", what, name, t, n, n, ln));
                        return;
                    }
                }
            }
        }
        if input.contains('\r') && !input.contains("\r\n") {
            continue; // CR-only input: which text is "the line" is unspecified
        }
        if !two {
            // the reported line is shown and the marker sits under the reported column.
            // A location on the empty line after the final line break (end of input) cannot be drawn by the
            // renderer, which attaches the marker to the end of the last line: not judged.
            let n_lines = input.split('\n').count() as u64;
            let at_eof_line = l.line() >= n_lines && line_of(input, l.line()).map(|ln| ln.is_empty()).unwrap_or(true);
            if at_eof_line {
                continue;
            }
            let idx = sn.src.iter().position(|(n, _)| *n == l.line());
            match idx {
                None => {
                    v.fail("reported_line_not_shown", format!("{}: {} does not show line {}: {:?}", what, name, l.line(), text));
                    return;
                }
                Some(i) => {
                    if let Some((_, off)) = sn.markers.iter().find(|(si, _)| *si == i) {
                        let shown = sn.src[i].1.chars().nth(*off);
                        let want = line_of(input, l.line()).and_then(|ln| ln.chars().nth(l.column() as usize - 1));
                        // tabs are expanded and wide characters take two columns in the rendering: the column
                        // arithmetic below is in characters, so such lines are not comparable
                        let tabs = line_of(input, l.line()).map(|ln| ln.contains('\t') || ln.chars().any(|c| (c as u32) >= 0x1100)).unwrap_or(false);
                        let comparable = !tabs && want.map(|c| !c.is_control() && !(0x80..=0x9f).contains(&(c as u32)) && c != '\u{feff}').unwrap_or(true);
                        if comparable && shown != want && !(want.is_none() && shown.map(|c| c == ' ' || c == '…').unwrap_or(true)) {
                            v.fail(
                                "marker_not_under_reported_column",
                                format!("{}: {}: the marker points at {:?} but line {} column {} of the input is {:?}: {:?}", what, name, shown, l.line(), l.column(), want, text),
                            );
                            return;
                        }
                    }
                }
            }
        }
    }
}

impl Prop for C17 {
    type Case = Case;
    fn check(&self, c: &Case) -> Verdict {
        let mut v = Verdict::default();
        match c {
            Case::Token { tokens, target, reader, radius } => {
                let input = crate::props::c01::input_of(tokens);
                let text = match std::str::from_utf8(&input) {
                    Ok(t) => t.to_string(),
                    Err(_) => {
                        v.rejected = true;
                        return v;
                    }
                };
                if *reader && reader_hang_suspect(&input) {
                    v.rejected = true;
                    return v;
                }
                let r = RADII[*radius as usize];
                // run through the shared space with a custom crop radius: entry 0 (from_str) or 2 (from_reader)
                let ex = match guarded(|| {
                    let mut o = serde_saphyr::Options::default();
                    o.crop_radius = r;
                    exec_with(&input, *target, if *reader { 2 } else { 0 }, o)
                }) {
                    Ok(e) => e,
                    Err(p) => {
                        v.fail("panic", p);
                        return v;
                    }
                };
                v.execs = 1;
                if ex.errors.is_empty() {
                    v.rejected = true; // not a failing pair
                    return v;
                }
                v.nontrivial = has_forbidden(&text).is_some() || text.chars().count() > r;
                for e in &ex.errors {
                    judge(&text, e, r, *reader, &mut v, &format!("{:?} into {} via {} (radius {})", text, space01::TARGETS[*target as usize], if *reader { "from_reader" } else { "from_str" }, r));
                    if v.fail.is_some() {
                        break;
                    }
                }
                v.outcome = hash64(&(ex.errors.len(), v.classes.clone()));
            }
            Case::Gen { channel, payload, pad_before, pad_after, crlf, reader, radius } => {
                let text = gen_doc(*channel, *payload, *pad_before, *pad_after, *crlf);
                let r = RADII[*radius as usize];
                let mut o = serde_saphyr::Options::default();
                o.crop_radius = r;
                if *channel == 5 {
                    o.no_schema = true;
                }
                let o_first = o.clone();
                let res = guarded(|| {
                    if *reader {
                        serde_saphyr::from_reader_with_options::<_, Strict>(ScheduleReader::fixed(text.as_bytes(), 4096), o_first)
                    } else {
                        serde_saphyr::from_str_with_options::<Strict>(&text, o_first)
                    }
                });
                v.execs = 1;
                let what = format!("channel {} payload {} pad {}/{} crlf={} via {} (radius {})", CHANNELS[*channel as usize], PAYLOADS[*payload as usize].0, pad_before, pad_after, crlf, if *reader { "from_reader" } else { "from_str" }, r);
                match res {
                    Err(p) => v.fail("panic", format!("{}: {}", what, p)),
                    Ok(Ok(_)) => {
                        // the document was expected to fail; if the parser itself refuses the raw payload earlier that is
                        // still an error; Ok means this channel does not fire for this payload
                        v.rejected = true;
                        return v;
                    }
                    Ok(Err(e)) => {
                        v.nontrivial = true;
                        v.classes.push(match *channel {
                            0 => "ch_duplicate_key",
                            1 => "ch_unknown_field",
                            2 => "ch_unknown_variant",
                            3 => "ch_invalid_type",
                            4 => "ch_invalid_scalar",
                            5 => "ch_quoting_required",
                            _ => "ch_merge_value",
                        });
                        judge(&text, &e, r, *reader, &mut v, &what);
                        if v.fail.is_none() && !*reader {
                            judge_miette_label(&text, &e, &mut v, &what);
                            // the same document behind a byte-order mark, the source handed to the adapter as read
                            let bom_text = format!("{}{}", '\u{feff}', text);
                            if let Ok(Err(e2)) = guarded(|| serde_saphyr::from_str_with_options::<Strict>(&bom_text, o.clone())) {
                                v.execs += 1;
                                if v.fail.is_none() {
                                    judge_miette_label(&bom_text, &e2, &mut v, &format!("{} behind a byte-order mark", what));
                                }
                            }
                        }
                        if v.fail.is_none() {
                            // snippets switched off in the options: no rendering shows source lines
                            let mut o2 = o.clone();
                            o2.with_snippet = false;
                            let res2 = guarded(|| {
                                if *reader {
                                    serde_saphyr::from_reader_with_options::<_, Strict>(ScheduleReader::fixed(text.as_bytes(), 4096), o2)
                                } else {
                                    serde_saphyr::from_str_with_options::<Strict>(&text, o2)
                                }
                            });
                            v.execs += 1;
                            if let Ok(Err(e2)) = res2 {
                                match all_renders(&e2, None) {
                                    Err(p) => v.fail("render_panic", format!("{} (with_snippet=false): {}", what, p)),
                                    Ok(rs) => {
                                        for (name, t) in rs {
                                            v.compared += 1;
                                            if let Some(c) = has_forbidden(&t) {
                                                v.fail("control_character_in_report", format!("{} (with_snippet=false): {} contains U+{:04X}: {:?}", what, name, c as u32, t));
                                                break;
                                            }
                                            if !parse_snippet(&t).src.is_empty() {
                                                v.fail("snippet_shown_although_disabled", format!("{}: Options::with_snippet is false but {} shows source lines: {:?}", what, name, t));
                                                break;
                                            }
                                        }
                                    }
                                }
                            }
                        }
                        v.outcome = hash64(&(*channel, *payload, v.classes.clone()));
                    }
                }
            }
            Case::Wide { line_no, items_before, items_after, reader, radius } => {
                let text = wide_doc(*line_no, *items_before, *items_after);
                let r = RADII[*radius as usize];
                let mut o = serde_saphyr::Options::default();
                o.crop_radius = r;
                let res = guarded(|| {
                    if *reader {
                        serde_saphyr::from_reader_with_options::<_, WideDoc>(ScheduleReader::fixed(text.as_bytes(), 4096), o)
                    } else {
                        serde_saphyr::from_str_with_options::<WideDoc>(&text, o)
                    }
                });
                v.execs = 1;
                let what = format!("flow sequence line {} with `oops` after {} items and {} items after it via {} (radius {})", line_no, items_before, items_after, if *reader { "from_reader" } else { "from_str" }, r);
                match res {
                    Err(p) => v.fail("panic", format!("{}: {}", what, p)),
                    Ok(Ok(_)) => v.fail("expected_error", format!("{}: accepted", what)),
                    Ok(Err(e)) => {
                        v.nontrivial = true;
                        v.classes.push("wide_line");
                        let want = (*line_no as u64, 5 + 3 * *items_before as u64);
                        match e.location() {
                            Some(l) if (l.line(), l.column()) == want => {}
                            other => {
                                v.fail("wide_line_error_position", format!("{}: `oops` is at {:?} but the error reports {:?}", what, want, other.map(|l| (l.line(), l.column()))));
                                return v;
                            }
                        }
                        judge(&text, &e, r, *reader, &mut v, &what);
                        if v.fail.is_none() && !*reader {
                            judge_miette_label(&text, &e, &mut v, &what);
                        }
                        v.outcome = hash64(&(*reader, v.classes.clone()));
                    }
                }
            }
            Case::ValidLines { krate, mask, gap, radius } => {
                let text = valid_lines_doc(*mask, *gap);
                let r = RADII[*radius as usize];
                let mut o = serde_saphyr::Options::default();
                o.crop_radius = r;
                let res = guarded(|| {
                    if *krate == 0 {
                        serde_saphyr::from_str_with_options_valid::<val::g::Eight>(&text, o).map(|_| ())
                    } else {
                        serde_saphyr::from_str_with_options_validate::<val::v::Eight>(&text, o).map(|_| ())
                    }
                });
                v.execs = 1;
                let what = format!("{:?} validated with {} (radius {})", text, ["garde", "validator"][*krate as usize], r);
                match res {
                    Err(p) => v.fail("panic", format!("{}: {}", what, p)),
                    Ok(Ok(())) => v.fail("expected_error", format!("{}: accepted", what)),
                    Ok(Err(e)) => {
                        v.nontrivial = mask.count_ones() > 1;
                        v.classes.push("validation_report");
                        let bad: Vec<(u64, u64)> = (0..8u64).filter(|i| mask & (1 << i) != 0).map(|i| (1 + i * (1 + *gap as u64), 4)).collect();
                        judge_validation(&text, &e, &bad, r, &mut v, &what);
                        v.outcome = hash64(&(*krate, *mask, *gap));
                    }
                }
            }
            Case::ValidReflect { krate, shape, payload, radius } => {
                let text = valid_reflect_doc(*shape, *payload);
                let r = RADII[*radius as usize];
                let mut o = serde_saphyr::Options::default();
                o.crop_radius = r;
                let res = guarded(|| match (*krate, *shape) {
                    (0, 1) => serde_saphyr::from_str_with_options_valid::<val::g::Name>(&text, o).map(|_| ()),
                    (0, _) => serde_saphyr::from_str_with_options_valid::<val::g::KeyMap>(&text, o).map(|_| ()),
                    (_, 1) => serde_saphyr::from_str_with_options_validate::<val::v::Name>(&text, o).map(|_| ()),
                    _ => serde_saphyr::from_str_with_options_validate::<val::v::KeyMap>(&text, o).map(|_| ()),
                });
                v.execs = 1;
                let what = format!("{:?} validated with {} (radius {})", text, ["garde", "validator"][*krate as usize], r);
                match res {
                    Err(p) => v.fail("panic", format!("{}: {}", what, p)),
                    Ok(Ok(())) => v.fail("expected_error", format!("{}: accepted", what)),
                    Ok(Err(e)) => {
                        v.nontrivial = true;
                        v.classes.push(match e.without_snippet() {
                            serde_saphyr::Error::ValidationError { .. } | serde_saphyr::Error::ValidatorError { .. } => "validation_report_reflecting_input",
                            _ => "validation_input_refused_earlier",
                        });
                        judge_validation(&text, &e, &[], r, &mut v, &what);
                        v.outcome = hash64(&(*krate, *shape, *payload));
                    }
                }
            }
            Case::Long { lines_before, crlf, tail, chunk, reader, radius } => {
                let text = long_doc(*lines_before, *crlf, *tail);
                let r = RADII[*radius as usize];
                let mut o = serde_saphyr::Options::default();
                o.crop_radius = r;
                let res = guarded(|| {
                    if *reader {
                        serde_saphyr::from_reader_with_options::<_, std::collections::BTreeMap<String, u32>>(ScheduleReader::fixed(text.as_bytes(), *chunk as usize), o)
                    } else {
                        serde_saphyr::from_str_with_options::<std::collections::BTreeMap<String, u32>>(&text, o)
                    }
                });
                v.execs = 1;
                let what = format!("{} lines, then `broken_entry: not_a_number`, then {} lines ({}) via {} (reads of {} bytes, radius {})", lines_before, tail, if *crlf { "CRLF" } else { "LF" }, if *reader { "from_reader" } else { "from_str" }, chunk, r);
                match res {
                    Err(p) => v.fail("panic", format!("{}: {}", what, p)),
                    Ok(Ok(_)) => v.fail("expected_error", format!("{}: accepted", what)),
                    Ok(Err(e)) => {
                        v.nontrivial = true;
                        v.classes.push("long_document");
                        let want_line = *lines_before as u64 + 1;
                        match e.location() {
                            Some(l) if l.line() == want_line => {}
                            other => {
                                v.fail("long_document_error_line", format!("{}: the offending line is {} but the error reports {:?}", what, want_line, other.map(|l| (l.line(), l.column()))));
                                return v;
                            }
                        }
                        judge(&text, &e, r, *reader, &mut v, &what);
                        if v.fail.is_none() && *reader && r > 0 {
                            // the offending line is among the last bytes read: the recent-bytes window covers it
                            let sn = parse_snippet(&e.render());
                            if sn.src.is_empty() {
                                v.fail("reader_snippet_missing", format!("{}: the offending line is within the last {} bytes read but the report has no snippet: {:?}", what, 40 + 10 * *tail as usize, e.render()));
                                return v;
                            }
                        }
                        v.outcome = hash64(&(*reader, *crlf, v.classes.clone()));
                    }
                }
            }
        }
        v
    }
    fn shrink(&self, c: &Case) -> Vec<Case> {
        let mut out = Vec::new();
        match c {
            Case::ValidLines { krate, mask, gap, radius } => {
                for i in 0..8 {
                    if mask & (1 << i) != 0 && mask.count_ones() > 1 {
                        out.push(Case::ValidLines { krate: *krate, mask: mask & !(1 << i), gap: *gap, radius: *radius });
                    }
                }
                if *gap > 0 {
                    out.push(Case::ValidLines { krate: *krate, mask: *mask, gap: gap - 1, radius: *radius });
                }
                if *radius != 4 {
                    out.push(Case::ValidLines { krate: *krate, mask: *mask, gap: *gap, radius: 4 });
                }
            }
            Case::ValidReflect { krate, shape, payload, radius } => {
                if *radius != 4 {
                    out.push(Case::ValidReflect { krate: *krate, shape: *shape, payload: *payload, radius: 4 });
                }
            }
            Case::Wide { line_no, items_before, items_after, reader, radius } => {
                let mk = |ln: u8, ib: u32, ia: u32, rd: bool, ra: u8| Case::Wide { line_no: ln, items_before: ib, items_after: ia, reader: rd, radius: ra };
                for ib in [items_before / 2, items_before.saturating_sub(1)] {
                    if ib != *items_before {
                        out.push(mk(*line_no, ib, *items_after, *reader, *radius));
                    }
                }
                for ia in [items_after / 2, items_after.saturating_sub(1)] {
                    if ia != *items_after {
                        out.push(mk(*line_no, *items_before, ia, *reader, *radius));
                    }
                }
                if *line_no > 1 {
                    out.push(mk(line_no - 1, *items_before, *items_after, *reader, *radius));
                }
                if *reader {
                    out.push(mk(*line_no, *items_before, *items_after, false, *radius));
                }
                if *radius != 4 {
                    out.push(mk(*line_no, *items_before, *items_after, *reader, 4));
                }
            }
            Case::Long { lines_before, crlf, tail, chunk, reader, radius } => {
                let mk = |lb: u32, cr: bool, tl: u8, rd: bool, ra: u8| Case::Long { lines_before: lb, crlf: cr, tail: tl, chunk: *chunk, reader: rd, radius: ra };
                for lb in [lines_before / 2, lines_before.saturating_sub(1)] {
                    if lb != *lines_before {
                        out.push(mk(lb, *crlf, *tail, *reader, *radius));
                    }
                }
                if *crlf {
                    out.push(mk(*lines_before, false, *tail, *reader, *radius));
                }
                if *tail > 0 {
                    out.push(mk(*lines_before, *crlf, 0, *reader, *radius));
                }
                if *reader {
                    out.push(mk(*lines_before, *crlf, *tail, false, *radius));
                }
                if *radius != 4 {
                    out.push(mk(*lines_before, *crlf, *tail, *reader, 4));
                }
            }
            Case::Token { tokens, target, reader, radius } => {
                for i in 0..tokens.len() {
                    let mut t = tokens.clone();
                    t.remove(i);
                    out.push(Case::Token { tokens: t, target: *target, reader: *reader, radius: *radius });
                }
                if *reader {
                    out.push(Case::Token { tokens: tokens.clone(), target: *target, reader: false, radius: *radius });
                }
                if *radius != 4 {
                    out.push(Case::Token { tokens: tokens.clone(), target: *target, reader: *reader, radius: 4 });
                }
                if *target != 0 {
                    out.push(Case::Token { tokens: tokens.clone(), target: 0, reader: *reader, radius: *radius });
                }
            }
            Case::Gen { channel, payload, pad_before, pad_after, crlf, reader, radius } => {
                let mk = |pb: u32, pa: u32, cr: bool, rd: bool, ra: u8| Case::Gen { channel: *channel, payload: *payload, pad_before: pb, pad_after: pa, crlf: cr, reader: rd, radius: ra };
                if *pad_before > 0 {
                    out.push(mk(0, *pad_after, *crlf, *reader, *radius));
                }
                if *pad_after > 0 {
                    out.push(mk(*pad_before, 0, *crlf, *reader, *radius));
                }
                if *crlf {
                    out.push(mk(*pad_before, *pad_after, false, *reader, *radius));
                }
                if *reader {
                    out.push(mk(*pad_before, *pad_after, *crlf, false, *radius));
                }
                if *radius != 4 {
                    out.push(mk(*pad_before, *pad_after, *crlf, *reader, 4));
                }
            }
        }
        out
    }
    fn key(&self, c: &Case, clause: &str) -> String {
        match c {
            Case::Token { tokens, target, reader, radius } => format!(
                "{}|{:?}|{}|{}|radius={}",
                clause,
                String::from_utf8_lossy(&crate::props::c01::input_of(tokens)),
                space01::TARGETS[*target as usize],
                if *reader { "from_reader" } else { "from_str" },
                RADII[*radius as usize]
            ),
            Case::ValidLines { krate, mask, gap, radius } => format!("{}|validation failing fields {:#010b} gap={}|{}|radius={}", clause, mask, gap, ["garde", "validator"][*krate as usize], RADII[*radius as usize]),
            Case::ValidReflect { krate, shape, payload, radius } => {
                format!("{}|validation reflecting {} {}|{}|radius={}", clause, ["map key in path", "value", "key on the line"][*shape as usize], PAYLOADS[*payload as usize].0, ["garde", "validator"][*krate as usize], RADII[*radius as usize])
            }
            Case::Wide { line_no, items_before, items_after, reader, radius } => {
                format!("{}|wide line={} items_before={} items_after={}|{}|radius={}", clause, line_no, items_before, items_after, if *reader { "from_reader" } else { "from_str" }, RADII[*radius as usize])
            }
            Case::Long { lines_before, crlf, tail, chunk, reader, radius } => {
                format!("{}|long lines_before={} tail={}|{}|{}|chunk={}|radius={}", clause, lines_before, tail, if *crlf { "CRLF" } else { "LF" }, if *reader { "from_reader" } else { "from_str" }, chunk, RADII[*radius as usize])
            }
            Case::Gen { channel, payload, pad_before, pad_after, crlf, reader, radius } => format!(
                "{}|{}|{}|pad={}/{}|crlf={}|{}|radius={}",
                clause,
                CHANNELS[*channel as usize],
                PAYLOADS[*payload as usize].0,
                pad_before,
                pad_after,
                crlf,
                if *reader { "from_reader" } else { "from_str" },
                RADII[*radius as usize]
            ),
        }
    }
}

fn exec_with(input: &[u8], target: u8, entry: u8, o: serde_saphyr::Options) -> space01::Exec {
    // same targets as the C01 space, but with caller-supplied options
    space01::exec_opts(input, target, entry, o)
}

pub fn run(ctx: &Ctx) -> i32 {
    let p = C17;
    // (a) failing pairs of the token space
    static IDX: [&str; 36] = ["x"; 36];
    let max_len = ctx.tier.pick(2, 3);
    let sp = StrSpace::new(&IDX[..space01::TOKENS.len()], max_len);
    let n_t = space01::TARGETS.len() as u64;
    let radii: Vec<u8> = ctx.tier.pick(vec![1u8, 4], vec![0u8, 1, 2, 3, 4, 5]);
    let nr = radii.len() as u64;
    let total = sp.len() * n_t * 2 * nr;
    let mut acc = run_indexed(&p, total, |i| {
        let radius = radii[(i % nr) as usize];
        let r = i / nr;
        let reader = r % 2 == 1;
        let r = r / 2;
        let target = (r % n_t) as u8;
        if target == 4 && reader {
            return None;
        }
        let tokens: Vec<u8> = sp.tokens(r / n_t).into_iter().map(|t| t as u8).collect();
        Some(Case::Token { tokens, target, reader, radius })
    });
    // (b) reflection channels x payloads x line shapes x radii x entry
    let pads: Vec<u32> = ctx.tier.pick(vec![0, 1, 6, 70, 5000], vec![0, 1, 2, 6, 7, 8, 63, 64, 65, 129, 5000, 20000]);
    let mut cases = Vec::new();
    for channel in 0..CHANNELS.len() as u8 {
        for payload in 0..PAYLOADS.len() as u8 {
            for &pb in &pads {
                for &pa in &pads {
                    if ctx.tier == Tier::Quick && pb != 0 && pa != 0 && pb != pa {
                        continue;
                    }
                    for crlf in [false, true] {
                        for reader in [false, true] {
                            for radius in 0..RADII.len() as u8 {
                                if ctx.tier == Tier::Quick && (crlf && reader) {
                                    continue;
                                }
                                cases.push(Case::Gen { channel, payload, pad_before: pb, pad_after: pa, crlf, reader, radius });
                            }
                        }
                    }
                }
            }
        }
    }
    // (c) long documents: every length around the reader's window (lines of 12-14 bytes) x LF|CRLF x tails x reads
    let lens: Vec<u32> = ctx.tier.pick((0..=40).map(|i| i * 10).chain([600, 1000, 3000]).collect(), (0..=1200).chain([3000, 10_000, 50_000]).collect());
    for &lb in &lens {
        for crlf in [false, true] {
            for tail in [0u8, 3] {
                for (reader, chunk) in [(false, 0u32), (true, 1), (true, 1000), (true, 8192)] {
                    if ctx.tier == Tier::Quick && reader && chunk == 1 && lb > 400 {
                        continue;
                    }
                    for radius in ctx.tier.pick(vec![4u8], vec![1u8, 4]) {
                        cases.push(Case::Long { lines_before: lb, crlf, tail, chunk, reader, radius });
                    }
                }
            }
        }
    }
    // (d) wide lines: the offending item anywhere on a long flow-sequence line, on every line number up to 6
    for line_no in 1..=6u8 {
        for &ib in ctx.tier.pick(&[0u32, 1, 2, 20, 22, 40, 100, 1400, 3000][..], &[0u32, 1, 2, 3, 10, 20, 21, 22, 23, 40, 41, 42, 43, 44, 100, 700, 1365, 1366, 1400, 3000, 6000][..]) {
            for &ia in &[0u32, 1, 30, 1500] {
                for reader in [false, true] {
                    for radius in 0..RADII.len() as u8 {
                        if ctx.tier == Tier::Quick && reader && radius != 4 {
                            continue;
                        }
                        cases.push(Case::Wide { line_no, items_before: ib, items_after: ia, reader, radius });
                    }
                }
            }
        }
    }
    // (e) validation reports: every subset of eight failing one-line fields x spacing; reflected input text
    for krate in 0..2u8 {
        for mask in 1..=255u8 {
            for gap in 0..ctx.tier.pick(2u8, 5u8) {
                for radius in ctx.tier.pick(vec![4u8], vec![1u8, 4, 5]) {
                    cases.push(Case::ValidLines { krate, mask, gap, radius });
                }
            }
        }
        for shape in 0..3u8 {
            for payload in 0..PAYLOADS.len() as u8 {
                for radius in 0..RADII.len() as u8 {
                    cases.push(Case::ValidReflect { krate, shape, payload, radius });
                }
            }
        }
    }
    acc = acc.merge(run_list(&p, &cases));
    acc.notes.insert("generated_cases".into(), json!(cases.len()));
    acc.samples.truncate(0);
    acc.samples.push(json!({"channel": "duplicate_key", "payload": "esc_seq_escaped", "document": gen_doc(0, 1, 1, 1, false)}));
    let meta = Meta {
        level: "model_checking",
        rule: "(a) every failing (input, target) pair of the C01 token space up to the length bound, via from_str and from_reader, x crop radii; (b) 7 reflection channels x 12 payloads (terminal escapes written as YAML escapes and raw) x padding before/after the reflected text (multi-byte, up to 20000 characters) x LF|CRLF x from_str|from_reader x 6 crop radii; each error rendered with Display, render, user formatter, custom formatter, snippets off and (string input) the miette adapter; non-trivial = the input contains a character that must be neutralised or a line longer than the radius".into(),
        exhaustive: true,
        bounds: json!({"max_tokens": max_len, "radii": RADII, "channels": CHANNELS, "payloads": PAYLOADS.iter().map(|p| p.0).collect::<Vec<_>>(), "paddings": pads}),
        assumptions: vec![
            "source lines of a report are recognised by the gutter '<number> |'; the marker line by '| ^'".into(),
            "window / line / marker clauses are judged only on renderings that contain a snippet; a missing snippet is a violation only for string input with an in-bounds location and radius > 0".into(),
            "inputs of the known reader-hang class (C01) are not fed to reader entry points".into(),
        ],
    };
    finish(ctx, meta, acc)
}

pub fn replay_file(ctx: &Ctx, path: &str) -> i32 {
    replay(&C17, ctx, path)
}
