//! C10 — I/O faults and the input-size cap are never swallowed (reader and writer).
use crate::common::SerOpts;
use crate::engine::*;
use crate::props::c13;
use crate::readers::*;
use crate::tree::Tree;
use serde::{Deserialize, Serialize};
use serde_json::json;
use std::io::ErrorKind;

#[derive(Clone, Debug, Serialize, Deserialize)]
pub enum Case {
    Read { text: String, chunk: usize, fault: Fault, kind: u8, entry: u8 },
    Cap { text: String, chunk: usize, cap: usize, entry: u8 },
    Endless { prefix: String, filler: String, cap: usize, entry: u8 },
    Write { value_idx: usize, fail_at: usize, kind: u8 },
}

pub const ENTRIES: [&str; 4] = ["from_reader", "with_deserializer_from_reader", "read (iterator)", "read (iterator) into Vec<i64>"];

fn kind_of(k: u8) -> ErrorKind {
    match k {
        0 => ErrorKind::Other,
        1 => ErrorKind::ConnectionReset,
        // what a reader over a cut compressed / framed stream reports: a failure, not the end of input
        3 => ErrorKind::UnexpectedEof,
        _ => ErrorKind::WriteZero,
    }
}

pub fn documents() -> Vec<String> {
    let mut v: Vec<String> = vec![
        "a\n".into(),
        "1\n".into(),
        "~\n".into(),
        "a: 1\n".into(),
        "a: 1\nb: 2\n".into(),
        "- 1\n- 2\n".into(),
        "[1, 2]\n".into(),
        "{a: 1}\n".into(),
        "a: [1, {b: 2}]\n".into(),
        "a:\n  b:\n    c: d\n".into(),
        "k: |\n  line1\n  line2\n".into(),
        "\"quoted\"\n".into(),
        "é\n".into(),
        "a: €\n".into(),
        "- 😀\n".into(),
        "a: é€😀\n".into(),
        // every prefix at a line boundary is itself a complete document
        "a: 1\nb: 2\nc: 3\nd: 4\n".into(),
        "- a\n- b\n- c\n- d\n".into(),
        "1\n2\n".into(),
        // multi-document streams
        "---\n1\n---\n22\n".into(),
        "---\na: 1\n---\nb: 2\n---\nc: 3\n".into(),
        "a: 1\n...\n---\nb: 2\n".into(),
        "---\n~\n---\n5\n".into(),
        "---\n---\n7\n".into(),
        // trailing region after the content
        "a: 1\n...\n# trailing comment that is long\n".into(),
        "a: 1\n# comment\n\n\n".into(),
        "k: |\n  text\n# c\n".into(),
        // a byte-order mark in front (the decoding layer must not turn a cut character into U+FFFD)
        "\u{feff}a: €\n".into(),
        "\u{feff}- é\n- 😀\n".into(),
        // a stream whose first document fails the type of the target: the iterator skips to the next document
        "a: 1\nb: 2\nc: 3\nd: 4\n---\n- 5\n".into(),
        "a: &x 1\nb: *x\n".into(),
        "s: &m {u: 1}\nt:\n  <<: *m\n".into(),
        "a: 1 # é\n".into(),
        "\u{feff}a: 1\n".into(),
        "a: 'x\n  y'\n".into(),
    ];
    // long line crossing internal buffer sizes is covered by the endless family
    v.push(format!("k: {}\n", "x".repeat(40)));
    v
}

type Obs = Result<String, String>;

fn variant_of(e: &serde_saphyr::Error) -> String {
    let dbg = format!("{:?}", e.without_snippet());
    dbg.chars().take_while(|c| c.is_alphanumeric()).collect()
}

/// returns (observation, is_io_error, io_kind)
fn single(entry: u8, rd: FaultReader, cap: Option<Option<usize>>) -> Result<(Obs, bool, Option<ErrorKind>), String> {
    guarded(move || {
        let mut o = serde_saphyr::Options::default();
        if let Some(c) = cap {
            let mut b = serde_saphyr::Budget::default();
            b.max_reader_input_bytes = c;
            o.budget = Some(b);
        }
        let r = match entry {
            0 => serde_saphyr::from_reader_with_options::<_, Tree>(rd, o),
            _ => serde_saphyr::with_deserializer_from_reader_with_options(rd, o, |d| Tree::deserialize(d)),
        };
        match r {
            Ok(v) => (Ok(format!("{:?}", v)), false, None),
            Err(e) => {
                let (io, kind) = match e.without_snippet() {
                    serde_saphyr::Error::IOError { cause } => (true, Some(cause.kind())),
                    _ => (false, None),
                };
                (Err(variant_of(&e)), io, kind)
            }
        }
    })
}

/// drain the iterator: list of items ("ok:<value>" / "err:<variant>"), whether it ended within the cap
fn iterate(rd: FaultReader, cap_items: usize) -> Result<(Vec<Obs>, bool), String> {
    iterate_as::<Tree>(rd, cap_items)
}

fn iterate_as<T: serde::de::DeserializeOwned + std::fmt::Debug>(mut rd: FaultReader, cap_items: usize) -> Result<(Vec<Obs>, bool), String> {
    guarded(move || {
        let it = serde_saphyr::read::<_, T>(&mut rd);
        let mut out = Vec::new();
        let mut ended = false;
        let mut it = it;
        for _ in 0..cap_items {
            match it.next() {
                None => {
                    ended = true;
                    break;
                }
                Some(Ok(v)) => out.push(Ok(format!("{:?}", v))),
                Some(Err(e)) => out.push(Err(variant_of(&e))),
            }
        }
        (out, ended)
    })
}

pub struct C10 {
    pub values: Vec<crate::dynv::Dyn>,
}

impl Prop for C10 {
    type Case = Case;
    fn check(&self, c: &Case) -> Verdict {
        let mut v = Verdict::default();
        match c {
            Case::Read { text, chunk, fault, kind, entry } => {
                let bytes = text.as_bytes();
                let k = kind_of(*kind);
                if *entry < 2 {
                    let (clean_rd, _) = FaultReader::new(bytes, *chunk, Fault::None, k);
                    let clean = match single(*entry, clean_rd, None) {
                        Ok(x) => x,
                        Err(p) => {
                            v.fail("panic", p);
                            return v;
                        }
                    };
                    let (rd, stats) = FaultReader::new(bytes, *chunk, *fault, k);
                    let got = match single(*entry, rd, None) {
                        Ok(x) => x,
                        Err(p) => {
                            v.fail("panic", format!("{:?} {:?}: {}", text, fault, p));
                            return v;
                        }
                    };
                    v.execs = 2;
                    v.compared = 1;
                    let faulted = stats.faulted.get();
                    let eof_inside = matches!(fault, Fault::EofAfterByte(b) if *b < bytes.len() && !text.is_char_boundary(*b));
                    v.nontrivial = faulted || eof_inside;
                    if faulted {
                        v.classes.push("fault_reached");
                        // is the prefix handed out before the fault itself a complete document?
                        let given = stats.bytes.get();
                        if text.is_char_boundary(given) && serde_saphyr::from_str::<Tree>(&text[..given]).is_ok() && given > 0 {
                            v.classes.push("fault_after_complete_document_prefix");
                        }
                    }
                    if eof_inside {
                        v.classes.push("eof_inside_code_point");
                    }
                    v.outcome = hash64(&(faulted, eof_inside, got.0.is_ok(), got.1));
                    if faulted {
                        if got.0.is_ok() {
                            v.fail("reader_error_swallowed", format!("{:?} via {} (chunk {}), {:?}: the reader returned an error but the result is {:?}", text, ENTRIES[*entry as usize], chunk, fault, got.0));
                        } else if !got.1 {
                            // the statement only demands "an error"; which one is counted, not judged
                            v.classes.push("reader_fault_reported_as_non_io_error");
                        } else if got.2 != Some(k) {
                            v.fail("io_error_kind_lost", format!("{:?} via {}: injected {:?}, reported {:?}", text, ENTRIES[*entry as usize], k, got.2));
                        }
                    } else if eof_inside {
                        if got.0.is_ok() {
                            v.fail("truncated_code_point_accepted", format!("{:?} via {} (chunk {}), stream ends after byte {:?} inside a character: {:?}", text, ENTRIES[*entry as usize], chunk, fault, got.0));
                        }
                    } else if matches!(fault, Fault::None | Fault::AtRead(_)) {
                        // fault never reached: identical to the fault-free run
                        if got.0 != clean.0 {
                            v.fail("unreached_fault_changes_result", format!("{:?} via {}: {:?} vs fault-free {:?}", text, ENTRIES[*entry as usize], got.0, clean.0));
                        }
                    }
                } else {
                    let (clean_rd, _) = FaultReader::new(bytes, *chunk, Fault::None, k);
                    let n_docs = text.matches("---").count() + 3;
                    let typed = *entry == 3;
                    let run = |rd: FaultReader| if typed { iterate_as::<Vec<i64>>(rd, n_docs + 3) } else { iterate(rd, n_docs + 3) };
                    let (clean, clean_ended) = match run(clean_rd) {
                        Ok(x) => x,
                        Err(p) => {
                            v.fail("panic", p);
                            return v;
                        }
                    };
                    let (rd, stats) = FaultReader::new(bytes, *chunk, *fault, k);
                    let (got, ended) = match run(rd) {
                        Ok(x) => x,
                        Err(p) => {
                            v.fail("panic", format!("{:?} {:?}: {}", text, fault, p));
                            return v;
                        }
                    };
                    v.execs = 2;
                    v.compared = 1;
                    let faulted = stats.faulted.get();
                    v.nontrivial = faulted;
                    if faulted {
                        v.classes.push("iterator_fault_reached");
                    }
                    v.outcome = hash64(&(faulted, got.len(), ended));
                    if !ended || !clean_ended {
                        v.fail("iterator_does_not_end", format!("{:?} (chunk {}), {:?}: more than {} items", text, chunk, fault, n_docs + 3));
                        return v;
                    }
                    let oks: Vec<&Obs> = got.iter().filter(|o| o.is_ok()).collect();
                    let clean_oks: Vec<&Obs> = clean.iter().filter(|o| o.is_ok()).collect();
                    let eof_inside = matches!(fault, Fault::EofAfterByte(b) if *b < bytes.len() && !text.is_char_boundary(*b));
                    if faulted || eof_inside {
                        // an error item, and (documents may fail the target type for their own reasons) one that
                        // is about the reader
                        // about the reader: the items must not simply be a prefix of the fault-free items (a document
                        // may fail the target type for reasons of its own - that error is in the fault-free run too)
                        let no_trace = got.len() <= clean.len() && got.iter().zip(&clean).all(|(a, b)| a == b);
                        if !got.iter().any(|o| o.is_err()) || no_trace {
                            v.fail("iterator_swallows_reader_error", format!("{:?} (chunk {}), {:?}: items {:?} contain no error", text, chunk, fault, got));
                            return v;
                        }
                        if oks.len() > clean_oks.len() || oks.iter().zip(&clean_oks).any(|(a, b)| a != b) {
                            v.fail("iterator_items_not_a_prefix", format!("{:?} (chunk {}), {:?}: items {:?}, fault-free {:?}", text, chunk, fault, got, clean));
                        }
                    } else if matches!(fault, Fault::None | Fault::AtRead(_)) && got != clean {
                        v.fail("unreached_fault_changes_result", format!("{:?}: {:?} vs {:?}", text, got, clean));
                    }
                }
            }
            Case::Cap { text, chunk, cap, entry } => {
                let bytes = text.as_bytes();
                let (rd0, _) = FaultReader::new(bytes, *chunk, Fault::None, ErrorKind::Other);
                let nocap = match single(*entry, rd0, Some(None)) {
                    Ok(x) => x,
                    Err(p) => {
                        v.fail("panic", p);
                        return v;
                    }
                };
                let (rd, stats) = FaultReader::new(bytes, *chunk, Fault::None, ErrorKind::Other);
                let got = match single(*entry, rd, Some(Some(*cap))) {
                    Ok(x) => x,
                    Err(p) => {
                        v.fail("panic", p);
                        return v;
                    }
                };
                v.execs = 2;
                v.compared = 1;
                v.nontrivial = true;
                // convention: the cap applies to the decoded text (a byte-order mark consumed by the decoder is not counted)
                let decoded_len = text.strip_prefix('\u{feff}').unwrap_or(text).len();
                let over = decoded_len > *cap;
                if decoded_len != bytes.len() && bytes.len() > *cap && !over {
                    v.classes.push("cap_between_decoded_and_raw_length_unspecified");
                    return v;
                }
                v.classes.push(if over { "input_over_cap" } else { "input_within_cap" });
                v.outcome = hash64(&(over, got.0.is_ok()));
                if over {
                    if got.0.is_ok() {
                        v.fail("cap_exceeded_but_accepted", format!("{:?} ({} bytes) via {} with max_reader_input_bytes={}: {:?}", text, bytes.len(), ENTRIES[*entry as usize], cap, got.0));
                    }
                    // any error value is acceptable here: another definite error (second document, EOF) may be detected
                    // before the cap is reached; the property only forbids returning a value
                    if stats.bytes.get() > cap + 32 * 1024 {
                        v.fail("pulled_more_than_cap_plus_allowance", format!("pulled {} bytes with cap {}", stats.bytes.get(), cap));
                    }
                } else if got.0 != nocap.0 {
                    v.fail("cap_changes_result_of_small_input", format!("{:?} ({} bytes) cap {}: {:?} vs without cap {:?}", text, bytes.len(), cap, got.0, nocap.0));
                }
            }
            Case::Endless { prefix, filler, cap, entry } => {
                let (rd, stats) = FaultReader::endless(prefix.as_bytes(), filler.as_bytes(), 4096);
                let got = match single(*entry, rd, Some(Some(*cap))) {
                    Ok(x) => x,
                    Err(p) => {
                        v.fail("panic", p);
                        return v;
                    }
                };
                v.execs = 1;
                v.compared = 1;
                v.nontrivial = true;
                v.classes.push("endless_reader");
                v.outcome = hash64(&(got.0.is_ok(), stats.bytes.get() / 8192));
                if got.0.is_ok() {
                    v.fail("cap_exceeded_but_accepted", format!("endless input {:?}+{:?}* with cap {}: {:?}", prefix, filler, cap, got.0));
                } else if stats.bytes.get() > cap + 32 * 1024 {
                    v.fail("pulled_more_than_cap_plus_allowance", format!("endless input {:?}+{:?}*: pulled {} bytes with cap {}", prefix, filler, stats.bytes.get(), cap));
                }
            }
            Case::Write { value_idx, fail_at, kind } => {
                let val = &self.values[*value_idx];
                let o = SerOpts::default();
                let k = kind_of(*kind);
                let mut clean = FaultWriter::new(None, k);
                let r0 = guarded(|| serde_saphyr::to_io_writer_with_options(&mut clean, val, o.to_lib()));
                let full = clean.accepted.borrow().clone();
                let total_writes = clean.writes;
                let mut w = FaultWriter::new(Some(*fail_at), k);
                let r = guarded(|| serde_saphyr::to_io_writer_with_options(&mut w, val, o.to_lib()));
                v.execs = 2;
                v.compared = 1;
                let reached = w.faulted.get();
                v.nontrivial = reached;
                if reached {
                    v.classes.push("write_fault_reached");
                }
                v.outcome = hash64(&(reached, *fail_at == 0, *fail_at + 1 == total_writes));
                match (r0, r) {
                    (Err(p), _) | (_, Err(p)) => v.fail("panic", format!("{:?}: {}", val, p)),
                    (Ok(r0), Ok(r)) => {
                        if reached {
                            match r {
                                Ok(()) => v.fail("write_error_swallowed", format!("{:?}: write #{} failed but serialization returned Ok", val, fail_at)),
                                Err(serde_saphyr::ser::Error::IO { error }) => {
                                    if error.kind() != k {
                                        v.fail("write_error_kind_lost", format!("{:?}: injected {:?}, got {:?}", val, k, error.kind()));
                                    }
                                }
                                Err(other) => v.fail("write_error_not_io", format!("{:?}: write #{} failed with {:?} but got {:?}", val, fail_at, k, other)),
                            }
                            let acc = w.accepted.borrow();
                            if r0.is_ok() && !full.starts_with(&acc) {
                                v.fail("written_bytes_not_a_prefix", format!("{:?}: accepted {:?}, fault-free output {:?}", val, String::from_utf8_lossy(&acc), String::from_utf8_lossy(&full)));
                            }
                        }
                    }
                }
            }
        }
        v
    }
    fn shrink(&self, c: &Case) -> Vec<Case> {
        let mut out = Vec::new();
        match c {
            Case::Read { text, chunk, fault, kind, entry } => {
                if *kind != 0 {
                    out.push(Case::Read { text: text.clone(), chunk: *chunk, fault: *fault, kind: 0, entry: *entry });
                }
                for ch in [4096usize, 1] {
                    if ch != *chunk {
                        out.push(Case::Read { text: text.clone(), chunk: ch, fault: *fault, kind: *kind, entry: *entry });
                    }
                }
            }
            _ => {}
        }
        out
    }
    fn key(&self, c: &Case, clause: &str) -> String {
        match c {
            Case::Read { text, chunk, fault, entry, .. } => format!("{}|{:?}|chunk={}|{:?}|{}", clause, text, chunk, fault, ENTRIES[*entry as usize]),
            Case::Cap { text, cap, entry, .. } => format!("{}|{:?}|cap={}|{}", clause, text, cap, ENTRIES[*entry as usize]),
            Case::Endless { prefix, filler, cap, entry } => format!("{}|endless {:?}+{:?}|cap={}|{}", clause, prefix, filler, cap, ENTRIES[*entry as usize]),
            Case::Write { value_idx, fail_at, .. } => format!("{}|{:?}|write#{}", clause, self.values[*value_idx], fail_at),
        }
    }
}

pub fn run(ctx: &Ctx) -> i32 {
    let vals: Vec<crate::dynv::Dyn> = c13::values_by_size(ctx.tier.pick(3, 4)).into_iter().flatten().collect();
    let p = C10 { values: vals };
    let docs = documents();
    let mut cases = Vec::new();
    for text in &docs {
        let n = text.len();
        for chunk in [1usize, 3, 4096] {
            let reads = n.div_ceil(chunk) + 2;
            for entry in 0..4u8 {
                for kind in [0u8, 1, 3] {
                    for k in 0..=reads {
                        cases.push(Case::Read { text: text.clone(), chunk, fault: Fault::AtRead(k), kind, entry });
                    }
                    if kind == 0 || chunk == 3 {
                        for b in 0..=n {
                            cases.push(Case::Read { text: text.clone(), chunk, fault: Fault::AfterByte(b), kind, entry });
                        }
                    }
                }
                for b in 0..n {
                    if !text.is_char_boundary(b) {
                        cases.push(Case::Read { text: text.clone(), chunk, fault: Fault::EofAfterByte(b), kind: 0, entry });
                    }
                }
            }
        }
        for entry in 0..2u8 {
            for chunk in [1usize, 4096] {
                let mut caps = vec![0usize, 1, n.saturating_sub(2), n.saturating_sub(1), n, n + 1, n + 2];
                caps.dedup();
                for cap in caps {
                    cases.push(Case::Cap { text: text.clone(), chunk, cap, entry });
                }
            }
        }
    }
    for entry in 0..2u8 {
        for (prefix, filler) in [("a: ", "x"), ("- 1\n", "- 1\n"), ("# ", "c"), ("k: |\n", "  t\n"), ("a: 1\n...\n", "# c\n"), ("", " ")] {
            for cap in [0usize, 10, 1000, 100_000] {
                cases.push(Case::Endless { prefix: prefix.into(), filler: filler.into(), cap, entry });
            }
        }
    }
    // writer faults: every write position of every value
    for (i, val) in p.values.iter().enumerate() {
        let mut w = FaultWriter::new(None, ErrorKind::Other);
        let _ = serde_saphyr::to_io_writer_with_options(&mut w, val, SerOpts::default().to_lib());
        for k in 0..w.writes {
            cases.push(Case::Write { value_idx: i, fail_at: k, kind: 0 });
            if k < 3 {
                cases.push(Case::Write { value_idx: i, fail_at: k, kind: 2 });
            }
        }
    }
    let mut acc = run_list(&p, &cases);
    acc.notes.insert("documents".into(), json!(docs.len()));
    acc.notes.insert("writer_values".into(), json!(p.values.len()));
    let meta = Meta {
        level: "fault_enumeration",
        rule: "for every document of the corpus x chunking {1,3,whole} x entry point: the k-th read fails for EVERY k, a read fails after EVERY byte offset, the stream ends inside EVERY multi-byte character; input caps {0,1,n-2..n+2}; endless readers; for every value of the C13 corpus the k-th write fails for EVERY k. Non-trivial = the fault point was actually reached (the reader/writer really returned the error)".into(),
        exhaustive: true,
        bounds: json!({"documents": docs.len(), "chunkings": [1, 3, 4096], "error_kinds": ["Other", "ConnectionReset", "UnexpectedEof", "WriteZero"], "entry_points": ENTRIES}),
        assumptions: vec!["the instrumented reader keeps failing after the first injected error (a hard, non-Interrupted error)".into(), "buffering allowance for the cap: 32 KiB".into()],
    };
    finish(ctx, meta, acc)
}

pub fn replay_file(ctx: &Ctx, path: &str) -> i32 {
    let vals: Vec<crate::dynv::Dyn> = c13::values_by_size(4).into_iter().flatten().collect();
    replay(&C10 { values: vals }, ctx, path)
}
