//! C03 — merge keys equal the explicitly merged mapping.
use crate::doc::*;
use crate::engine::*;
use crate::tree::Tree;
use serde::de::IgnoredAny;
use serde::{Deserialize, Serialize};
use serde_json::json;
use serde_saphyr::options::DuplicateKeyPolicy;
use std::collections::BTreeMap;

#[derive(Clone, Debug, Serialize, Deserialize)]
pub struct Case {
    /// indices into MENU
    pub entries: Vec<u8>,
    /// 0 Error, 1 FirstWins, 2 LastWins
    pub policy: u8,
    pub target: u8,
    /// 0 block, 1 flow inside
    pub layout: u8,
}

pub const TARGETS: [&str; 4] = ["Tree", "BTreeMap<String,i64>", "struct{k,x,y,z,w:Option<i64>}", "Vec<(String,i64)> collector"];
pub const POLICIES: [&str; 3] = ["Error", "FirstWins", "LastWins"];

#[derive(Clone, Debug)]
enum Ent {
    Own(&'static str, i64),
    /// merge entry whose value is the given node
    Merge(Node),
    /// `<<` look-alike key (quoted / tagged): ordinary entry
    Look(Node, i64),
}

fn al(n: &str) -> Node {
    Node::alias(n)
}
fn imap(es: &[(&str, i64)]) -> Node {
    Node::map(es.iter().map(|(k, v)| (Node::plain(k), Node::plain(&v.to_string()))).collect()).flowed()
}
fn mk(k: Node, v: Node) -> (Node, Node) {
    (k, v)
}

fn menu() -> Vec<(Ent, &'static str, bool)> {
    // (entry, label, invalid merge value?)
    vec![
        (Ent::Own("k", 10), "k: 10", false),
        (Ent::Own("x", 11), "x: 11", false),
        (Ent::Own("z", 12), "z: 12", false),
        (Ent::Merge(al("s1")), "<<: *s1", false),
        (Ent::Merge(al("s2")), "<<: *s2", false),
        (Ent::Merge(al("s3")), "<<: *s3 (nested merge)", false),
        (Ent::Merge(imap(&[("k", 20), ("y", 21)])), "<<: {k: 20, y: 21}", false),
        (Ent::Merge(Node::seq(vec![al("s1"), al("s2")]).flowed()), "<<: [*s1, *s2]", false),
        (Ent::Merge(Node::seq(vec![al("s2"), al("s1")]).flowed()), "<<: [*s2, *s1]", false),
        (Ent::Merge(Node::seq(vec![Node::seq(vec![al("s1")]).flowed(), imap(&[("x", 30)])]).flowed()), "<<: [[*s1], {x: 30}]", false),
        (Ent::Merge(Node::plain("~")), "<<: ~", false),
        (
            Ent::Merge(Node::map(vec![mk(Node::plain("<<"), al("s2")), mk(Node::plain("k"), Node::plain("40"))]).flowed()),
            "<<: {<<: *s2, k: 40}",
            false,
        ),
        (Ent::Merge(al("s4")), "<<: *s4 (source with two << entries)", false),
        (Ent::Merge(al("s5")), "<<: *s5 (source with a << sequence)", false),
        (
            Ent::Merge(Node::map(vec![mk(Node::plain("<<"), al("s1")), mk(Node::plain("<<"), al("s2"))]).flowed()),
            "<<: {<<: *s1, <<: *s2}",
            false,
        ),
        (
            Ent::Merge(Node::seq(vec![Node::map(vec![mk(Node::plain("<<"), al("s2")), mk(Node::plain("<<"), al("s1")), mk(Node::plain("z"), Node::plain("50"))]).flowed(), al("s3")]).flowed()),
            "<<: [{<<: *s2, <<: *s1, z: 50}, *s3]",
            false,
        ),
        (Ent::Merge(Node::plain("5")), "<<: 5", true),
        (Ent::Merge(Node::seq(vec![Node::plain("1")]).flowed()), "<<: [1]", true),
        (Ent::Merge(Node::seq(vec![al("s1"), Node::plain("5")]).flowed()), "<<: [*s1, 5]", true),
        (Ent::Look(Node::scalar("<<", Style::Double), 7), "\"<<\": 7", false),
        (Ent::Look(Node::scalar("<<", Style::Single), 8), "'<<': 8", false),
        (Ent::Look(Node::plain("<<").tagged("!!str"), 9), "!!str <<: 9", false),
        (Ent::Look(Node::plain("<<").tagged("!"), 6), "! <<: 6", false),
    ]
}

fn sources() -> Vec<(&'static str, Node)> {
    vec![
        ("s1", Node::map(vec![mk(Node::plain("k"), Node::plain("1")), mk(Node::plain("x"), Node::plain("2"))])),
        ("s2", Node::map(vec![mk(Node::plain("x"), Node::plain("3")), mk(Node::plain("y"), Node::plain("4"))])),
        ("s3", Node::map(vec![mk(Node::plain("<<"), al("s1")), mk(Node::plain("y"), Node::plain("5"))])),
        ("s4", Node::map(vec![mk(Node::plain("<<"), al("s1")), mk(Node::plain("<<"), al("s2")), mk(Node::plain("w"), Node::plain("6"))])),
        ("s5", Node::map(vec![mk(Node::plain("<<"), Node::seq(vec![al("s2"), al("s3")]).flowed()), mk(Node::plain("w"), Node::plain("7"))])),
    ]
}

fn is_merge_key(k: &Node) -> bool {
    k.tag.is_none() && matches!(&k.kind, Kind::Scalar { text, style: Style::Plain } if text == "<<")
}

fn key_id(k: &Node) -> String {
    match &k.kind {
        Kind::Scalar { text, .. } => format!("{}|{:?}", text, k.tag),
        _ => k.show(),
    }
}

/// Reference merge: returns the explicit entry list of mapping `m` (aliases resolved through `env`), or Err
/// for an invalid merge value.
fn ref_merge(m: &Node, env: &BTreeMap<String, Node>) -> Result<Vec<(Node, Node)>, String> {
    let entries = match &m.kind {
        Kind::Map(es) => es,
        _ => return Err("not a mapping".into()),
    };
    let mut out: Vec<(Node, Node)> = Vec::new();
    let mut merge_values: Vec<Node> = Vec::new();
    for (k, v) in entries {
        if is_merge_key(k) {
            merge_values.push(v.clone());
        } else {
            out.push((k.clone(), v.clone()));
        }
    }
    let mut seen: Vec<String> = out.iter().map(|(k, _)| key_id(k)).collect();
    // sources in document order, then taken from last to first
    fn collect_sources(v: &Node, env: &BTreeMap<String, Node>, acc: &mut Vec<Node>) -> Result<(), String> {
        let v = match &v.kind {
            Kind::Alias(a) => env.get(a).ok_or("unknown alias")?.clone(),
            _ => v.clone(),
        };
        match &v.kind {
            Kind::Map(_) => {
                acc.push(v);
                Ok(())
            }
            Kind::Seq(items) => {
                for it in items {
                    collect_sources(it, env, acc)?;
                }
                Ok(())
            }
            Kind::Scalar { text, style: Style::Plain } if v.tag.is_none() && (text == "~" || text == "null" || text.is_empty()) => Ok(()),
            _ => Err(format!("invalid merge value {}", v.show())),
        }
    }
    let mut srcs = Vec::new();
    for mv in &merge_values {
        collect_sources(mv, env, &mut srcs)?;
    }
    for s in srcs.iter().rev() {
        for (k, v) in ref_merge(s, env)? {
            let id = key_id(&k);
            if !seen.contains(&id) {
                seen.push(id);
                out.push((k, v));
            }
        }
    }
    Ok(out)
}

#[derive(Deserialize)]
struct Root<T> {
    #[serde(default)]
    #[allow(dead_code)]
    s1: Option<IgnoredAny>,
    #[serde(default)]
    #[allow(dead_code)]
    s2: Option<IgnoredAny>,
    #[serde(default)]
    #[allow(dead_code)]
    s3: Option<IgnoredAny>,
    #[serde(default)]
    #[allow(dead_code)]
    s4: Option<IgnoredAny>,
    #[serde(default)]
    #[allow(dead_code)]
    s5: Option<IgnoredAny>,
    m: T,
}

#[derive(Debug, Deserialize, PartialEq)]
#[serde(deny_unknown_fields)]
struct KXYZ {
    #[serde(default)]
    k: Option<i64>,
    #[serde(default)]
    x: Option<i64>,
    #[serde(default)]
    y: Option<i64>,
    #[serde(default)]
    z: Option<i64>,
    #[serde(default)]
    w: Option<i64>,
}

/// order preserving collector of (String, i64) pairs
#[derive(Debug, PartialEq)]
struct Pairs(Vec<(String, i64)>);
impl<'de> Deserialize<'de> for Pairs {
    fn deserialize<D: serde::Deserializer<'de>>(d: D) -> Result<Self, D::Error> {
        struct V;
        impl<'de> serde::de::Visitor<'de> for V {
            type Value = Pairs;
            fn expecting(&self, f: &mut std::fmt::Formatter) -> std::fmt::Result {
                write!(f, "a map")
            }
            fn visit_map<A: serde::de::MapAccess<'de>>(self, mut a: A) -> Result<Pairs, A::Error> {
                let mut v = Vec::new();
                while let Some((k, x)) = a.next_entry::<String, i64>()? {
                    v.push((k, x));
                }
                Ok(Pairs(v))
            }
        }
        d.deserialize_map(V)
    }
}

fn policy(p: u8) -> DuplicateKeyPolicy {
    match p {
        0 => DuplicateKeyPolicy::Error,
        1 => DuplicateKeyPolicy::FirstWins,
        _ => DuplicateKeyPolicy::LastWins,
    }
}

fn de(target: u8, pol: u8, text: &str) -> Result<Result<String, String>, String> {
    fn f<T: serde::de::DeserializeOwned + std::fmt::Debug>(pol: u8, text: &str) -> Result<Result<String, String>, String> {
        let o = serde_saphyr::options! { duplicate_keys: policy(pol) };
        guarded(|| match serde_saphyr::from_str_with_options::<Root<T>>(text, o) {
            Ok(v) => Ok(format!("{:?}", v.m)),
            Err(e) => Err(e.to_string().lines().next().unwrap_or("").to_string()),
        })
    }
    match target {
        0 => f::<Tree>(pol, text),
        1 => f::<BTreeMap<String, i64>>(pol, text),
        2 => f::<KXYZ>(pol, text),
        _ => f::<Pairs>(pol, text),
    }
}

pub struct C03 {
    menu: Vec<(Ent, &'static str, bool)>,
}

impl C03 {
    pub fn new() -> Self {
        C03 { menu: menu() }
    }
    fn build(&self, c: &Case) -> (Node, Node, bool, bool, bool) {
        // returns (document with merges, m node, has_merge, has_invalid, has_lookalike)
        let mut es = Vec::new();
        let (mut has_merge, mut invalid, mut look) = (false, false, false);
        for &i in &c.entries {
            let (e, _, inv) = &self.menu[i as usize];
            match e {
                Ent::Own(k, v) => es.push(mk(Node::plain(k), Node::plain(&v.to_string()))),
                Ent::Merge(v) => {
                    has_merge = true;
                    invalid |= *inv;
                    es.push(mk(Node::plain("<<"), v.clone()));
                }
                Ent::Look(k, v) => {
                    look = true;
                    es.push(mk(k.clone(), Node::plain(&v.to_string())));
                }
            }
        }
        let m = Node::map(es);
        let m = if c.layout == 1 && !c.entries.is_empty() { m.with_flow(true) } else { m };
        let mut root = Vec::new();
        for (name, s) in sources() {
            root.push(mk(Node::plain(name), s.anchored(name)));
        }
        root.push(mk(Node::plain("m"), m.clone()));
        (Node::map(root), m, has_merge, invalid, look)
    }
}

impl Prop for C03 {
    type Case = Case;
    fn check(&self, c: &Case) -> Verdict {
        let mut v = Verdict::default();
        let (doc, m, has_merge, invalid, look) = self.build(c);
        let text = render_default(&doc);
        if validate(&doc, &text) != Validity::Ok {
            v.rejected = true;
            return v;
        }
        let env: BTreeMap<String, Node> = sources().into_iter().map(|(n, s)| (n.to_string(), s)).collect();
        let merged = ref_merge(&m, &env);
        v.execs = 1;
        v.compared = 1;
        let r1 = match de(c.target, c.policy, &text) {
            Ok(r) => r,
            Err(p) => {
                v.fail("panic", format!("{:?}: {}", text, p));
                return v;
            }
        };
        if has_merge {
            v.classes.push("has_merge");
        }
        if look {
            v.classes.push("lookalike_key");
        }
        match merged {
            Err(why) => {
                debug_assert!(invalid);
                v.classes.push("invalid_merge_value");
                v.nontrivial = true;
                v.outcome = hash64(&("inv", r1.is_ok()));
                if let Ok(val) = r1 {
                    v.fail("invalid_merge_value_accepted", format!("{:?} [{} {}]: {} but got Ok({})", text, POLICIES[c.policy as usize], TARGETS[c.target as usize], why, val));
                }
            }
            Ok(entries) => {
                let own_n = match &m.kind {
                    Kind::Map(es) => es.iter().filter(|(k, _)| !is_merge_key(k)).count(),
                    _ => 0,
                };
                let collision = {
                    // some key offered by a merge source was shadowed
                    let mut offered = 0usize;
                    if let Kind::Map(es) = &m.kind {
                        for (k, val) in es {
                            if is_merge_key(k) {
                                offered += count_offered(val, &env);
                            }
                        }
                    }
                    offered > entries.len() - own_n
                };
                if has_merge && collision {
                    v.classes.push("merge_with_collision");
                }
                v.nontrivial = has_merge && collision;
                // explicit document: m written out in full
                let mut ex = Node::map(entries);
                if c.layout == 1 {
                    ex = ex.with_flow(true);
                }
                let mut root = Vec::new();
                for (name, s) in sources() {
                    root.push(mk(Node::plain(name), s.anchored(name)));
                }
                root.push(mk(Node::plain("m"), ex.clone()));
                let doc2 = Node::map(root);
                let text2 = render_default(&doc2);
                if validate(&doc2, &text2) != Validity::Ok {
                    v.rejected = true;
                    return v;
                }
                v.execs = 2;
                let r2 = match de(c.target, c.policy, &text2) {
                    Ok(r) => r,
                    Err(p) => {
                        v.fail("panic", format!("{:?}: {}", text2, p));
                        return v;
                    }
                };
                v.outcome = hash64(&(r1.is_ok(), r2.is_ok(), has_merge, collision));
                let same = match (&r1, &r2) {
                    (Ok(a), Ok(b)) => a == b,
                    (Err(_), Err(_)) => true,
                    _ => false,
                };
                if !same {
                    v.fail(
                        "differs_from_explicit_mapping",
                        format!("[{} {}] {:?} gives {:?} but the mapping written out in full {:?} gives {:?}", POLICIES[c.policy as usize], TARGETS[c.target as usize], text, r1, text2, r2),
                    );
                } else if c.target == 0 {
                    // independent value oracle for the untyped target when no own key repeats
                    if let (Ok(a), Some(rt)) = (&r2, ref_tree(&ex)) {
                        let keys: Vec<String> = match &ex.kind {
                            Kind::Map(es) => es.iter().map(|(k, _)| key_id(k)).collect(),
                            _ => vec![],
                        };
                        let mut d = keys.clone();
                        d.sort();
                        d.dedup();
                        if d.len() == keys.len() {
                            v.compared += 1;
                            let want = format!("{:?}", rt);
                            if *a != want {
                                v.fail("explicit_mapping_value", format!("{:?} gives {} but the reference value is {}", text2, a, want));
                            }
                        }
                    }
                }
            }
        }
        v
    }
    fn shrink(&self, c: &Case) -> Vec<Case> {
        let mut out = Vec::new();
        for i in 0..c.entries.len() {
            let mut e = c.entries.clone();
            e.remove(i);
            out.push(Case { entries: e, ..c.clone() });
        }
        for i in 0..c.entries.len() {
            for simpler in 0..c.entries[i] {
                let mut e = c.entries.clone();
                e[i] = simpler;
                out.push(Case { entries: e, ..c.clone() });
            }
        }
        if c.layout != 0 {
            out.push(Case { layout: 0, ..c.clone() });
        }
        if c.target != 0 {
            out.push(Case { target: 0, ..c.clone() });
        }
        if c.policy != 0 {
            out.push(Case { policy: 0, ..c.clone() });
        }
        out
    }
    fn key(&self, c: &Case, clause: &str) -> String {
        let labels: Vec<&str> = c.entries.iter().map(|&i| self.menu[i as usize].1).collect();
        format!("{}|m={{{}}}|{}|{}|{}", clause, labels.join("; "), POLICIES[c.policy as usize], TARGETS[c.target as usize], ["block", "flow"][c.layout as usize])
    }
}

fn count_offered(v: &Node, env: &BTreeMap<String, Node>) -> usize {
    let v = match &v.kind {
        Kind::Alias(a) => env.get(a).cloned().unwrap_or_else(|| Node::plain("~")),
        _ => v.clone(),
    };
    match &v.kind {
        Kind::Map(es) => es.iter().map(|(k, x)| if is_merge_key(k) { count_offered(x, env) } else { 1 }).sum(),
        Kind::Seq(items) => items.iter().map(|i| count_offered(i, env)).sum(),
        _ => 0,
    }
}


/// Single-source pass: for arbitrary entry shapes (composite keys, sequence / mapping values), a mapping whose
/// entries all arrive through one `<<` (inline or through an alias) reads like the mapping that has them as its own.
fn single_source_pass(acc: &mut Acc) {
    let keys = ["k", "\"\"", "~", "[1, 2]", "{a: 1}", "{'': 1}", "{\"null\": 1}", "!t k", "\"<<\"", "7", "true"];
    let vals = ["1", "[1, 2, 3]", "{a: 1}", "~", "\"s\"", "[[1], {b: 2}]"];
    let mut entries: Vec<String> = Vec::new();
    for k in keys {
        for v in vals {
            entries.push(format!("{}: {}", k, v));
        }
    }
    for policy in 0..3u8 {
        let mut o = serde_saphyr::Options::default();
        o.duplicate_keys = [DuplicateKeyPolicy::Error, DuplicateKeyPolicy::FirstWins, DuplicateKeyPolicy::LastWins][policy as usize];
        for (i, e1) in entries.iter().enumerate() {
            for (j, e2) in entries.iter().enumerate() {
                if i / vals.len() == j / vals.len() && i != j {
                    continue; // same key twice: C04's business
                }
                let body = if i == j { e1.clone() } else { format!("{}, {}", e1, e2) };
                let own = format!("{{{}}}\n", body);
                let inline = format!("{{<<: {{{}}}}}\n", body);
                let aliased = format!("[&b {{{}}}, {{<<: *b}}]\n", body);
                acc.evaluations += 1;
                acc.execs += 3;
                acc.compared += 2;
                acc.nontrivial += 1;
                acc.class("single_source", 1);
                let read = |t: &str| guarded(|| serde_saphyr::from_str_with_options::<Tree>(t, o.clone()).map_err(|_| ()));
                let want = match read(&own) {
                    Ok(w) => w,
                    Err(p) => {
                        acc.add_violation(format!("panic|single source {}", body), "panic", p, json!({"entries": body}), json!({}));
                        continue;
                    }
                };
                for (name, text, second) in [("an inline merge source", &inline, false), ("a merge source given by an alias", &aliased, true)] {
                    let got = match read(text) {
                        Ok(g) => g.map(|t| if second { if let Tree::Seq(v) = &t { v.get(1).cloned().unwrap_or(Tree::Null) } else { t } } else { t }),
                        Err(p) => {
                            acc.add_violation(format!("panic|single source {}", body), "panic", p, json!({"entries": body}), json!({}));
                            continue;
                        }
                    };
                    if got != want {
                        acc.add_violation(
                            format!("merged_entries_differ_from_own|{}|{}|{}", body, name, POLICIES[policy as usize]),
                            "merged_entries_differ_from_own",
                            format!("{:?} reads as {:?}, but with the same entries coming from {} ({:?}) it reads as {:?}", own, want, name, text, got),
                            json!({"entries": body, "policy": policy}),
                            json!({}),
                        );
                    }
                }
            }
        }
    }
}

pub fn run(ctx: &Ctx) -> i32 {
    let p = C03::new();
    let n_menu = p.menu.len();
    let max_len = ctx.tier.pick(3, 4);
    let labels: Vec<&'static str> = p.menu.iter().map(|m| m.1).collect();
    let idx: Vec<&str> = (0..n_menu).map(|_| "x").collect();
    let space = StrSpace::new(&idx, max_len);
    let combos = 3 * 4 * 2;
    let n = space.len() * combos;
    let mut acc = run_indexed(&p, n, |i| {
        let r = i % combos;
        let entries: Vec<u8> = space.tokens(i / combos).into_iter().map(|t| t as u8).collect();
        Some(Case { entries, policy: (r % 3) as u8, target: ((r / 3) % 4) as u8, layout: (r / 12) as u8 })
    });
    // one more entry for the untyped (thorough: and the pair-collector) target, all policies, block layout
    let space2 = StrSpace::new(&idx, max_len + 1);
    let lo = space.len();
    let per = ctx.tier.pick(3u64, 6u64);
    let n2 = (space2.len() - lo) * per;
    let acc2 = run_indexed(&p, n2, |i| {
        let r = i % per;
        let entries: Vec<u8> = space2.tokens(lo + i / per).into_iter().map(|t| t as u8).collect();
        Some(Case { entries, policy: (r % 3) as u8, target: if r < 3 { 0 } else { 3 }, layout: 0 })
    });
    acc = acc.merge(acc2);
    single_source_pass(&mut acc);
    acc.samples.truncate(0);
    for es in [vec![0u8, 3], vec![7, 1, 6], vec![5, 0, 15]] {
        let c = Case { entries: es, policy: 0, target: 0, layout: 0 };
        let (doc, ..) = p.build(&c);
        acc.samples.push(json!({"case": c, "text": render_default(&doc)}));
    }
    let meta = Meta {
        level: "model_checking",
        rule: "all entry sequences up to the length bound over the entry menu x 3 policies x 4 targets x 2 layouts; non-trivial = contains a real merge entry and at least one key offered by a merge source is shadowed (by an own key or a later source)".into(),
        exhaustive: true,
        bounds: json!({"entry_menu": labels, "max_entries_full_product": max_len, "max_entries_tree_and_pairs_targets": max_len + 1, "sources": "s1={k:1,x:2} s2={x:3,y:4} s3={<<:*s1,y:5} s4={<<:*s1,<<:*s2,w:6} s5={<<:[*s2,*s3],w:7}"}),
        assumptions: vec!["generator self-check against raw parser events".into(), "entry order of the explicit mapping: own entries in document order, then merged keys source by source from last to first".into()],
    };
    finish(ctx, meta, acc)
}

pub fn replay_file(ctx: &Ctx, path: &str) -> i32 {
    replay(&C03::new(), ctx, path)
}
