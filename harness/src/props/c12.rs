//! C12 — every scalar value survives serialization + deserialization unchanged.
use crate::common::{shrink_string, SerOpts};
use crate::engine::*;
use crate::raw;
use rayon::prelude::*;
use serde::de::DeserializeOwned;
use serde::{Deserialize, Serialize};
use serde_json::json;
use serde_saphyr::{FlowMap, FlowSeq};
use std::collections::BTreeMap;
use std::fmt::Debug;

#[derive(Clone, Debug, PartialEq, Serialize, Deserialize)]
pub enum Val {
    Str(String),
    F32(u32),
    F64(u64),
    I8(i8),
    I16(i16),
    I32(i32),
    I64(i64),
    I128(String),
    U8(u8),
    U16(u16),
    U32(u32),
    U64(u64),
    U128(String),
    Bool(bool),
    Char(char),
    Unit,
    OptNone,
    OptSome(String),
    Bytes(Vec<u8>),
    ByteBuf(Vec<u8>),
    OptBytes(Vec<u8>),
    OptI64(i64),
    OptBool(bool),
}

#[derive(Clone, Debug, PartialEq, Serialize, Deserialize)]
pub struct Case {
    pub val: Val,
    pub pos: u8,
    pub opts: SerOpts,
}

pub const POS_NAMES: [&str; 14] = [
    "root",
    "seq_item",
    "nested_seq_item",
    "map_value",
    "map_key",
    "flow_seq_item",
    "flow_map_value",
    "flow_map_key",
    "struct_field",
    "newtype_variant",
    "tuple_variant",
    "seq_of_map_value",
    "seq_of_map_key",
    "nested_map_key",
];
const KEY_POS: [u8; 4] = [4, 7, 12, 13];

#[derive(Clone, Debug, PartialEq, Serialize, Deserialize)]
struct S<T> {
    f: T,
    g: T,
}
#[derive(Clone, Debug, PartialEq, Serialize, Deserialize)]
enum E<T> {
    N(T),
    T(T, T),
}

/// f32 compared by bits (NaN == NaN)
#[derive(Clone, Copy, Debug, Serialize, Deserialize)]
#[serde(transparent)]
struct FB32(f32);
impl PartialEq for FB32 {
    fn eq(&self, o: &Self) -> bool {
        (self.0.is_nan() && o.0.is_nan()) || self.0.to_bits() == o.0.to_bits()
    }
}
#[derive(Clone, Copy, Debug, Serialize, Deserialize)]
#[serde(transparent)]
struct FB64(f64);
impl PartialEq for FB64 {
    fn eq(&self, o: &Self) -> bool {
        (self.0.is_nan() && o.0.is_nan()) || self.0.to_bits() == o.0.to_bits()
    }
}

pub struct Rt {
    pub text: String,
}

fn rt<T: Serialize + DeserializeOwned + PartialEq + Debug>(v: &T, o: &SerOpts) -> Result<Rt, (String, String)> {
    let text = match guarded(|| serde_saphyr::to_string_with_options(v, o.to_lib())) {
        Err(p) => return Err(("panic_ser".into(), p)),
        Ok(Err(e)) => return Err(("ser_error".into(), format!("serialize failed: {}", e))),
        Ok(Ok(t)) => t,
    };
    match raw::raw_doc_count(&text) {
        Ok(1) => {}
        Ok(n) => return Err(("not_one_document".into(), format!("emitted {:?} parses as {} documents", text, n))),
        Err(e) => return Err(("not_wellformed".into(), format!("emitted {:?} does not scan: {}", text, e))),
    }
    match guarded(|| serde_saphyr::from_str::<T>(&text)) {
        Err(p) => Err(("panic_de".into(), p)),
        Ok(Err(e)) => Err(("readback_error".into(), format!("emitted {:?}; read-back failed: {}", text, first_line(&e.to_string())))),
        Ok(Ok(back)) => {
            if &back == v {
                Ok(Rt { text })
            } else {
                Err(("readback_differs".into(), format!("emitted {:?}; read back {:?}, expected {:?}", text, back, v)))
            }
        }
    }
}

fn first_line(s: &str) -> String {
    s.lines().next().unwrap_or("").to_string()
}

fn at_pos<T>(v: &T, pos: u8, o: &SerOpts) -> Result<Rt, (String, String)>
where
    T: Serialize + DeserializeOwned + PartialEq + Debug + Clone,
{
    match pos {
        0 => rt(v, o),
        1 => rt(&vec![v.clone(), v.clone()], o),
        2 => rt(&vec![vec![v.clone()], vec![v.clone(), v.clone()]], o),
        3 => {
            let mut m = BTreeMap::new();
            m.insert("k".to_string(), v.clone());
            m.insert("l".to_string(), v.clone());
            rt(&m, o)
        }
        5 => rt(&FlowSeq(vec![v.clone(), v.clone()]), o),
        6 => {
            let mut m = BTreeMap::new();
            m.insert("k".to_string(), v.clone());
            m.insert("l".to_string(), v.clone());
            rt(&FlowMap(m), o)
        }
        8 => rt(&S { f: v.clone(), g: v.clone() }, o),
        9 => rt(&E::N(v.clone()), o),
        10 => rt(&E::T(v.clone(), v.clone()), o),
        11 => {
            let mut m = BTreeMap::new();
            m.insert("k".to_string(), v.clone());
            rt(&vec![m.clone(), m], o)
        }
        _ => unreachable!(),
    }
}

fn at_key<T>(v: &T, pos: u8, o: &SerOpts) -> Result<Rt, (String, String)>
where
    T: Serialize + DeserializeOwned + PartialEq + Debug + Clone + Ord,
{
    let mut m = BTreeMap::new();
    m.insert(v.clone(), 1i32);
    match pos {
        4 => rt(&m, o),
        7 => rt(&FlowMap(m), o),
        12 => {
            // second entry of a mapping that is a sequence item, and first entry of the next one
            let mut m2 = BTreeMap::new();
            m2.insert(v.clone(), vec![1i32]);
            rt(&vec![m2.clone(), m2], o)
        }
        13 => {
            let mut outer = BTreeMap::new();
            outer.insert("o".to_string(), m.clone());
            outer.insert("p".to_string(), m);
            rt(&outer, o)
        }
        _ => unreachable!(),
    }
}

fn float_grammar_ok(t: &str) -> bool {
    let t = t.strip_prefix("%YAML 1.2\n---\n").unwrap_or(t);
    let t = t.trim_end_matches('\n');
    if matches!(t, ".nan" | ".inf" | "-.inf" | "+.inf") {
        return true;
    }
    let b = t.as_bytes();
    let mut i = 0;
    if i < b.len() && (b[i] == b'-' || b[i] == b'+') {
        i += 1;
    }
    let ds = i;
    while i < b.len() && b[i].is_ascii_digit() {
        i += 1;
    }
    let int_digits = i - ds;
    if i >= b.len() || b[i] != b'.' {
        return false; // mandatory decimal point
    }
    i += 1;
    let fs = i;
    while i < b.len() && b[i].is_ascii_digit() {
        i += 1;
    }
    if int_digits == 0 && i == fs {
        return false;
    }
    if i < b.len() && (b[i] == b'e' || b[i] == b'E') {
        i += 1;
        if i >= b.len() || !(b[i] == b'-' || b[i] == b'+') {
            return false; // signed exponent
        }
        i += 1;
        let es = i;
        while i < b.len() && b[i].is_ascii_digit() {
            i += 1;
        }
        if i == es {
            return false;
        }
    }
    i == b.len()
}

pub struct C12;

impl C12 {
    fn run_val(&self, c: &Case) -> Result<Rt, (String, String)> {
        let o = &c.opts;
        let key = KEY_POS.contains(&c.pos);
        macro_rules! plain {
            ($v:expr) => {{
                let v = $v;
                if key {
                    at_key(&v, c.pos, o)
                } else {
                    at_pos(&v, c.pos, o)
                }
            }};
        }
        match &c.val {
            Val::Str(s) => plain!(s.clone()),
            Val::F32(b) => {
                let r = at_pos(&FB32(f32::from_bits(*b)), c.pos, o)?;
                if c.pos == 0 && !float_grammar_ok(&r.text) {
                    return Err(("float_grammar".into(), format!("f32 bits {:#x} emitted as {:?}", b, r.text)));
                }
                Ok(r)
            }
            Val::F64(b) => {
                let r = at_pos(&FB64(f64::from_bits(*b)), c.pos, o)?;
                if c.pos == 0 && !float_grammar_ok(&r.text) {
                    return Err(("float_grammar".into(), format!("f64 bits {:#x} emitted as {:?}", b, r.text)));
                }
                Ok(r)
            }
            Val::I8(v) => plain!(*v),
            Val::I16(v) => plain!(*v),
            Val::I32(v) => plain!(*v),
            Val::I64(v) => plain!(*v),
            Val::I128(v) => plain!(v.parse::<i128>().unwrap()),
            Val::U8(v) => plain!(*v),
            Val::U16(v) => plain!(*v),
            Val::U32(v) => plain!(*v),
            Val::U64(v) => plain!(*v),
            Val::U128(v) => plain!(v.parse::<u128>().unwrap()),
            Val::Bool(v) => plain!(*v),
            Val::Char(v) => plain!(*v),
            Val::Unit => at_pos(&(), c.pos, o),
            Val::OptNone => at_pos(&Option::<String>::None, c.pos, o),
            Val::OptSome(s) => at_pos(&Some(s.clone()), c.pos, o),
            Val::Bytes(b) => at_pos(b, c.pos, o),
            Val::ByteBuf(b) => at_pos(&serde_bytes::ByteBuf::from(b.clone()), c.pos, o),
            Val::OptBytes(b) => at_pos(&Some(serde_bytes::ByteBuf::from(b.clone())), c.pos, o),
            Val::OptI64(v) => at_pos(&Some(*v), c.pos, o),
            Val::OptBool(v) => at_pos(&Some(*v), c.pos, o),
        }
    }
}

fn valid_case(c: &Case) -> bool {
    let key = KEY_POS.contains(&c.pos);
    if !key {
        return true;
    }
    !matches!(
        c.val,
        Val::F32(_) | Val::F64(_) | Val::Unit | Val::OptNone | Val::OptSome(_) | Val::Bytes(_) | Val::ByteBuf(_) | Val::OptBytes(_) | Val::OptI64(_) | Val::OptBool(_)
    )
}

fn plainish(s: &str) -> bool {
    !s.is_empty() && s.chars().all(|c| c.is_ascii_alphabetic()) && !LOOKALIKE_WORDS.contains(&s)
}

impl Prop for C12 {
    type Case = Case;
    fn check(&self, c: &Case) -> Verdict {
        let mut v = Verdict::default();
        v.execs = 2;
        v.compared = 1;
        v.classes.push(POS_NAMES[c.pos as usize]);
        v.nontrivial = match &c.val {
            Val::Str(s) | Val::OptSome(s) => !plainish(s),
            _ => true,
        };
        match self.run_val(c) {
            Ok(r) => {
                let t = r.text.trim_start();
                let style = if t.contains("|") && matches!(c.val, Val::Str(_)) && r.text.contains("|") && r.text.lines().count() > 1 {
                    "style_block_or_multiline"
                } else if r.text.contains('"') {
                    "style_double"
                } else if r.text.contains('\'') {
                    "style_single"
                } else {
                    "style_plain"
                };
                v.classes.push(style);
                v.outcome = hash64(&(style, c.pos));
            }
            Err((clause, detail)) => {
                v.outcome = hash64(&clause);
                v.fail(&clause, detail);
            }
        }
        v
    }
    fn shrink(&self, c: &Case) -> Vec<Case> {
        let mut out = Vec::new();
        for o in c.opts.shrink() {
            out.push(Case { opts: o, ..c.clone() });
        }
        if c.pos != 0 {
            let simpler: &[u8] = if KEY_POS.contains(&c.pos) { &[4] } else { &[0, 1, 3] };
            for &p in simpler {
                if p < c.pos {
                    out.push(Case { pos: p, ..c.clone() });
                }
            }
        }
        match &c.val {
            Val::Str(s) => {
                for t in shrink_string(s) {
                    out.push(Case { val: Val::Str(t), ..c.clone() });
                }
            }
            Val::OptSome(s) => {
                for t in shrink_string(s) {
                    out.push(Case { val: Val::OptSome(t), ..c.clone() });
                }
            }
            Val::Bytes(b) if !b.is_empty() => {
                out.push(Case { val: Val::Bytes(b[1..].to_vec()), ..c.clone() });
                if b.iter().any(|x| *x != 0) {
                    out.push(Case { val: Val::Bytes(vec![0; b.len()]), ..c.clone() });
                }
            }
            Val::ByteBuf(b) if !b.is_empty() => {
                out.push(Case { val: Val::ByteBuf(b[1..].to_vec()), ..c.clone() });
                if b.iter().any(|x| *x != 0) {
                    out.push(Case { val: Val::ByteBuf(vec![0; b.len()]), ..c.clone() });
                }
            }
            other => {
                let simple: Vec<Val> = match other {
                    Val::F32(_) => vec![Val::F32(1.0f32.to_bits())],
                    Val::F64(_) => vec![Val::F64(1.0f64.to_bits())],
                    Val::I8(_) => vec![Val::I8(1), Val::I8(-1)],
                    Val::I16(_) => vec![Val::I8(1), Val::I16(1), Val::I16(-1)],
                    Val::I32(_) => vec![Val::I8(1), Val::I32(1), Val::I32(-1)],
                    Val::I64(_) => vec![Val::I8(1), Val::I64(1), Val::I64(-1)],
                    Val::I128(_) => vec![Val::I8(1), Val::I128("1".into()), Val::I128("-1".into())],
                    Val::U8(_) => vec![Val::U8(1)],
                    Val::U16(_) => vec![Val::U8(1), Val::U16(1)],
                    Val::U32(_) => vec![Val::U8(1), Val::U32(1)],
                    Val::U64(_) => vec![Val::U8(1), Val::U64(1)],
                    Val::U128(_) => vec![Val::U8(1), Val::U128("1".into())],
                    Val::Bool(_) => vec![Val::Bool(true)],
                    Val::Char(_) => vec![Val::Char('a')],
                    _ => vec![],
                };
                for sv in simple {
                    if &sv != other {
                        out.push(Case { val: sv, ..c.clone() });
                    }
                }
            }
        }
        out.retain(valid_case);
        out
    }
    fn key(&self, c: &Case, clause: &str) -> String {
        format!("{}|{}|{}|{}", clause, serde_json::to_string(&c.val).unwrap(), POS_NAMES[c.pos as usize], c.opts.label())
    }
}

pub const ALPHABET: &[&str] = &[
    "a", "n", "y", "N", "0", "1", " ", "\t", "\n", "\r", "-", ":", "#", ",", "[", "]", "{", "}", "&", "*", "!", "|", ">", "'", "\"",
    "%", "@", "`", "?", "<", ".", "~", "_", "+", "=", "\\", "/", "\0", "\x1b", "\x7f", "\u{85}", "\u{a0}", "\u{2028}", "\u{2029}",
    "\u{feff}", "é", "😀", "e", "x", "o", "f", "\u{9b}",
];

pub const LOOKALIKE_WORDS: &[&str] = &[
    "null", "Null", "NULL", "~", "true", "True", "TRUE", "false", "False", "FALSE", "yes", "Yes", "YES", "no", "No", "NO", "on", "On",
    "ON", "off", "Off", "OFF", "y", "Y", "n", "N", "0x1F", "0o17", "0b101", "1e3", "1E3", "1.5", ".5", "5.", "-1", "+1", "1_000", "0",
    "00", "007", "0x", "1e", ".inf", ".Inf", ".INF", "-.inf", "+.inf", ".nan", ".NaN", ".NAN", "inf", "nan", "Infinity", "<<", "<<:",
    "---", "...", "--- x", "... x", "---x", "- a", "-a", "- ", "-", "? a", "?a", "?", "a: b", "a:b", "a:", ":a", ": a", "a #b", "a# b",
    "#a", " #a", "a ", " a", "a  b", "a\nb", "a\n", "\na", "a\n\n", "a\n\nb", "a\n b", " a\n b", "a\rb", "a\r\nb", "a\tb", "\ta", "a\t",
    "[a]", "[", "]", "{a: 1}", "{", "}", "a,b", "a, b", ",", "&a", "*a", "&", "*", "!a", "!!str a", "!", "|", ">", "|-", ">+", "| a",
    "'a'", "'", "''", "\"a\"", "\"", "\"\"", "a'b", "a\"b", "%a", "%YAML 1.2", "@a", "`a`", "a\\b", "\\", "\\n", "1:30", "1:30:15",
    "12:30", "2001-12-14", "2001-12-14t21:59:43.10-05:00", "=", "~a", "null ", " null", "nulll", "1 ", " 1", "0.1.2", "1,000", "é",
    "😀", "\u{feff}a", "a\u{feff}", "\u{85}", "a\u{2028}b", "a -", "a - b", "a ?", "a :",
];

fn opt_space(tier: Tier) -> Vec<SerOpts> {
    let mut v = Vec::new();
    let indents: &[u8] = tier.pick(&[0u8, 1, 4][..], &[0u8, 1, 4, 9][..]);
    for bits in 0..32u32 {
        // quote_all, yaml_12, no_block_scalars, compact, tagged_enums
        for &indent in indents {
            for wrap in 0..2u8 {
                let mut o = SerOpts::from_bits(bits);
                o.indent = indent;
                o.wrap = wrap;
                v.push(o);
            }
        }
    }
    v
}

fn int_vals() -> Vec<Val> {
    let mut v = Vec::new();
    macro_rules! b {
        ($t:ty, $c:ident) => {
            for x in [<$t>::MIN, <$t>::MIN + 1, 0 as $t, 1 as $t, <$t>::MAX - 1, <$t>::MAX, 7 as $t, 10 as $t] {
                v.push(Val::$c(x));
            }
        };
    }
    b!(i8, I8);
    b!(i16, I16);
    b!(i32, I32);
    b!(i64, I64);
    b!(u8, U8);
    b!(u16, U16);
    b!(u32, U32);
    b!(u64, U64);
    for x in [i128::MIN, i128::MIN + 1, -1, 0, 1, i128::MAX - 1, i128::MAX, i64::MIN as i128 - 1, u64::MAX as i128 + 1] {
        v.push(Val::I128(x.to_string()));
    }
    for x in [0u128, 1, u128::MAX - 1, u128::MAX, u64::MAX as u128 + 1, i128::MAX as u128 + 1] {
        v.push(Val::U128(x.to_string()));
    }
    v
}

fn f64_vals() -> Vec<Val> {
    let mut v = Vec::new();
    let mants: [u64; 12] = [
        0,
        1,
        2,
        (1 << 52) - 1,
        (1 << 52) - 2,
        1 << 51,
        (1 << 51) + 1,
        (1 << 51) - 1,
        0x5555555555555 & ((1 << 52) - 1),
        0xAAAAAAAAAAAAA & ((1 << 52) - 1),
        0x999999999999a,
        0x3333333333333,
    ];
    for sign in 0..2u64 {
        for exp in 0..2048u64 {
            for m in mants {
                v.push(Val::F64((sign << 63) | (exp << 52) | m));
            }
        }
    }
    v
}

pub fn run(ctx: &Ctx) -> i32 {
    let p = C12;
    let opts = opt_space(ctx.tier);
    let positions: Vec<u8> = (0..POS_NAMES.len() as u8).collect();
    let max_len = ctx.tier.pick(2, 3);
    let space = StrSpace::new(ALPHABET, max_len);
    let mut strings: Vec<String> = (0..space.len()).map(|i| space.get(i)).collect();
    for w in LOOKALIKE_WORDS {
        if !strings.iter().any(|s| s == w) {
            strings.push(w.to_string());
        }
    }
    let n_str = strings.len() as u64;
    let n_opt = opts.len() as u64;
    let n_pos = positions.len() as u64;
    // strings x positions x options
    let mut acc = run_indexed(&p, n_str * n_pos * n_opt, |i| {
        let o = opts[(i % n_opt) as usize];
        let r = i / n_opt;
        let pos = positions[(r % n_pos) as usize];
        let s = &strings[(r / n_pos) as usize];
        Some(Case { val: Val::Str(s.clone()), pos, opts: o })
    });
    acc.notes.insert("strings".into(), json!({"count": n_str, "alphabet": ALPHABET.len(), "max_len": max_len, "lookalikes": LOOKALIKE_WORDS.len()}));
    // longer strings under default options (+ quote_all)
    let max_len2 = ctx.tier.pick(3, 4);
    let space2 = StrSpace::new(ALPHABET, max_len2);
    let lo = space.len();
    let few_opts = [SerOpts::default(), SerOpts { wrap: 1, ..SerOpts::default() }];
    let few_pos: [u8; 4] = [0, 1, 3, 4];
    let n2 = (space2.len() - lo) * few_opts.len() as u64 * few_pos.len() as u64;
    let acc2 = run_indexed(&p, n2, |i| {
        let o = few_opts[(i % 2) as usize];
        let r = i / 2;
        let pos = few_pos[(r % 4) as usize];
        let s = space2.get(lo + r / 4);
        Some(Case { val: Val::Str(s), pos, opts: o })
    });
    acc = acc.merge(acc2);
    acc.notes.insert("strings_long".into(), json!({"count": space2.len() - lo, "len": max_len2, "options": 2, "positions": 4}));
    // block-style pass: every string up to 6 (thorough 8) characters over {a, blank, line break} under a small fold
    // width, so that literal / folded block scalars with leading blanks, blank-only lines and trailing breaks
    // are all produced, in every position
    {
        static BLOCK_ALPHABET: [&str; 3] = ["a", " ", "\n"];
        let sp3 = StrSpace::new(&BLOCK_ALPHABET, ctx.tier.pick(6, 8));
        let bopts = [SerOpts { wrap: 1, ..SerOpts::default() }, SerOpts { wrap: 1, indent: 3, ..SerOpts::default() }, SerOpts { wrap: 1, compact: true, ..SerOpts::default() }, SerOpts::default()];
        let nb = bopts.len() as u64;
        let n3 = sp3.len() * n_pos * nb;
        let acc3 = run_indexed(&p, n3, |i| {
            let o = bopts[(i % nb) as usize];
            let r = i / nb;
            let pos = positions[(r % n_pos) as usize];
            Some(Case { val: Val::Str(sp3.get(r / n_pos)), pos, opts: o })
        });
        acc = acc.merge(acc3);
        acc.notes.insert("strings_block_pass".into(), json!({"count": sp3.len(), "alphabet": BLOCK_ALPHABET, "max_len": ctx.tier.pick(6, 8), "options": nb, "positions": n_pos}));
    }
    // long-string pass: every string up to 2 characters over the whole alphabet glued to text longer than the fold
    // width (before / after it, with and without a line break in between), so that the "long" branches of the
    // style selection see every character class
    {
        let sp4 = StrSpace::new(ALPHABET, ctx.tier.pick(1, 2));
        let lopts = [SerOpts { wrap: 1, ..SerOpts::default() }, SerOpts { wrap: 1, indent: 3, compact: true, ..SerOpts::default() }, SerOpts::default()];
        let nl = lopts.len() as u64;
        const SHAPES: u64 = 5;
        let n4 = sp4.len() * SHAPES * n_pos * nl;
        let acc4 = run_indexed(&p, n4, |i| {
            let o = lopts[(i % nl) as usize];
            let r = i / nl;
            let pos = positions[(r % n_pos) as usize];
            let r = r / n_pos;
            let shape = r % SHAPES;
            let s = sp4.get(r / SHAPES);
            // under the default options the fold width is 80 characters
            let body = if o.wrap == 1 { "aaaaa".to_string() } else { "a".repeat(81) };
            let v = match shape {
                0 => format!("{}\n{}", body, s),
                1 => format!("{}\n{}", s, body),
                2 => format!("{}{}", body, s),
                3 => format!("{}{}", s, body),
                _ => format!("{}\n{}\n{}", body, s, body),
            };
            Some(Case { val: Val::Str(v), pos, opts: o })
        });
        acc = acc.merge(acc4);
        acc.notes.insert("strings_long_pass".into(), json!({"count": sp4.len() * SHAPES, "glued_len": ctx.tier.pick(1, 2), "shapes": ["long LF s", "s LF long", "long s", "s long", "long LF s LF long"], "options": nl, "positions": n_pos}));
    }
    // strings around the 1024-character limit of implicit keys, in every position
    {
        let mut cases = Vec::new();
        for n in [1021usize, 1022, 1023, 1024, 1025, 1026, 1027, 2048] {
            for tail in ["", ":", " #", "\"", "é"] {
                for &pos in &positions {
                    for o in [SerOpts::default(), SerOpts { indent: 4, ..SerOpts::default() }, SerOpts { compact: true, ..SerOpts::default() }, SerOpts::from_bits(1)] {
                        cases.push(Case { val: Val::Str(format!("{}{}", "k".repeat(n), tail)), pos, opts: o });
                    }
                }
            }
        }
        acc.notes.insert("strings_key_limit_pass".into(), json!(cases.len()));
        acc = acc.merge(run_list(&p, &cases));
    }
    // other scalar kinds x positions x (flag) options
    let mut others: Vec<Val> = int_vals();
    others.extend([Val::Bool(true), Val::Bool(false), Val::Unit, Val::OptNone]);
    for s in ["", "a", "null", "~", " ", "1"] {
        others.push(Val::OptSome(s.to_string()));
    }
    for s in ALPHABET.iter().chain(LOOKALIKE_WORDS.iter()) {
        if !["a", "~", " ", "1", "null"].contains(s) {
            others.push(Val::OptSome(s.to_string()));
        }
    }
    for b in [vec![], vec![0u8], vec![b'~'], b"null".to_vec(), vec![0xff, 0x00, 0x7f]] {
        others.push(Val::OptBytes(b));
    }
    others.extend([Val::OptI64(0), Val::OptI64(i64::MIN), Val::OptBool(false), Val::OptBool(true)]);
    for a in ALPHABET {
        let mut cs = a.chars();
        let c = cs.next().unwrap();
        others.push(Val::Char(c));
    }
    let blen = ctx.tier.pick(1, 2);
    others.push(Val::Bytes(vec![]));
    others.push(Val::ByteBuf(vec![]));
    for l in 1..=blen {
        let n = 256u32.pow(l);
        let step = if l == 2 { 1 } else { 1 };
        let mut i = 0;
        while i < n {
            let b: Vec<u8> = (0..l).map(|k| ((i >> (8 * k)) & 0xff) as u8).collect();
            others.push(Val::ByteBuf(b.clone()));
            if l == 1 || i % 257 == 0 {
                others.push(Val::Bytes(b));
            }
            i += step;
        }
    }
    others.extend(f64_vals());
    let small_opts: Vec<SerOpts> = (0..32).map(SerOpts::from_bits).collect();
    let mut other_cases = Vec::new();
    for v in &others {
        let is_f = matches!(v, Val::F64(_) | Val::ByteBuf(_) | Val::Bytes(_));
        for &pos in &positions {
            if is_f && !matches!(pos, 0 | 1 | 3 | 5 | 8) {
                continue;
            }
            for (oi, o) in small_opts.iter().enumerate() {
                if is_f && !matches!(oi, 0 | 1 | 2 | 16) {
                    continue;
                }
                let c = Case { val: v.clone(), pos, opts: *o };
                if valid_case(&c) {
                    other_cases.push(c);
                }
            }
        }
    }
    let acc3 = run_list(&p, &other_cases);
    acc.notes.insert("other_scalar_cases".into(), json!(other_cases.len()));
    acc = acc.merge(acc3);
    // f32 lattice
    let f32_acc = f32_sweep(ctx, &p);
    acc = acc.merge(f32_acc);
    let meta = Meta {
        level: "model_checking",
        rule: "cases = (scalar value, position, serializer option vector), each enumerated once; a case is non-trivial if the value is not a plain alphabetic word (needs a quoting/escaping/number-format decision)".into(),
        exhaustive: true,
        bounds: json!({"string_len_all_options": max_len, "string_len_default_options": max_len2, "positions": POS_NAMES, "option_vectors": opts.len()}),
        assumptions: vec!["saphyr-parser is the judge of well-formedness".into(), "release build, overflow-checks+debug-assertions on for serde-saphyr".into()],
    };
    finish(ctx, meta, acc)
}

/// f32: quick = all sign/exponent x mantissas with <=2 set bits at the edges (a complete sub-lattice);
/// thorough = all 2^32 bit patterns at document root with default options.
fn f32_sweep(ctx: &Ctx, p: &C12) -> Acc {
    match ctx.tier {
        Tier::Quick => {
            let mut mants: Vec<u32> = vec![0, (1 << 23) - 1];
            for i in 0..23 {
                mants.push(1 << i);
                mants.push(((1 << 23) - 1) ^ (1 << i));
                for j in (i + 1)..23 {
                    if i < 3 || j > 19 {
                        mants.push((1 << i) | (1 << j));
                    }
                }
            }
            mants.sort();
            mants.dedup();
            let n = 512u64 * mants.len() as u64;
            let mut a = run_indexed(p, n, |i| {
                let m = mants[(i % mants.len() as u64) as usize];
                let se = (i / mants.len() as u64) as u32;
                Some(Case { val: Val::F32((se << 23) | m), pos: 0, opts: SerOpts::default() })
            });
            a.notes.insert("f32".into(), json!({"patterns": n, "mantissas_per_exponent": mants.len(), "complete_2^32": false}));
            a
        }
        Tier::Thorough => {
            // dedicated tight loop: 2^32 patterns
            let chunks = 1u64 << 16;
            let res: (u64, Vec<u32>) = (0..chunks)
                .into_par_iter()
                .map(|c| {
                    let mut bad = Vec::new();
                    let mut n = 0u64;
                    for lo in 0..(1u64 << 16) {
                        let bits = ((c << 16) | lo) as u32;
                        let f = f32::from_bits(bits);
                        n += 1;
                        let ok = match serde_saphyr::to_string(&f) {
                            Ok(t) => {
                                float_grammar_ok(&t)
                                    && match serde_saphyr::from_str::<f32>(&t) {
                                        Ok(b) => (b.is_nan() && f.is_nan()) || b.to_bits() == bits,
                                        Err(_) => false,
                                    }
                            }
                            Err(_) => false,
                        };
                        if !ok && bad.len() < 4 {
                            bad.push(bits);
                        }
                    }
                    (n, bad)
                })
                .reduce(|| (0, Vec::new()), |mut a, b| {
                    a.0 += b.0;
                    if a.1.len() < 16 {
                        a.1.extend(b.1);
                    }
                    a
                });
            let mut a = Acc::default();
            a.evaluations = res.0;
            a.execs = res.0 * 2;
            a.compared = res.0;
            a.nontrivial = res.0;
            for bits in res.1 {
                process_case(p, &mut a, &Case { val: Val::F32(bits), pos: 0, opts: SerOpts::default() });
            }
            a.notes.insert("f32".into(), json!({"patterns": res.0, "complete_2^32": true}));
            a
        }
    }
}

pub fn replay_file(ctx: &Ctx, path: &str) -> i32 {
    replay(&C12, ctx, path)
}
