//! C02 — anchors and aliases are transparent.
use crate::doc::*;
use crate::engine::*;
use crate::tree::Tree;
use crate::treegen::{shrink_node, TreeGen};
use serde::{Deserialize, Serialize};
use serde_json::json;
use std::collections::BTreeMap;

#[derive(Clone, Debug, Serialize, Deserialize)]
pub struct Case {
    pub tree: Node,
    /// 0 = all block, 1 = all flow, 2 = block root with flow inside
    pub layout: u8,
    pub target: u8,
}

pub const TARGETS: [&str; 7] = ["Tree", "serde_json::Value", "BTreeMap<String,Tree>", "Vec<Tree>", "struct{a,b:Option<Tree>}", "Vec<Option<String>>", "String"];

#[derive(Debug, Deserialize, PartialEq, Default)]
#[serde(deny_unknown_fields)]
struct AB {
    #[serde(default)]
    a: Option<Tree>,
    #[serde(default)]
    b: Option<Tree>,
}

pub fn de_target(target: u8, text: &str) -> Result<Result<String, String>, String> {
    fn f<T: serde::de::DeserializeOwned + std::fmt::Debug>(text: &str) -> Result<Result<String, String>, String> {
        guarded(|| match serde_saphyr::from_str::<T>(text) {
            Ok(v) => Ok(format!("{:?}", v)),
            Err(e) => Err(e.to_string().lines().next().unwrap_or("").to_string()),
        })
    }
    match target {
        0 => f::<Tree>(text),
        1 => f::<serde_json::Value>(text),
        2 => f::<BTreeMap<String, Tree>>(text),
        3 => f::<Vec<Tree>>(text),
        4 => f::<AB>(text),
        5 => f::<Vec<Option<String>>>(text),
        6 => f::<String>(text),
        _ => unreachable!(),
    }
}

pub fn targets_for(n: &Node) -> &'static [u8] {
    match &n.kind {
        Kind::Map(_) => &[0, 1, 2, 4],
        Kind::Seq(_) => &[0, 1, 3, 5],
        _ => &[0, 6],
    }
}

pub fn apply_layout(n: &Node, layout: u8) -> Node {
    match layout {
        0 => n.clone().with_flow(false),
        1 => n.clone().with_flow(true),
        _ => n.clone().with_flow(false).with_flow_inside(),
    }
}

pub struct C02;

impl Prop for C02 {
    type Case = Case;
    fn check(&self, c: &Case) -> Verdict {
        let mut v = Verdict::default();
        let tree = apply_layout(&c.tree, c.layout);
        let text = render_default(&tree);
        let validity = validate(&tree, &text);
        let expanded = expand(&tree);
        let has_alias = tree.has_alias();
        match (&validity, &expanded) {
            (Validity::Mismatch(_), _) => {
                v.rejected = true;
                return v;
            }
            (Validity::ParserError(_), Ok(_)) => {
                // the parser rejects a document the reference accepts: not usable as a test case
                v.rejected = true;
                return v;
            }
            _ => {}
        }
        v.execs = 1;
        let r1 = match de_target(c.target, &text) {
            Ok(r) => r,
            Err(p) => {
                v.fail("panic", format!("{:?} -> panic {}", text, p));
                return v;
            }
        };
        match expanded {
            Err(why) => {
                v.classes.push("alias_unresolvable");
                v.nontrivial = true;
                v.compared = 1;
                v.outcome = hash64(&("unres", r1.is_ok()));
                if let Ok(val) = r1 {
                    v.fail(
                        "unresolvable_alias_accepted",
                        format!("{:?} into {}: {} but got Ok({})", text, TARGETS[c.target as usize], why, val),
                    );
                }
            }
            Ok(e) => {
                let text2 = render_default(&e);
                if validate(&e, &text2) != Validity::Ok {
                    v.rejected = true;
                    return v;
                }
                v.execs = 2;
                v.compared = 1;
                let r2 = match de_target(c.target, &text2) {
                    Ok(r) => r,
                    Err(p) => {
                        v.fail("panic", format!("{:?} -> panic {}", text2, p));
                        return v;
                    }
                };
                v.nontrivial = has_alias;
                if has_alias {
                    v.classes.push("alias_replayed");
                    classify_alias_positions(&tree, &mut v.classes);
                } else if tree.has_anchor() {
                    v.classes.push("anchor_only");
                } else {
                    v.classes.push("no_anchor_no_alias");
                }
                v.outcome = hash64(&(r1.is_ok(), r2.is_ok(), has_alias));
                let same = match (&r1, &r2) {
                    (Ok(a), Ok(b)) => a == b,
                    (Err(_), Err(_)) => true,
                    _ => false,
                };
                if !same {
                    let clause = "differs_from_anchor_free_document";
                    v.fail(
                        clause,
                        format!(
                            "into {}: {:?} gives {:?} but the anchor/alias-free document {:?} gives {:?}",
                            TARGETS[c.target as usize],
                            text,
                            r1,
                            text2,
                            r2
                        ),
                    );
                }
            }
        }
        v
    }
    fn shrink(&self, c: &Case) -> Vec<Case> {
        let mut out = Vec::new();
        for t in shrink_node(&c.tree) {
            for &tg in targets_for(&t) {
                if tg == c.target || tg == 0 {
                    out.push(Case { tree: t.clone(), layout: c.layout, target: tg });
                }
            }
        }
        if c.layout != 0 {
            out.push(Case { layout: 0, ..c.clone() });
        }
        // canonical anchor names: rename y -> x when x is unused
        let names: Vec<String> = c.tree.preorder().iter().filter_map(|n| n.anchor.clone()).collect();
        if names.iter().any(|n| n == "y") && !names.iter().any(|n| n == "x") && !uses_alias(&c.tree, "x") {
            out.push(Case { tree: rename(&c.tree, "y", "x"), ..c.clone() });
        }
        if c.target != 0 {
            out.push(Case { target: 0, ..c.clone() });
        }
        out
    }
    fn key(&self, c: &Case, clause: &str) -> String {
        format!("{}|{}|{}|{}", clause, apply_layout(&c.tree, c.layout).show(), ["block", "flow", "flow-inside"][c.layout as usize], TARGETS[c.target as usize])
    }
}

fn uses_alias(n: &Node, name: &str) -> bool {
    matches!(&n.kind, Kind::Alias(a) if a == name) || n.children().iter().any(|c| uses_alias(c, name))
}

fn rename(n: &Node, from: &str, to: &str) -> Node {
    let mut m = n.clone();
    if m.anchor.as_deref() == Some(from) {
        m.anchor = Some(to.to_string());
    }
    if let Kind::Alias(a) = &mut m.kind {
        if a == from {
            *a = to.to_string();
        }
    }
    for c in m.children_mut() {
        let r = rename(c, from, to);
        *c = r;
    }
    m
}

fn classify_alias_positions(n: &Node, out: &mut Vec<&'static str>) {
    fn go(n: &Node, inside_anchor: bool, out: &mut Vec<&'static str>) {
        let ia = inside_anchor || n.anchor.is_some();
        match &n.kind {
            Kind::Seq(v) => {
                for c in v {
                    if matches!(c.kind, Kind::Alias(_)) {
                        out.push("alias_as_item");
                        if ia {
                            out.push("alias_inside_anchored");
                        }
                    }
                    go(c, ia, out);
                }
            }
            Kind::Map(v) => {
                for (k, x) in v {
                    if matches!(k.kind, Kind::Alias(_)) {
                        out.push("alias_as_key");
                    }
                    if matches!(x.kind, Kind::Alias(_)) {
                        if matches!(&k.kind, Kind::Scalar{text, style: Style::Plain} if text == "<<") {
                            out.push("alias_as_merge_value");
                        } else {
                            out.push("alias_as_value");
                        }
                        if ia {
                            out.push("alias_inside_anchored");
                        }
                    }
                    go(k, ia, out);
                    go(x, ia, out);
                }
            }
            _ => {}
        }
    }
    go(n, false, out);
    out.sort();
    out.dedup();
}

pub fn generator(tiny: bool) -> TreeGen {
    let mut leaves = Vec::new();
    let mut key_leaves = Vec::new();
    let anchors: Vec<Option<String>> = if tiny { vec![None, Some("x".into())] } else { vec![None, Some("x".into()), Some("y".into())] };
    let scalars: Vec<Node> = if tiny {
        vec![Node::plain("a"), Node::plain("1")]
    } else {
        // (the empty plain scalar is the empty node: `&x` followed by nothing)
        vec![Node::plain("a"), Node::scalar("", Style::Double), Node::plain("1"), Node::plain("")]
    };
    for s in &scalars {
        for a in &anchors {
            let mut n = s.clone();
            n.anchor = a.clone();
            leaves.push(n.clone());
            key_leaves.push(n);
        }
    }
    for a in anchors.iter().flatten() {
        leaves.push(Node::alias(a));
        key_leaves.push(Node::alias(a));
    }
    key_leaves.push(Node::plain("<<"));
    TreeGen { leaves, key_leaves, anchors, complex_keys: true, empty_collections: false }
}


/// Shapes for the canonical-anchor pass: one scalar `a`, optional anchor marks (`?`), alias placeholders (`*?`).
pub fn shape_generator() -> TreeGen {
    let a = Node::plain("a");
    let leaves = vec![a.clone(), a.clone().anchored("?"), Node::alias("?")];
    TreeGen { key_leaves: leaves.clone(), leaves, anchors: vec![None, Some("?".into())], complex_keys: true, empty_collections: false }
}

/// All labellings of a shape: anchored nodes get fresh names n1, n2, ... in document order; every alias
/// placeholder ranges over all names defined before it (so 3+ distinct anchors fit into small trees).
/// Shapes with an alias before any anchor are skipped (covered by the two-name alphabet).
pub fn labellings(shape: &Node, f: &mut dyn FnMut(Node)) {
    fn count(n: &Node, anchors: &mut usize, choices: &mut Vec<usize>) -> bool {
        if n.anchor.is_some() {
            *anchors += 1;
        }
        if let Kind::Alias(_) = n.kind {
            if *anchors == 0 {
                return false;
            }
            choices.push(*anchors);
        }
        for c in n.children() {
            if !count(c, anchors, choices) {
                return false;
            }
        }
        true
    }
    let mut choices = Vec::new();
    if !count(shape, &mut 0, &mut choices) || choices.is_empty() {
        return;
    }
    fn label(n: &Node, next_anchor: &mut usize, next_alias: &mut usize, pick: &[usize]) -> Node {
        let mut m = n.clone();
        if m.anchor.is_some() {
            *next_anchor += 1;
            m.anchor = Some(format!("n{}", *next_anchor));
        }
        if let Kind::Alias(_) = m.kind {
            m.kind = Kind::Alias(format!("n{}", pick[*next_alias] + 1));
            *next_alias += 1;
        }
        match &mut m.kind {
            Kind::Seq(v) => {
                for c in v.iter_mut() {
                    *c = label(c, next_anchor, next_alias, pick);
                }
            }
            Kind::Map(v) => {
                for (k, x) in v.iter_mut() {
                    *k = label(k, next_anchor, next_alias, pick);
                    *x = label(x, next_anchor, next_alias, pick);
                }
            }
            _ => {}
        }
        m
    }
    let mut pick = vec![0usize; choices.len()];
    loop {
        f(label(shape, &mut 0, &mut 0, &pick));
        let mut i = choices.len();
        loop {
            if i == 0 {
                return;
            }
            i -= 1;
            pick[i] += 1;
            if pick[i] < choices[i] {
                break;
            }
            pick[i] = 0;
        }
    }
}

pub fn run(ctx: &Ctx) -> i32 {
    let p = C02;
    let g = generator(false);
    let full = ctx.tier.pick(4, 5);
    let by = g.build(full);
    let mut acc = Acc::default();
    let mut counts = Vec::new();
    let per_tree = |acc: &mut Acc, t: Node| {
        for layout in 0..3u8 {
            if layout > 0 && !t.is_collection() {
                continue;
            }
            if layout == 2 && !t.children().iter().any(|c| c.is_collection()) {
                continue; // identical to layout 0
            }
            for &tg in targets_for(&t) {
                let c = Case { tree: t.clone(), layout, target: tg };
                process_case(&p, acc, &c);
            }
        }
    };
    for k in 1..=full {
        counts.push(by[k].len());
        let a = run_chunks(&by[k], &per_tree);
        acc = acc.merge(a);
    }
    // next level without materialising
    let a = g.for_each_next(&by, Acc::default, |acc, t| per_tree(acc, t), Acc::merge);
    acc = acc.merge(a);
    let mut bounds = json!({"alphabet": "leaves {a, \"\", 1} x {-, &x, &y} + *x, *y; key `<<`; seq/map x {-, &x, &y}; complex keys", "max_nodes": full + 1, "trees_by_size": counts, "layouts": 3});
    if ctx.tier == Tier::Thorough {
        // tiny alphabet, one more node
        let g2 = generator(true);
        let by2 = g2.build(6);
        let a = g2.for_each_next(&by2, Acc::default, |acc, t| per_tree(acc, t), Acc::merge);
        acc = acc.merge(a);
        bounds["tiny_alphabet_nodes"] = json!(7);
    }
    // canonical-anchor pass: distinct fresh anchor names, aliases to any earlier anchor
    {
        let sg = shape_generator();
        let can_full = ctx.tier.pick(6, 7);
        let sby = sg.build(can_full);
        let per_shape = |acc: &mut Acc, shape: Node| {
            labellings(&shape, &mut |t| {
                acc.class("canonical_anchor_trees", 1);
                per_tree(acc, t)
            });
        };
        for k in 1..=can_full {
            let a = run_chunks(&sby[k], &per_shape);
            acc = acc.merge(a);
        }
        let a = sg.for_each_next(&sby, Acc::default, |acc, t| per_shape(acc, t), Acc::merge);
        acc = acc.merge(a);
        bounds["canonical_anchor_pass_max_nodes"] = json!(can_full + 1);
    }
    wrapper_target_pass(&mut acc);
    acc.samples.truncate(0);
    for t in by[full].iter().rev().take(3) {
        acc.samples.push(json!({"tree": t.show(), "text": render_default(t)}));
    }
    let meta = Meta {
        level: "model_checking",
        rule: "every node tree up to the node bound, x layouts x applicable targets; non-trivial = the tree contains an alias that is replayed (or must be rejected); distinct by construction (enumeration without repetition)".into(),
        exhaustive: true,
        bounds,
        assumptions: vec!["saphyr-parser's event stream defines what the document is (generator self-check against raw events)".into()],
    };
    finish(ctx, meta, acc)
}

// ---- anchor-wrapper targets whose fields are read from serde's buffered content (flatten, untagged)
mod wt {
    use serde::Deserialize;
    use serde_saphyr::{ArcAnchor, RcAnchor};
    #[derive(Debug, Deserialize)]
    pub struct Leaf {
        pub x: i32,
    }
    #[derive(Debug, Deserialize)]
    pub struct InnerRc {
        pub p: RcAnchor<Leaf>,
        pub q: RcAnchor<Leaf>,
    }
    #[derive(Debug, Deserialize)]
    pub struct FlatRc {
        #[serde(flatten)]
        pub inner: InnerRc,
    }
    #[derive(Debug, Deserialize)]
    #[serde(untagged)]
    pub enum UntaggedRc {
        A { p: RcAnchor<Leaf>, q: RcAnchor<Leaf> },
    }
    #[derive(Debug, Deserialize)]
    pub struct InnerArc {
        pub p: ArcAnchor<Leaf>,
        pub q: ArcAnchor<Leaf>,
    }
    #[derive(Debug, Deserialize)]
    pub struct FlatArc {
        #[serde(flatten)]
        pub inner: InnerArc,
    }
    #[derive(Debug, Deserialize)]
    pub struct PlainRc {
        pub p: RcAnchor<Leaf>,
        pub q: RcAnchor<Leaf>,
    }
}

/// Every placement of anchors on a two-field mapping (on the mapping, on either value) x the mapping alone | followed
/// by an alias of it, read into anchor wrappers around types that read their fields directly, through `flatten`
/// and through an untagged enum: the field values must be those of the document without anchors.
fn wrapper_target_pass(acc: &mut Acc) {
    use serde_saphyr::{ArcAnchor, RcAnchor};
    for mask in 0..8u8 {
        for aliased in [false, true] {
            for flow in [false, true] {
                let a = |bit: u8, name: &str| if mask & bit != 0 { format!("&{} ", name) } else { String::new() };
                let body = if flow {
                    format!("{}{{p: {}{{x: 1}}, q: {}{{x: 2}}}}", a(1, "m"), a(2, "p"), a(4, "q"))
                } else {
                    // an anchored block mapping starts on the line after its anchor
                    let head = if mask & 1 != 0 { "&m\n  ".to_string() } else { String::new() };
                    format!("{}p: {}{{x: 1}}\n  q: {}{{x: 2}}", head, a(2, "p"), a(4, "q"))
                };
                let text = if aliased {
                    if mask & 1 == 0 {
                        continue;
                    }
                    format!("- {}\n- *m\n", body)
                } else {
                    format!("- {}\n", body)
                };
                let want = if aliased { "[(1, 2), (1, 2)]" } else { "[(1, 2)]" };
                let runs: Vec<(&str, Result<Result<String, String>, String>)> = vec![
                    ("Vec<RcAnchor<struct{p,q:RcAnchor<Leaf>}>>", guarded(|| serde_saphyr::from_str::<Vec<RcAnchor<wt::PlainRc>>>(&text).map(|v| format!("{:?}", v.iter().map(|o| (o.0.p.0.x, o.0.q.0.x)).collect::<Vec<_>>())).map_err(|e| e.to_string()))),
                    ("Vec<RcAnchor<struct{#[flatten] struct{p,q:RcAnchor<Leaf>}}>>", guarded(|| serde_saphyr::from_str::<Vec<RcAnchor<wt::FlatRc>>>(&text).map(|v| format!("{:?}", v.iter().map(|o| (o.0.inner.p.0.x, o.0.inner.q.0.x)).collect::<Vec<_>>())).map_err(|e| e.to_string()))),
                    ("Vec<ArcAnchor<struct{#[flatten] struct{p,q:ArcAnchor<Leaf>}}>>", guarded(|| serde_saphyr::from_str::<Vec<ArcAnchor<wt::FlatArc>>>(&text).map(|v| format!("{:?}", v.iter().map(|o| (o.0.inner.p.0.x, o.0.inner.q.0.x)).collect::<Vec<_>>())).map_err(|e| e.to_string()))),
                    (
                        "Vec<RcAnchor<#[untagged] enum{A{p,q:RcAnchor<Leaf>}}>>",
                        guarded(|| {
                            serde_saphyr::from_str::<Vec<RcAnchor<wt::UntaggedRc>>>(&text)
                                .map(|v| {
                                    format!(
                                        "{:?}",
                                        v.iter()
                                            .map(|o| match &*o.0 {
                                                wt::UntaggedRc::A { p, q } => (p.0.x, q.0.x),
                                            })
                                            .collect::<Vec<_>>()
                                    )
                                })
                                .map_err(|e| e.to_string())
                        }),
                    ),
                    ("Vec<struct{#[flatten] struct{p,q:RcAnchor<Leaf>}}>", guarded(|| serde_saphyr::from_str::<Vec<wt::FlatRc>>(&text).map(|v| format!("{:?}", v.iter().map(|o| (o.inner.p.0.x, o.inner.q.0.x)).collect::<Vec<_>>())).map_err(|e| e.to_string()))),
                ];
                for (target, r) in runs {
                    acc.evaluations += 1;
                    acc.execs += 1;
                    acc.compared += 1;
                    acc.nontrivial += 1;
                    acc.class("anchor_wrapper_targets", 1);
                    let key = |clause: &str| format!("{}|{:?}|{}", clause, text, target);
                    match r {
                        Err(p) => acc.add_violation(key("panic"), "panic", p, json!({"text": text, "target": target}), json!({})),
                        Ok(Err(e)) => acc.add_violation(key("anchored_document_rejected"), "anchored_document_rejected", format!("{:?} into {}: the document without anchor marks / with the alias written out reads as {} but this one fails: {}", text, target, want, e.lines().next().unwrap_or("")), json!({"text": text, "target": target}), json!({})),
                        Ok(Ok(got)) => {
                            if got != want {
                                acc.add_violation(key("differs_from_anchor_free_document"), "differs_from_anchor_free_document", format!("{:?} into {}: field values {} but the document without anchor marks / with the alias written out gives {}", text, target, got, want), json!({"text": text, "target": target}), json!({}));
                            }
                        }
                    }
                }
            }
        }
    }
}

pub fn run_chunks(list: &[Node], f: &(impl Fn(&mut Acc, Node) + Sync)) -> Acc {
    use rayon::prelude::*;
    list.par_chunks(64)
        .fold(Acc::default, |mut acc, ch| {
            for t in ch {
                f(&mut acc, t.clone());
            }
            acc
        })
        .reduce(Acc::default, Acc::merge)
}

pub fn replay_file(ctx: &Ctx, path: &str) -> i32 {
    replay(&C02, ctx, path)
}
