//! C19 — robotics expressions evaluate totally and exactly; plain numbers are unchanged.
//! (a) every expression tree up to a size bound over a leaf menu, rendered with minimal parentheses, against a
//! reference evaluator; (b) every float literal of a corpus with the option on vs off; (c) every short string over
//! the expression alphabet plus pathological long inputs: total.
#![cfg(feature = "robotics")]
use crate::engine::*;
use serde::{Deserialize, Serialize};
use serde_json::json;

/// terms placed next to a sexagesimal literal inside a unit function
pub const SEXA_OTHERS: [&str; 8] = ["0", "1", "rad(0)", "deg(0)", "rad(1)", "deg(90)", "(1)", "pi"];
pub const LEAVES: [&str; 14] = ["0", "1", "2", "3", "1.5", "90", "1e2", "1_000", "0.1", "pi", "tau", "inf", ".inf", "7"];

#[derive(Clone, Debug, Serialize, Deserialize, PartialEq)]
pub enum Ast {
    Leaf(u8),
    Neg(Box<Ast>),
    Bin(u8, Box<Ast>, Box<Ast>),
    Deg(Box<Ast>),
    Rad(Box<Ast>),
}

const K: f64 = core::f64::consts::PI / 180.0;

fn leaf_value(i: u8) -> f64 {
    match LEAVES[i as usize] {
        "pi" => core::f64::consts::PI,
        "tau" => 2.0 * core::f64::consts::PI,
        "inf" | ".inf" => f64::INFINITY,
        "1_000" => 1000.0,
        s => s.parse().unwrap(),
    }
}

impl Ast {
    pub fn size(&self) -> usize {
        match self {
            Ast::Leaf(_) => 1,
            Ast::Neg(a) | Ast::Deg(a) | Ast::Rad(a) => 1 + a.size(),
            Ast::Bin(_, a, b) => 1 + a.size() + b.size(),
        }
    }
    fn has_unit(&self) -> bool {
        match self {
            Ast::Leaf(_) => false,
            Ast::Neg(a) => a.has_unit(),
            Ast::Deg(_) | Ast::Rad(_) => true,
            Ast::Bin(_, a, b) => a.has_unit() || b.has_unit(),
        }
    }
    /// `deg(...)` around a value that is already unitized (a unit function somewhere in its argument)
    fn has_deg_of_unit(&self) -> bool {
        match self {
            Ast::Leaf(_) => false,
            Ast::Neg(a) | Ast::Rad(a) => a.has_deg_of_unit(),
            Ast::Deg(a) => a.has_unit() || a.has_deg_of_unit(),
            Ast::Bin(_, a, b) => a.has_deg_of_unit() || b.has_deg_of_unit(),
        }
    }
    /// a bare (unit-less) term outside every unit function
    fn has_plain_outside(&self) -> bool {
        match self {
            Ast::Leaf(_) => true,
            Ast::Neg(a) => a.has_plain_outside(),
            Ast::Deg(_) | Ast::Rad(_) => false,
            Ast::Bin(_, a, b) => a.has_plain_outside() || b.has_plain_outside(),
        }
    }
    /// the value in radians / plain number, standard precedence being the tree structure itself
    pub fn eval(&self) -> f64 {
        match self {
            Ast::Leaf(i) => leaf_value(*i),
            Ast::Neg(a) => -a.eval(),
            Ast::Deg(a) => a.eval() * K,
            Ast::Rad(a) => a.eval(),
            Ast::Bin(op, a, b) => {
                let (x, y) = (a.eval(), b.eval());
                match op {
                    0 => x + y,
                    1 => x - y,
                    2 => x * y,
                    _ => x / y,
                }
            }
        }
    }
    fn prec(&self) -> u8 {
        match self {
            Ast::Bin(op, ..) if *op <= 1 => 1,
            Ast::Bin(..) => 2,
            Ast::Neg(_) => 3,
            _ => 4,
        }
    }
    /// minimal parentheses for standard precedence and left associativity; `sp` puts blanks around operators
    pub fn render(&self, sp: bool) -> String {
        let wrap = |a: &Ast, need: bool| if need { format!("({})", a.render(sp)) } else { a.render(sp) };
        match self {
            Ast::Leaf(i) => LEAVES[*i as usize].to_string(),
            Ast::Neg(a) => format!("-{}", wrap(a, a.prec() < 3)),
            Ast::Deg(a) => format!("deg({})", a.render(sp)),
            Ast::Rad(a) => format!("rad({})", a.render(sp)),
            Ast::Bin(op, a, b) => {
                let p = self.prec();
                let l = wrap(a, a.prec() < p);
                // right operand of the same precedence needs parentheses (left associativity)
                let r = wrap(b, b.prec() <= p);
                let o = ["+", "-", "*", "/"][*op as usize];
                if sp {
                    format!("{} {} {}", l, o, r)
                } else {
                    format!("{}{}{}", l, o, r)
                }
            }
        }
    }
}

pub fn all_asts(max_size: usize, leaves: &[u8], units: bool) -> Vec<Ast> {
    let mut by: Vec<Vec<Ast>> = vec![vec![]; max_size + 1];
    by[1] = leaves.iter().map(|&l| Ast::Leaf(l)).collect();
    for s in 2..=max_size {
        let mut out = Vec::new();
        for a in &by[s - 1] {
            if !matches!(a, Ast::Neg(_)) {
                out.push(Ast::Neg(Box::new(a.clone())));
            }
            if units {
                // (also around an argument that already holds a unit function: deg() of such a value would
                // convert a second time / mix units and has to be refused, rad() leaves radians as they are)
                out.push(Ast::Deg(Box::new(a.clone())));
                out.push(Ast::Rad(Box::new(a.clone())));
            }
        }
        for ls in 1..s - 1 {
            let rs = s - 1 - ls;
            if rs < 1 {
                continue;
            }
            for a in &by[ls] {
                for b in &by[rs] {
                    for op in 0..4u8 {
                        out.push(Ast::Bin(op, Box::new(a.clone()), Box::new(b.clone())));
                    }
                }
            }
        }
        by[s] = out;
    }
    by.into_iter().flatten().collect()
}

fn opts(on: bool) -> serde_saphyr::Options {
    let mut o = serde_saphyr::Options::default();
    o.angle_conversions = on;
    o
}

fn quoted(s: &str) -> String {
    let mut out = String::from("\"");
    for c in s.chars() {
        match c {
            '"' => out.push_str("\\\""),
            '\\' => out.push_str("\\\\"),
            '\n' => out.push_str("\\n"),
            '\r' => out.push_str("\\r"),
            '\t' => out.push_str("\\t"),
            '\0' => out.push_str("\\0"),
            c => out.push(c),
        }
    }
    out.push('"');
    out
}

fn same(a: f64, b: f64) -> bool {
    (a.is_nan() && b.is_nan()) || a.to_bits() == b.to_bits()
}
fn close(a: f64, b: f64, ulps: f64) -> bool {
    if same(a, b) || (a == b) {
        return true;
    }
    if !a.is_finite() || !b.is_finite() {
        return false;
    }
    (a - b).abs() <= ulps * f64::EPSILON * a.abs().max(b.abs())
}

#[derive(Clone, Debug, Serialize, Deserialize)]
pub enum Case {
    /// expression x tag (0 none, 1 !degrees, 2 !radians) x blanks x style (plain / double quoted) x target f64|f32
    Expr { ast: Ast, tag: u8, sp: bool, quoted: bool, f32_target: bool },
    /// a literal with the option on vs off
    /// (with `radians`: the literal carries the `!radians` tag when the option is on - radians stay as they are)
    /// (with `degrees`: it carries `!degrees`; the value is then the plain value times pi/180)
    Literal {
        text: String,
        f32_target: bool,
        #[serde(default)]
        radians: bool,
        #[serde(default)]
        degrees: bool,
    },
    /// sexagesimal d:m[:s[.frac]] with sign and tag
    Sexa { neg: bool, d: u32, m: u32, s: Option<(u32, Option<u32>)>, tag: u8 },
    /// a sexagesimal literal inside a unit function next to another term: `f(A + S)` and `f(S + A)` must agree
    /// (addition of two operands commutes exactly), and `deg(S)` alone is degrees converted to radians
    SexaCtx { outer_deg: bool, other: u8, sexa: String },
    /// arbitrary text requested as f64 / f32 / untyped with the option on
    Raw { text: String },
}

pub struct C19;

fn de_f64(doc: &str, on: bool) -> Result<Result<f64, String>, String> {
    guarded(|| serde_saphyr::from_str_with_options::<f64>(doc, opts(on)).map_err(|e| e.to_string().lines().next().unwrap_or("").to_string()))
}
fn de_f32(doc: &str, on: bool) -> Result<Result<f32, String>, String> {
    guarded(|| serde_saphyr::from_str_with_options::<f32>(doc, opts(on)).map_err(|e| e.to_string().lines().next().unwrap_or("").to_string()))
}

impl Prop for C19 {
    type Case = Case;
    fn check(&self, c: &Case) -> Verdict {
        let mut v = Verdict::default();
        match c {
            Case::Expr { ast, tag, sp, quoted: q, f32_target } => {
                let text = ast.render(*sp);
                let scalar = if *q { quoted(&text) } else { text.clone() };
                let doc = format!("{}{}\n", ["", "!degrees ", "!radians "][*tag as usize], scalar);
                // expectation
                let used_unit = ast.has_unit();
                let twice = ast.has_deg_of_unit();
                let mixed = (*tag == 1 && used_unit && ast.has_plain_outside()) || twice;
                let mut want = ast.eval();
                if *tag == 1 && !used_unit {
                    want *= K;
                }
                v.execs = 1;
                v.compared = 1;
                v.nontrivial = ast.size() > 1;
                let got: Result<Result<f64, String>, String> = if *f32_target { de_f32(&doc, true).map(|r| r.map(|x| x as f64)) } else { de_f64(&doc, true) };
                let want = if *f32_target { (want as f32) as f64 } else { want };
                let what = format!("{:?} requested as {}", doc, if *f32_target { "f32" } else { "f64" });
                v.classes.push(if used_unit { "with_unit_function" } else { "arithmetic_only" });
                match got {
                    Err(p) => v.fail("panic", format!("{}: {}", what, p)),
                    Ok(Err(e)) => {
                        v.outcome = 1;
                        if !mixed {
                            v.fail("expression_rejected", format!("{}: should evaluate to {:?} but was rejected: {}", what, want, e));
                        }
                    }
                    Ok(Ok(x)) => {
                        v.outcome = 2;
                        if mixed {
                            if twice {
                                v.fail("unit_function_applied_to_unitized_value", format!("{}: deg() around a value that already went through a unit function (converted twice / radians taken for degrees) evaluates to {:?}", what, x));
                            } else {
                                v.fail("mixed_units_accepted", format!("{}: mixes unit functions and bare terms under !degrees but evaluates to {:?}", what, x));
                            }
                        } else if !used_unit && *tag != 1 && !*f32_target {
                            // pure arithmetic: the IEEE-754 result, bit for bit
                            if !same(x, want) {
                                v.fail("arithmetic_result_differs", format!("{}: evaluates to {:?}, IEEE-754 evaluation with standard precedence gives {:?}", what, x, want));
                            }
                        } else if !close(x, want, if *f32_target { 1e9 } else { 8.0 }) {
                            v.fail("angle_result_differs", format!("{}: evaluates to {:?}, expected {:?} (degrees converted to radians exactly once)", what, x, want));
                        }
                    }
                }
            }
            Case::Literal { text, f32_target, radians, degrees } if *degrees => {
                let _ = radians;
                let doc = format!("{}\n", text);
                let doc_on = format!("!degrees {}\n", text);
                v.execs = 2;
                v.compared = 1;
                v.nontrivial = true;
                let what = format!("{:?} requested as {} (tagged !degrees with the option on)", doc, if *f32_target { "f32" } else { "f64" });
                let (off, on) = if *f32_target {
                    (de_f32(&doc, false).map(|r| r.map(|x| x as f64)), de_f32(&doc_on, true).map(|r| r.map(|x| x as f64)))
                } else {
                    (de_f64(&doc, false), de_f64(&doc_on, true))
                };
                // the f64 value of the literal (an f32 target rounds the converted value, not the literal)
                let plain64 = de_f64(&doc, false);
                match (off, on, plain64) {
                    (Err(p), _, _) | (_, Err(p), _) | (_, _, Err(p)) => v.fail("panic", format!("{}: {}", what, p)),
                    (Ok(Ok(_)), Ok(Ok(b)), Ok(Ok(a64))) => {
                        v.outcome = 1;
                        let want = if *f32_target { ((a64 * K) as f32) as f64 } else { a64 * K };
                        if !close(b, want, if *f32_target { 1e9 } else { 4.0 }) {
                            v.fail("degrees_literal_not_converted_once", format!("{}: {:?} without the tag, {:?} with it, expected {:?}", what, a64, b, want));
                        }
                    }
                    (Ok(Ok(a)), Ok(Err(e)), _) => {
                        v.outcome = 2;
                        v.fail("plain_literal_rejected_with_option", format!("{}: {:?} with the option off but rejected with it on: {}", what, a, e));
                    }
                    _ => {
                        v.outcome = 3;
                        v.classes.push("not_a_literal_without_extension");
                    }
                }
            }
            Case::Literal { text, f32_target, radians, .. } => {
                let doc = format!("{}\n", text);
                let doc_on = if *radians { format!("!radians {}\n", text) } else { doc.clone() };
                v.execs = 2;
                v.compared = 1;
                v.nontrivial = true;
                let what = format!("{:?} requested as {}", doc, if *f32_target { "f32" } else { "f64" });
                let (off, on) = if *f32_target {
                    (de_f32(&doc, false).map(|r| r.map(|x| x as f64)), de_f32(&doc_on, true).map(|r| r.map(|x| x as f64)))
                } else {
                    (de_f64(&doc, false), de_f64(&doc_on, true))
                };
                let what = if *radians { format!("{} (tagged !radians with the option on)", what) } else { what };
                match (off, on) {
                    (Err(p), _) | (_, Err(p)) => v.fail("panic", format!("{}: {}", what, p)),
                    (Ok(Ok(a)), Ok(Ok(b))) => {
                        v.outcome = 1;
                        if !same(a, b) {
                            v.fail("plain_literal_changes_with_option", format!("{}: {:?} (bits {:#x}) with the option off, {:?} (bits {:#x}) with it on", what, a, a.to_bits(), b, b.to_bits()));
                        }
                    }
                    (Ok(Ok(a)), Ok(Err(e))) => {
                        v.outcome = 2;
                        v.fail("plain_literal_rejected_with_option", format!("{}: {:?} with the option off but rejected with it on: {}", what, a, e));
                    }
                    (Ok(Err(_)), _) => {
                        v.outcome = 3; // not a float literal without the extension: nothing to preserve
                        v.classes.push("not_a_literal_without_extension");
                    }
                }
            }
            Case::Sexa { neg, d, m, s, tag } => {
                let mut text = format!("{}{}:{:02}", if *neg { "-" } else { "" }, d, m);
                let mut secs = 0.0f64;
                if let Some((ss, frac)) = s {
                    text.push_str(&format!(":{:02}", ss));
                    secs = *ss as f64;
                    if let Some(f) = frac {
                        text.push_str(&format!(".{}", f));
                        // the seconds field is one decimal number
                        secs = format!("{}.{}", ss, f).parse::<f64>().unwrap();
                    }
                }
                let doc = format!("{}{}\n", ["", "!degrees ", "!radians "][*tag as usize], quoted(&text));
                let sign = if *neg { -1.0 } else { 1.0 };
                let want = if *tag == 0 { sign * (*d as f64 * 3600.0 + *m as f64 * 60.0 + secs) } else { sign * (*d as f64 + *m as f64 / 60.0 + secs / 3600.0) * K };
                v.execs = 1;
                v.compared = 1;
                v.nontrivial = true;
                v.classes.push("sexagesimal");
                let valid = *m < 60 && s.map(|x| x.0 < 60).unwrap_or(true);
                match de_f64(&doc, true) {
                    Err(p) => v.fail("panic", format!("{:?}: {}", doc, p)),
                    Ok(Err(e)) => {
                        if valid {
                            v.fail("sexagesimal_rejected", format!("{:?}: expected {:?}, rejected: {}", doc, want, e));
                        }
                    }
                    Ok(Ok(x)) => {
                        if !valid {
                            v.fail("sexagesimal_out_of_range_accepted", format!("{:?}: minutes / seconds out of range but evaluates to {:?}", doc, x));
                        } else if !close(x, want, 8.0) {
                            v.fail("sexagesimal_result_differs", format!("{:?}: evaluates to {:?}, expected {:?}", doc, x, want));
                        } else if *tag == 0 && *d == 0 && *m == 0 && !same(x, want) {
                            // 0:0:S is S seconds: the value of the decimal number S, correctly rounded
                            v.fail("sexagesimal_seconds_not_exact", format!("{:?}: evaluates to {:?}, the seconds field is the decimal number {:?}", doc, x, want));
                        }
                    }
                }
            }
            Case::SexaCtx { outer_deg, other, sexa } => {
                let f = if *outer_deg { "deg" } else { "rad" };
                let a = SEXA_OTHERS[*other as usize];
                let d1 = format!("{}\n", quoted(&format!("{}({} + {})", f, a, sexa)));
                let d2 = format!("{}\n", quoted(&format!("{}({} + {})", f, sexa, a)));
                let d0 = format!("{}\n", quoted(&format!("{}({})", f, sexa)));
                v.execs = 3;
                v.compared = 2;
                v.nontrivial = true;
                v.classes.push("sexagesimal_inside_unit_function");
                match (de_f64(&d1, true), de_f64(&d2, true), de_f64(&d0, true)) {
                    (Err(p), _, _) | (_, Err(p), _) | (_, _, Err(p)) => v.fail("panic", format!("{:?}: {}", d1, p)),
                    (Ok(r1), Ok(r2), Ok(r0)) => {
                        let same_r = match (&r1, &r2) {
                            (Ok(x), Ok(y)) => same(*x, *y),
                            (Err(_), Err(_)) => true,
                            _ => false,
                        };
                        if !same_r {
                            v.fail("sexagesimal_depends_on_position", format!("{:?} gives {:?} but {:?} gives {:?}: the meaning of a sexagesimal literal inside a unit function must not depend on what precedes it", d1, r1, d2, r2));
                        } else {
                            // deg(d:m:s) and rad(d:m:s) are the angle d:m:s (degrees, minutes, seconds) in radians
                            // deg(d:m:s) is the angle in degrees, converted once
                            let parts: Vec<f64> = sexa.split(':').map(|x| x.parse::<f64>().unwrap_or(f64::NAN)).collect();
                            let degs = parts[0] + parts.get(1).copied().unwrap_or(0.0) / 60.0 + parts.get(2).copied().unwrap_or(0.0) / 3600.0;
                            match r0 {
                                Ok(x) if close(x, degs * K, 8.0) => {}
                                other => v.fail("sexagesimal_angle_differs", format!("{:?}: expected {:?} (degrees, minutes, seconds converted to radians once), got {:?}", d0, degs * K, other)),
                            }
                        }
                    }
                }
            }
            Case::Raw { text } => {
                v.execs = 4;
                v.nontrivial = !text.is_empty();
                let doc_q = format!("{}\n", quoted(text));
                for (name, r) in [
                    ("f64", de_f64(&doc_q, true).map(|_| ())),
                    ("f32", de_f32(&doc_q, true).map(|_| ())),
                    ("untyped", guarded(|| serde_saphyr::from_str_with_options::<crate::tree::Tree>(&format!("- {}\n", text), opts(true)).map(|_| ())).map(|_| ())),
                    ("!degrees f64", de_f64(&format!("!degrees {}", doc_q), true).map(|_| ())),
                ] {
                    if let Err(p) = r {
                        v.fail(&format!("panic@{}", panic_site(&p)), format!("{:?} requested as {} with angle_conversions: {}", text.chars().take(60).collect::<String>(), name, p));
                        break;
                    }
                }
                // off: a quoted non-number is simply not a float, and the untyped view keeps the string
                v.outcome = hash64(&de_f64(&doc_q, true).map(|r| r.is_ok()).unwrap_or(false));
            }
        }
        v
    }
    fn shrink(&self, c: &Case) -> Vec<Case> {
        let mut out = Vec::new();
        match c {
            Case::Expr { ast, tag, sp, quoted, f32_target } => {
                let mk = |a: Ast, t: u8, s: bool, q: bool, f: bool| Case::Expr { ast: a, tag: t, sp: s, quoted: q, f32_target: f };
                match ast {
                    Ast::Neg(a) | Ast::Deg(a) | Ast::Rad(a) => out.push(mk((**a).clone(), *tag, *sp, *quoted, *f32_target)),
                    Ast::Bin(_, a, b) => {
                        out.push(mk((**a).clone(), *tag, *sp, *quoted, *f32_target));
                        out.push(mk((**b).clone(), *tag, *sp, *quoted, *f32_target));
                    }
                    _ => {}
                }
                if *tag != 0 {
                    out.push(mk(ast.clone(), 0, *sp, *quoted, *f32_target));
                }
                if *sp {
                    out.push(mk(ast.clone(), *tag, false, *quoted, *f32_target));
                }
                if *quoted {
                    out.push(mk(ast.clone(), *tag, *sp, false, *f32_target));
                }
                if *f32_target {
                    out.push(mk(ast.clone(), *tag, *sp, *quoted, false));
                }
            }
            Case::Raw { text } => {
                let cs: Vec<char> = text.chars().collect();
                if cs.len() > 8 {
                    out.push(Case::Raw { text: cs[..cs.len() / 2].iter().collect() });
                    out.push(Case::Raw { text: cs[cs.len() / 2..].iter().collect() });
                }
                if cs.len() <= 12 {
                    for i in 0..cs.len() {
                        let mut t = cs.clone();
                        t.remove(i);
                        out.push(Case::Raw { text: t.into_iter().collect() });
                    }
                }
            }
            _ => {}
        }
        out
    }
    fn key(&self, c: &Case, clause: &str) -> String {
        match c {
            Case::Expr { ast, tag, sp, quoted, f32_target } => format!("{}|{}{}|{}|{}{}", clause, ["", "!degrees ", "!radians "][*tag as usize], ast.render(*sp), if *quoted { "quoted" } else { "plain" }, if *f32_target { "f32" } else { "f64" }, ""),
            Case::Literal { text, f32_target, radians, degrees } => format!("{}|literal {:?}|{}{}", clause, text, if *f32_target { "f32" } else { "f64" }, if *radians { "|!radians" } else if *degrees { "|!degrees" } else { "" }),
            Case::Sexa { neg, d, m, s, tag } => format!("{}|sexagesimal neg={} {}:{}:{:?}|tag={}", clause, neg, d, m, s, tag),
            Case::SexaCtx { outer_deg, other, sexa } => format!("{}|{}({} + {})", clause, if *outer_deg { "deg" } else { "rad" }, SEXA_OTHERS[*other as usize], sexa),
            Case::Raw { text } => format!("{}|raw {:?}", clause, text.chars().take(40).collect::<String>()),
        }
    }
}

/// float literals: YAML 1.2 forms over digit strings that stress rounding (f64 and f32 ties, subnormals, overflow)
pub fn literal_corpus(thorough: bool) -> Vec<String> {
    let mut v: Vec<String> = Vec::new();
    let bases = [
        "0", "1", "-1", "+1", "0.0", "-0.0", "+0.0", "1.5", "-1.5", ".5", "-.5", "+.5", "5.", "0.1", "0.2", "0.3", "1e3", "1E3", "1e+3", "1e-3", "1.e3", ".5e1", "123456789012345678", "9007199254740993", "9007199254740992", "1.7976931348623157e308",
        "1.7976931348623159e308", "1e309", "-1e309", "4.9e-324", "2.4e-324", "2.5e-324", "1e-400", "2.2250738585072011e-308", "2.2250738585072014e-308", "0.1e1", "1_0", "3.4028235e38", "3.4028236e38", "3.40282356779733661637539395458142568448e38", "1e39", "1.1754944e-38",
        "1e-46", "7e-46", "1.4e-45", "16777216", "16777217", "16777218", "16777219", "0.30000000000000004", "100", "1e22", "1e23", "8.41e21", ".inf", "+.inf", "-.inf", ".Inf", ".INF", ".nan", ".NaN", ".NAN", "-.nan", "inf", "nan", "infinity", "NaN", "1e", "e1", "1.2.3", "0x10", "1_000.5",
    ];
    v.extend(bases.iter().map(|s| s.to_string()));
    // f32 double-rounding candidates: 1 + 2^-24 + tiny (exactly representable f64 neighbours of an f32 tie)
    for k in [1u64, 2, 3, 5, 7, 9, 1023] {
        let tie = 1.0f64 + (k as f64 * 2.0 + 1.0) * 2f64.powi(-24);
        for d in [-1i64, 0, 1] {
            let x = f64::from_bits((tie.to_bits() as i64 + d) as u64);
            v.push(format!("{:.25}", x));
            // a decimal slightly above / below the tie that rounds to the tie in f64
            v.push(format!("{:.17e}", x));
        }
        // decimal just above an f32 tie, closer to the tie than half an f64 ulp: f64 rounds it onto the tie
        v.push(format!("{:.20}00000000000000000001", tie));
    }
    if thorough {
        for m in 0..2000u32 {
            v.push(format!("1.{:04}", m));
            v.push(format!("{}e-5", 16777210 + m));
        }
        for e in -330..=310 {
            v.push(format!("1e{}", e));
            v.push(format!("9.999999999999999e{}", e));
        }
    }
    v.sort();
    v.dedup();
    v
}

pub fn run(ctx: &Ctx) -> i32 {
    let p = C19;
    let mut cases: Vec<Case> = Vec::new();
    // (a) expressions
    let arith_leaves: Vec<u8> = ctx.tier.pick(vec![0u8, 2, 3, 4, 8, 9], (0..LEAVES.len() as u8).collect());
    let arith = all_asts(ctx.tier.pick(5, 6), &arith_leaves[..ctx.tier.pick(6, 7).min(arith_leaves.len())], false);
    for a in &arith {
        for sp in [false, true] {
            cases.push(Case::Expr { ast: a.clone(), tag: 0, sp, quoted: false, f32_target: false });
        }
        if a.size() <= 4 {
            for tag in 1..3u8 {
                cases.push(Case::Expr { ast: a.clone(), tag, sp: false, quoted: false, f32_target: false });
            }
            cases.push(Case::Expr { ast: a.clone(), tag: 0, sp: false, quoted: true, f32_target: false });
            cases.push(Case::Expr { ast: a.clone(), tag: 0, sp: false, quoted: false, f32_target: true });
        }
    }
    let n_arith = cases.len();
    let unit_leaves: Vec<u8> = vec![1, 5, 9, 4];
    let units = all_asts(ctx.tier.pick(5, 6), &unit_leaves, true);
    for a in units.iter().filter(|a| a.has_unit()) {
        for tag in 0..3u8 {
            cases.push(Case::Expr { ast: a.clone(), tag, sp: false, quoted: false, f32_target: false });
        }
        if a.size() <= 4 {
            cases.push(Case::Expr { ast: a.clone(), tag: 1, sp: true, quoted: true, f32_target: true });
        }
    }
    let n_units = cases.len() - n_arith;
    // every leaf alone (incl. every spelling) with tags and targets
    for l in 0..LEAVES.len() as u8 {
        for tag in 0..3u8 {
            for f32_target in [false, true] {
                cases.push(Case::Expr { ast: Ast::Leaf(l), tag, sp: false, quoted: false, f32_target });
            }
        }
    }
    // sexagesimal
    for neg in [false, true] {
        for d in [0u32, 1, 8, 12, 359, 100000] {
            for m in [0u32, 1, 30, 59, 60, 99] {
                for s in [None, Some((0u32, None)), Some((30, None)), Some((59, Some(9u32))), Some((53, Some(2))), Some((60, None)), Some((30, Some(123456789))), Some((1, Some(14))), Some((10, Some(842835))), Some((0, Some(999999999)))] {
                    for tag in 0..3u8 {
                        cases.push(Case::Sexa { neg, d, m, s, tag });
                    }
                }
            }
        }
    }
    for outer_deg in [true, false] {
        for other in 0..SEXA_OTHERS.len() as u8 {
            for sexa in ["1:30", "0:30:30", "12:00:36", "2:15", "359:59:59"] {
                cases.push(Case::SexaCtx { outer_deg, other, sexa: sexa.to_string() });
            }
        }
    }
    // (b) literals on vs off
    for t in literal_corpus(ctx.tier == Tier::Thorough) {
        for f32_target in [false, true] {
            for radians in [false, true] {
                cases.push(Case::Literal { text: t.clone(), f32_target, radians, degrees: false });
            }
            cases.push(Case::Literal { text: t.clone(), f32_target, radians: false, degrees: true });
        }
    }
    let mut acc = run_list(&p, &cases);
    // (c) totality: every string up to the bound over the expression alphabet
    let alphabet: Vec<&str> = vec!["0", "1", "9", ".", "e", "_", ":", "+", "-", "*", "/", "(", ")", " ", "pi", "deg", "rad", "inf", "nan", "tau", "é", "€", "E", "x"];
    let sp = StrSpace::new(&alphabet, ctx.tier.pick(4, 5));
    let n = sp.len();
    let a2 = run_indexed(&p, n, |i| Some(Case::Raw { text: sp.get(i) }));
    acc = acc.merge(a2);
    // pathological long inputs
    let mut long: Vec<Case> = Vec::new();
    for n in [255usize, 256, 257, 1000, 100_000] {
        long.push(Case::Raw { text: format!("{}1{}", "(".repeat(n), ")".repeat(n)) });
        long.push(Case::Raw { text: format!("{}1{}", "deg(".repeat(n), ")".repeat(n)) });
        long.push(Case::Raw { text: format!("{}1", "-".repeat(n)) });
        long.push(Case::Raw { text: format!("1{}", "+1".repeat(n)) });
        long.push(Case::Raw { text: "(".repeat(n) });
        long.push(Case::Raw { text: format!("1{}", "0".repeat(n)) });
        long.push(Case::Raw { text: format!("0.{}1", "0".repeat(n)) });
        long.push(Case::Raw { text: format!("1e{}", "9".repeat(n)) });
        long.push(Case::Raw { text: format!("1{}", "_1".repeat(n)) });
        long.push(Case::Raw { text: format!("{}:30", "1".repeat(n)) });
        long.push(Case::Raw { text: format!("1:30:30.{}", "3".repeat(n)) });
    }
    for n in [999_999usize, 1_000_000, 1_000_001, 2_000_000] {
        long.push(Case::Raw { text: "7".repeat(n) });
        long.push(Case::Raw { text: format!("0.{}", "7".repeat(n)) });
    }
    acc = acc.merge(run_list(&p, &long));
    acc.samples.truncate(0);
    let sample = Ast::Bin(1, Box::new(Ast::Leaf(1)), Box::new(Ast::Bin(1, Box::new(Ast::Leaf(2)), Box::new(Ast::Deg(Box::new(Ast::Leaf(5)))))));
    acc.samples.push(json!({"expression": sample.render(true), "reference_value": sample.eval()}));
    acc.notes.insert("arithmetic_expression_cases".into(), json!(n_arith));
    acc.notes.insert("unit_expression_cases".into(), json!(n_units));
    acc.notes.insert("raw_strings".into(), json!(n));
    let meta = Meta {
        level: "model_checking",
        rule: "(a) every expression tree up to the size bound over the leaf menu (numbers with separators and exponents, pi / tau / inf constants), + - * / unary minus, deg() / rad(), rendered with minimal parentheses (so precedence and left associativity decide) x tags none|!degrees|!radians x blanks x plain|quoted x f64|f32, against the reference evaluator (pure arithmetic bit for bit, angles within 8 ulp, mixed units under !degrees must be rejected); sexagesimal grid; (b) literal corpus with the option on vs off, bit for bit; (c) every string up to the length bound over a 24-symbol expression alphabet plus long pathological inputs requested as f64 / f32 / untyped / tagged with the option on: no panic; non-trivial = compound expression / non-empty string".into(),
        exhaustive: true,
        bounds: json!({"leaves": LEAVES, "max_expression_size": ctx.tier.pick(5, 6), "raw_alphabet": alphabet, "raw_max_len": ctx.tier.pick(4, 5)}),
        assumptions: vec![
            "built with the `robotics` feature; `nothing changes unless the option is on` is covered by C06, which runs with the feature compiled in and the option off against its own reference".into(),
            "sexagesimal: untagged hh:mm[:ss] is seconds, under !degrees / !radians it is degrees converted to radians (README); sexagesimal inside expressions is not judged".into(),
            "nested unit functions other than rad(deg(x)) are not generated (what deg(deg(x)) means is unspecified)".into(),
        ],
    };
    finish(ctx, meta, acc)
}

pub fn replay_file(ctx: &Ctx, path: &str) -> i32 {
    replay(&C19, ctx, path)
}
