//! C20 — presentation wrappers and serializer options change layout only, never data.
//! Every value tree of a small grammar x every placement of up to k wrappers (incl. nested wrappers) x option
//! vectors: the emitted text must read back (untyped) as the value the tree denotes.
use crate::common::SerOpts;
use crate::engine::*;
use crate::tree::Tree;
use serde::ser::{SerializeMap, SerializeSeq, SerializeStruct};
use serde::{Deserialize, Serialize};
use serde_json::json;
use serde_saphyr::{Commented, FlowMap, FlowSeq, FoldStr, FoldString, LitStr, LitString, SpaceAfter};
use std::collections::BTreeMap;

pub const COMMENTS: [&str; 10] = ["note", "a # b: c", "line1\nline2: x", " - [x, {", "x\rinjected: 1", "x\0y", "x\u{85}k: 1", "x\u{2028}k: 1\u{2029}- y", "\u{feff}x\x1b[31m", "x\r\ny: 2"];

#[derive(Clone, Copy, Debug, PartialEq, Eq, Hash, Serialize, Deserialize)]
pub enum Wrap {
    FlowSeq,
    FlowMap,
    Lit,
    Fold,
    Commented(u8),
    SpaceAfter,
}

#[derive(Clone, Debug, PartialEq, Serialize, Deserialize)]
pub enum DV {
    I(i64),
    B(bool),
    S(String),
    Null,
    F(u64),
    Seq(Vec<DV>),
    Map(Vec<(String, DV)>),
    Struct(Vec<(String, DV)>),
    Some(Box<DV>),
    /// externally tagged newtype variant `Nv: x`
    Variant(Box<DV>),
    W(Wrap, Box<DV>),
}

impl Serialize for Ser<'_> {
    fn serialize<S: serde::Serializer>(&self, s: S) -> Result<S::Ok, S::Error> {
        match self.0 {
            DV::I(i) => s.serialize_i64(*i),
            DV::B(b) => s.serialize_bool(*b),
            DV::S(x) => s.serialize_str(x),
            DV::Null => s.serialize_unit(),
            DV::F(b) => s.serialize_f64(f64::from_bits(*b)),
            DV::Seq(v) => {
                let mut q = s.serialize_seq(Some(v.len()))?;
                for x in v {
                    q.serialize_element(&Ser(x))?;
                }
                q.end()
            }
            DV::Map(v) => {
                let mut m = s.serialize_map(Some(v.len()))?;
                for (k, x) in v {
                    m.serialize_entry(k, &Ser(x))?;
                }
                m.end()
            }
            DV::Struct(v) => {
                let mut m = s.serialize_struct("St", v.len())?;
                for (k, x) in v {
                    m.serialize_field(crate::dynv::intern(k), &Ser(x))?;
                }
                m.end()
            }
            DV::Some(x) => s.serialize_some(&Ser(x)),
            DV::Variant(x) => s.serialize_newtype_variant("E", 1, "Nv", &Ser(x)),
            DV::W(w, x) => match w {
                Wrap::FlowSeq => FlowSeq(Ser(x)).serialize(s),
                Wrap::FlowMap => FlowMap(Ser(x)).serialize(s),
                Wrap::SpaceAfter => SpaceAfter(Ser(x)).serialize(s),
                Wrap::Commented(c) => Commented(Ser(x), COMMENTS[*c as usize].to_string()).serialize(s),
                Wrap::Lit => match &**x {
                    DV::S(t) => LitStr(t).serialize(s),
                    other => Ser(other).serialize(s),
                },
                Wrap::Fold => match &**x {
                    DV::S(t) => FoldStr(t).serialize(s),
                    other => Ser(other).serialize(s),
                },
            },
        }
    }
}
/// serialization view of a DV
pub struct Ser<'a>(pub &'a DV);

impl DV {
    pub fn strip(&self) -> DV {
        match self {
            DV::W(_, x) => x.strip(),
            DV::Seq(v) => DV::Seq(v.iter().map(|x| x.strip()).collect()),
            DV::Map(v) => DV::Map(v.iter().map(|(k, x)| (k.clone(), x.strip())).collect()),
            DV::Struct(v) => DV::Struct(v.iter().map(|(k, x)| (k.clone(), x.strip())).collect()),
            DV::Some(x) => DV::Some(Box::new(x.strip())),
            DV::Variant(x) => DV::Variant(Box::new(x.strip())),
            other => other.clone(),
        }
    }
    /// the tree without the flow wrappers that wrap no collection (looking through Some and the other wrappers);
    /// the flag says whether anything was dropped
    pub fn without_inapplicable_flow(&self) -> (DV, bool) {
        fn core(x: &DV) -> &DV {
            match x {
                DV::Some(y) | DV::W(_, y) => core(y),
                o => o,
            }
        }
        match self {
            DV::W(w @ (Wrap::FlowSeq | Wrap::FlowMap), x) => {
                // the hint may be taken by the first collection of its kind anywhere inside the wrapped value;
                // it is inapplicable only when there is none at all (then whatever it changes lies outside)
                fn contains(x: &DV, seq: bool) -> bool {
                    match x {
                        DV::Seq(v) => seq || v.iter().any(|y| contains(y, seq)),
                        DV::Map(v) | DV::Struct(v) => !seq || v.iter().any(|(_, y)| contains(y, seq)),
                        DV::Variant(y) => !seq || contains(y, seq),
                        DV::Some(y) | DV::W(_, y) => contains(y, seq),
                        _ => false,
                    }
                }
                let _ = core(x);
                let applies = contains(x, matches!(w, Wrap::FlowSeq));
                let (inner, d) = x.without_inapplicable_flow();
                if applies {
                    (DV::W(*w, Box::new(inner)), d)
                } else {
                    (inner, true)
                }
            }
            DV::W(w, x) => {
                let (i, d) = x.without_inapplicable_flow();
                (DV::W(*w, Box::new(i)), d)
            }
            DV::Some(x) => {
                let (i, d) = x.without_inapplicable_flow();
                (DV::Some(Box::new(i)), d)
            }
            DV::Variant(x) => {
                let (i, d) = x.without_inapplicable_flow();
                (DV::Variant(Box::new(i)), d)
            }
            DV::Seq(v) => {
                let r: Vec<(DV, bool)> = v.iter().map(|x| x.without_inapplicable_flow()).collect();
                let d = r.iter().any(|x| x.1);
                (DV::Seq(r.into_iter().map(|x| x.0).collect()), d)
            }
            DV::Map(v) | DV::Struct(v) => {
                let r: Vec<(String, (DV, bool))> = v.iter().map(|(k, x)| (k.clone(), x.without_inapplicable_flow())).collect();
                let d = r.iter().any(|x| x.1 .1);
                let es = r.into_iter().map(|(k, x)| (k, x.0)).collect();
                (if matches!(self, DV::Map(_)) { DV::Map(es) } else { DV::Struct(es) }, d)
            }
            o => (o.clone(), false),
        }
    }
    /// a flow wrapper with another flow wrapper somewhere inside the value it wraps
    pub fn has_stacked_flow(&self) -> bool {
        // (anywhere inside: the inner hint replaces the pending outer one)
        fn chain_has_flow(x: &DV) -> bool {
            match x {
                DV::W(Wrap::FlowSeq | Wrap::FlowMap, _) => true,
                DV::Some(y) | DV::W(_, y) | DV::Variant(y) => chain_has_flow(y),
                DV::Seq(v) => v.iter().any(chain_has_flow),
                DV::Map(v) | DV::Struct(v) => v.iter().any(|(_, y)| chain_has_flow(y)),
                _ => false,
            }
        }
        match self {
            DV::W(Wrap::FlowSeq | Wrap::FlowMap, x) => chain_has_flow(x) || x.has_stacked_flow(),
            DV::W(_, x) | DV::Some(x) | DV::Variant(x) => x.has_stacked_flow(),
            DV::Seq(v) => v.iter().any(|x| x.has_stacked_flow()),
            DV::Map(v) | DV::Struct(v) => v.iter().any(|(_, x)| x.has_stacked_flow()),
            _ => false,
        }
    }
    /// the data the tree denotes, as the untyped reader sees it
    pub fn expected(&self) -> Tree {
        match self {
            DV::I(i) => Tree::I(*i as i128),
            DV::B(b) => Tree::Bool(*b),
            DV::S(s) => Tree::S(s.clone()),
            DV::Null => Tree::Null,
            DV::F(b) => Tree::F(*b),
            DV::Seq(v) => Tree::Seq(v.iter().map(|x| x.expected()).collect()),
            DV::Map(v) | DV::Struct(v) => Tree::Map(v.iter().map(|(k, x)| (Tree::S(k.clone()), x.expected())).collect()),
            DV::Some(x) | DV::W(_, x) => x.expected(),
            DV::Variant(x) => Tree::Map(vec![(Tree::s("Nv"), x.expected())]),
        }
    }
    /// strings that sit under a Fold wrapper (compared modulo one trailing line break)
    fn folded(&self, out: &mut Vec<String>) {
        match self {
            DV::W(Wrap::Fold, x) => {
                if let DV::S(s) = &**x {
                    out.push(s.clone());
                }
                x.folded(out)
            }
            DV::W(_, x) | DV::Some(x) | DV::Variant(x) => x.folded(out),
            DV::Seq(v) => v.iter().for_each(|x| x.folded(out)),
            DV::Map(v) | DV::Struct(v) => v.iter().for_each(|(_, x)| x.folded(out)),
            _ => {}
        }
    }
    pub fn count(&self) -> usize {
        match self {
            DV::W(_, x) => x.count(),
            DV::Some(x) | DV::Variant(x) => 1 + x.count(),
            DV::Seq(v) => 1 + v.iter().map(|x| x.count()).sum::<usize>(),
            DV::Map(v) | DV::Struct(v) => 1 + v.iter().map(|(_, x)| x.count()).sum::<usize>(),
            _ => 1,
        }
    }
    fn wrappers(&self) -> usize {
        match self {
            DV::W(_, x) => 1 + x.wrappers(),
            DV::Some(x) | DV::Variant(x) => x.wrappers(),
            DV::Seq(v) => v.iter().map(|x| x.wrappers()).sum(),
            DV::Map(v) | DV::Struct(v) => v.iter().map(|(_, x)| x.wrappers()).sum(),
            _ => 0,
        }
    }
    pub fn show(&self) -> String {
        match self {
            DV::I(i) => format!("{}", i),
            DV::B(b) => format!("{}", b),
            DV::S(s) => format!("{:?}", s),
            DV::Null => "~".into(),
            DV::F(b) => format!("{:?}f", f64::from_bits(*b)),
            DV::Seq(v) => format!("[{}]", v.iter().map(|x| x.show()).collect::<Vec<_>>().join(",")),
            DV::Map(v) => format!("{{{}}}", v.iter().map(|(k, x)| format!("{}:{}", k, x.show())).collect::<Vec<_>>().join(",")),
            DV::Struct(v) => format!("St{{{}}}", v.iter().map(|(k, x)| format!("{}:{}", k, x.show())).collect::<Vec<_>>().join(",")),
            DV::Some(x) => format!("Some({})", x.show()),
            DV::Variant(x) => format!("Nv({})", x.show()),
            DV::W(w, x) => format!("{:?}<{}>", w, x.show()),
        }
    }
}

fn tree_eq(got: &Tree, want: &Tree, folded: &[String]) -> bool {
    match (got, want) {
        (Tree::S(a), Tree::S(b)) => {
            a == b
                || (folded.contains(b) && {
                    let (ta, tb) = (a.strip_suffix('\n').unwrap_or(a), b.strip_suffix('\n').unwrap_or(b));
                    ta == tb || a.as_str() == tb || ta == b.as_str()
                })
        }
        (Tree::Seq(a), Tree::Seq(b)) => a.len() == b.len() && a.iter().zip(b).all(|(x, y)| tree_eq(x, y, folded)),
        (Tree::Map(a), Tree::Map(b)) => a.len() == b.len() && a.iter().zip(b).all(|((k1, v1), (k2, v2))| tree_eq(k1, k2, folded) && tree_eq(v1, v2, folded)),
        (a, b) => a == b,
    }
}

pub fn leaves(tier: Tier) -> Vec<DV> {
    let mut v = vec![
        DV::I(7),
        DV::B(true),
        DV::S("s".into()),
        DV::S("l1\nl2".into()),
        DV::S("".into()),
        DV::S("# not a comment".into()),
        DV::S("tr\n".into()),
        DV::S("keep\n\n".into()),
        DV::Null,
        DV::Seq(vec![]),
        // leading blanks: a first line of blanks only, blanks only, a blank before the text
        DV::S("  \nt".into()),
        DV::S("  ".into()),
        DV::S(" a".into()),
    ];
    if tier == Tier::Thorough {
        v.push(DV::S(" lead".into()));
        v.push(DV::S("\n".into()));
        v.push(DV::S("\n\n".into()));
        v.push(DV::S("w".repeat(100)));
        v.push(DV::S("a: b".into()));
        v.push(DV::F(1.5f64.to_bits()));
        v.push(DV::Map(vec![]));
    }
    v
}

const A1: usize = 4;
const A2: usize = 3;
fn b1(s: usize, x: DV) -> DV {
    match s {
        0 => DV::Seq(vec![x]),
        1 => DV::Map(vec![("k".into(), x)]),
        2 => DV::Some(Box::new(x)),
        _ => DV::Variant(Box::new(x)),
    }
}
fn b2(s: usize, x: DV, y: DV) -> DV {
    match s {
        0 => DV::Seq(vec![x, y]),
        1 => DV::Map(vec![("k".into(), x), ("l".into(), y)]),
        _ => DV::Struct(vec![("f".into(), x), ("g".into(), y)]),
    }
}
fn nullish(x: &DV) -> bool {
    matches!(x, DV::Null) || matches!(x, DV::Some(y) if nullish(y))
}

pub fn values(max: usize, tier: Tier) -> Vec<Vec<DV>> {
    let mut by: Vec<Vec<DV>> = vec![Vec::new(); max + 1];
    by[1] = leaves(tier);
    for n in 2..=max {
        let mut v = Vec::new();
        for s in 0..A1 {
            for x in &by[n - 1] {
                if s == 2 && nullish(x) {
                    continue; // Some(null) is not representable (C13 convention)
                }
                v.push(b1(s, x.clone()));
            }
        }
        for s in 0..A2 {
            for a in 1..(n - 1) {
                let b = n - 1 - a;
                for x in &by[a] {
                    for y in &by[b] {
                        v.push(b2(s, x.clone(), y.clone()));
                    }
                }
            }
        }
        by[n] = v;
    }
    by
}

/// wrapper stacks applicable to a node (outermost first)
fn stacks(x: &DV, tier: Tier) -> Vec<Vec<Wrap>> {
    use Wrap::*;
    let mut v: Vec<Vec<Wrap>> = vec![vec![Commented(0)], vec![Commented(1)], vec![Commented(2)], vec![Commented(3)], vec![SpaceAfter], vec![FlowSeq], vec![FlowMap], vec![Commented(1), SpaceAfter], vec![SpaceAfter, Commented(2)]];
    if let DV::S(t) = x {
        v.push(vec![Lit]);
        v.push(vec![Commented(1), Lit]);
        // FoldStr is documented to write interior line breaks as such and to leave their folding to the
        // reader: it is only applied to strings whose line breaks are all at the end
        if !t.trim_end_matches('\n').contains('\n') {
            v.push(vec![Fold]);
            v.push(vec![Commented(2), Fold]);
            v.push(vec![SpaceAfter, Fold]);
        }
        // SpaceAfter directly around Lit is documented as unsafe: not generated
    }
    if matches!(x, DV::Seq(_)) {
        v.push(vec![SpaceAfter, FlowSeq]);
        v.push(vec![Commented(3), FlowSeq]);
        v.push(vec![FlowSeq, SpaceAfter]);
    }
    if matches!(x, DV::Map(_) | DV::Struct(_)) {
        v.push(vec![SpaceAfter, FlowMap]);
        v.push(vec![Commented(3), FlowMap]);
    }
    if tier == Tier::Quick {
        v.retain(|s| !matches!(s.as_slice(), [Commented(0)] | [Commented(3)]));
    }
    v
}

fn wrap_with(x: DV, stack: &[Wrap]) -> DV {
    let mut cur = x;
    for w in stack.iter().rev() {
        cur = DV::W(*w, Box::new(cur));
    }
    cur
}

/// every way of decorating at most `budget` nodes of `x`
fn decorations(x: &DV, budget: usize, tier: Tier, out: &mut Vec<DV>) {
    // returns all variants of x using exactly <= budget wrapped nodes (including none)
    fn go(x: &DV, budget: usize, tier: Tier) -> Vec<(DV, usize)> {
        // children first
        let kids: Vec<(DV, usize)> = match x {
            DV::Seq(v) => combine(v, budget, tier).into_iter().map(|(c, u)| (DV::Seq(c), u)).collect(),
            DV::Map(v) => {
                let vals: Vec<DV> = v.iter().map(|(_, x)| x.clone()).collect();
                combine(&vals, budget, tier).into_iter().map(|(c, u)| (DV::Map(v.iter().map(|(k, _)| k.clone()).zip(c).collect()), u)).collect()
            }
            DV::Struct(v) => {
                let vals: Vec<DV> = v.iter().map(|(_, x)| x.clone()).collect();
                combine(&vals, budget, tier).into_iter().map(|(c, u)| (DV::Struct(v.iter().map(|(k, _)| k.clone()).zip(c).collect()), u)).collect()
            }
            DV::Some(y) => go(y, budget, tier).into_iter().map(|(c, u)| (DV::Some(Box::new(c)), u)).collect(),
            DV::Variant(y) => go(y, budget, tier).into_iter().map(|(c, u)| (DV::Variant(Box::new(c)), u)).collect(),
            other => vec![(other.clone(), 0)],
        };
        let mut out = Vec::new();
        for (k, used) in kids {
            out.push((k.clone(), used));
            if used < budget {
                for st in stacks(x, tier) {
                    out.push((wrap_with(k.clone(), &st), used + 1));
                }
            }
        }
        out
    }
    fn combine(v: &[DV], budget: usize, tier: Tier) -> Vec<(Vec<DV>, usize)> {
        let mut acc: Vec<(Vec<DV>, usize)> = vec![(Vec::new(), 0)];
        for x in v {
            let mut next = Vec::new();
            for (pre, used) in &acc {
                for (c, u) in go(x, budget - used, tier) {
                    let mut p = pre.clone();
                    p.push(c);
                    next.push((p, used + u));
                }
            }
            acc = next;
        }
        acc
    }
    for (d, used) in go(x, budget, tier) {
        if used >= 1 {
            out.push(d);
        }
    }
}

#[derive(Clone, Debug, Serialize, Deserialize)]
pub struct Case {
    pub val: DV,
    pub opts: SerOpts,
}

pub struct C20;

fn to_tree(text: &str) -> Result<Result<Tree, String>, String> {
    guarded(|| serde_saphyr::from_str::<Tree>(text).map_err(|e| e.to_string().lines().next().unwrap_or("").to_string()))
}

impl Prop for C20 {
    type Case = Case;
    fn check(&self, c: &Case) -> Verdict {
        let mut v = Verdict::default();
        let want = c.val.expected();
        let mut folded = Vec::new();
        c.val.folded(&mut folded);
        let lib = c.opts.to_lib();
        let bare_val = c.val.strip();
        // the undecorated value has to make the trip itself, otherwise the case belongs to C12 / C13
        let bare = guarded(|| serde_saphyr::to_string_with_options(&Ser(&bare_val), c.opts.to_lib()));
        let bare_ok = match &bare {
            Ok(Ok(t)) => matches!(to_tree(t), Ok(Ok(ref tr)) if *tr == want),
            _ => false,
        };
        v.execs = 2;
        if !bare_ok {
            v.rejected = true;
            return v;
        }
        v.compared = 1;
        v.nontrivial = c.val.wrappers() >= 1 && c.val.count() >= 2;
        let what = format!("{} with {}", c.val.show(), c.opts.label());
        let text = match guarded(|| serde_saphyr::to_string_with_options(&Ser(&c.val), lib)) {
            Err(p) => {
                v.fail(&format!("panic_ser@{}", panic_site(&p)), format!("{}: {}", what, p));
                return v;
            }
            Ok(Err(e)) => {
                v.fail("ser_error", format!("{}: serializes without the wrappers but fails with them: {}", what, e));
                return v;
            }
            Ok(Ok(t)) => t,
        };
        v.outcome = hash64(&(text.contains(" #"), text.contains("\n\n"), text.contains('[') || text.contains('{'), text.contains('|'), text.contains('>')));
        match crate::raw::raw_doc_count(&text) {
            Ok(1) => {}
            Ok(n) => {
                v.fail("not_one_document", format!("{}: emitted {:?} parses as {} documents", what, text, n));
                return v;
            }
            Err(e) => {
                v.fail("not_wellformed", format!("{}: emitted {:?} does not scan: {}", what, text, e));
                return v;
            }
        }
        // a flow wrapper around something that is no sequence / mapping has nothing to lay out: the text is the
        // one emitted without it (in particular no later sibling is written in flow style because of it)
        let (plainer, dropped) = c.val.without_inapplicable_flow();
        // (stacked flow wrappers are left alone: which of two hints on one node wins is not stated)
        if dropped && !c.val.has_stacked_flow() {
            v.execs += 1;
            v.compared += 1;
            if let Ok(Ok(t2)) = guarded(|| serde_saphyr::to_string_with_options(&Ser(&plainer), c.opts.to_lib())) {
                if t2 != text {
                    v.fail("inapplicable_flow_wrapper_changes_the_layout_of_other_nodes", format!("{}: emitted {:?}, without the flow wrapper(s) that wrap no collection {:?}", what, text, t2));
                    return v;
                }
            }
        }
        match to_tree(&text) {
            Err(p) => v.fail("panic_de", format!("{}: {}", what, p)),
            Ok(Err(e)) => v.fail("readback_error", format!("{}: emitted {:?}; read-back failed: {}", what, text, e)),
            Ok(Ok(got)) => {
                if !tree_eq(&got, &want, &folded) {
                    v.fail("data_changed_by_wrapper", format!("{}: emitted {:?}; reads back as {:?}, the value is {:?} (without wrappers: {:?})", what, text, got, want, bare.as_ref().ok().and_then(|r| r.as_ref().ok())));
                }
            }
        }
        v
    }
    fn shrink(&self, c: &Case) -> Vec<Case> {
        let mut out = Vec::new();
        for o in c.opts.shrink() {
            out.push(Case { opts: o, val: c.val.clone() });
        }
        fn sh(x: &DV) -> Vec<DV> {
            let mut out = Vec::new();
            match x {
                DV::W(w, y) => {
                    out.push((**y).clone());
                    for z in sh(y) {
                        out.push(DV::W(*w, Box::new(z)));
                    }
                    if let Wrap::Commented(c) = w {
                        if *c != 0 {
                            out.push(DV::W(Wrap::Commented(0), y.clone()));
                        }
                    }
                }
                DV::Seq(v) => {
                    for i in 0..v.len() {
                        let mut w = v.clone();
                        w.remove(i);
                        out.push(DV::Seq(w));
                        out.push(v[i].clone());
                        for z in sh(&v[i]) {
                            let mut w = v.clone();
                            w[i] = z;
                            out.push(DV::Seq(w));
                        }
                    }
                }
                DV::Map(v) | DV::Struct(v) => {
                    let is_map = matches!(x, DV::Map(_));
                    for i in 0..v.len() {
                        let mut w = v.clone();
                        w.remove(i);
                        if is_map {
                            out.push(DV::Map(w));
                        }
                        out.push(v[i].1.clone());
                        for z in sh(&v[i].1) {
                            let mut w = v.clone();
                            w[i].1 = z;
                            out.push(if is_map { DV::Map(w) } else { DV::Struct(w) });
                        }
                    }
                }
                DV::Some(y) => {
                    out.push((**y).clone());
                    for z in sh(y) {
                        if !nullish(&z.strip()) {
                            out.push(DV::Some(Box::new(z)));
                        }
                    }
                }
                DV::Variant(y) => {
                    out.push((**y).clone());
                    for z in sh(y) {
                        out.push(DV::Variant(Box::new(z)));
                    }
                }
                DV::S(s) => {
                    for t in crate::common::shrink_string(s) {
                        out.push(DV::S(t));
                    }
                }
                _ => {}
            }
            out
        }
        for z in sh(&c.val) {
            out.push(Case { val: z, opts: c.opts });
        }
        out
    }
    fn key(&self, c: &Case, clause: &str) -> String {
        format!("{}|{}|{}", clause, c.val.show(), c.opts.label())
    }
}

// ---- static family: typed read-back into the wrapped type and into the bare type
#[derive(Debug, Serialize, Deserialize, PartialEq, Clone)]
struct Wrapped {
    a: Commented<i64>,
    b: FlowSeq<Vec<Commented<i64>>>,
    c: FlowMap<BTreeMap<String, SpaceAfter<i64>>>,
    d: LitString,
    e: FoldString,
    f: SpaceAfter<Vec<Commented<String>>>,
    g: Commented<SpaceAfter<FlowSeq<Vec<String>>>>,
    h: SpaceAfter<Commented<Option<bool>>>,
    i: Vec<FlowMap<BTreeMap<String, LitString>>>,
}
#[derive(Debug, Serialize, Deserialize, PartialEq, Clone)]
struct Bare {
    a: i64,
    b: Vec<i64>,
    c: BTreeMap<String, i64>,
    d: String,
    e: String,
    f: Vec<String>,
    g: Vec<String>,
    h: Option<bool>,
    i: Vec<BTreeMap<String, String>>,
}

fn static_pass(acc: &mut Acc, opts: &[SerOpts]) {
    let strings = ["s", "l1\nl2", "tr\n", "", "# x", "a: b", " lead"];
    let comments = COMMENTS;
    for (si, s) in strings.iter().enumerate() {
        for (ci, cm) in comments.iter().enumerate() {
            for o in opts {
                let bare = Bare {
                    a: 7,
                    b: vec![1, 2],
                    c: [("k".to_string(), 3)].into_iter().collect(),
                    d: s.to_string(),
                    e: if s.trim_end_matches('\n').contains('\n') { "s".to_string() } else { s.to_string() },
                    f: vec![s.to_string(), "z".into()],
                    g: vec![s.to_string()],
                    h: Some(true),
                    i: vec![[("m".to_string(), s.to_string())].into_iter().collect()],
                };
                let w = Wrapped {
                    a: Commented(7, cm.to_string()),
                    b: FlowSeq(vec![Commented(1, cm.to_string()), Commented(2, "x".into())]),
                    c: FlowMap([("k".to_string(), SpaceAfter(3))].into_iter().collect()),
                    d: LitString(s.to_string()),
                    e: FoldString(if s.trim_end_matches('\n').contains('\n') { "s".to_string() } else { s.to_string() }),
                    f: SpaceAfter(vec![Commented(s.to_string(), cm.to_string()), Commented("z".into(), "".into())]),
                    g: Commented(SpaceAfter(FlowSeq(vec![s.to_string()])), cm.to_string()),
                    h: SpaceAfter(Commented(Some(true), cm.to_string())),
                    i: vec![FlowMap([("m".to_string(), LitString(s.to_string()))].into_iter().collect())],
                };
                acc.evaluations += 1;
                acc.nontrivial += 1;
                acc.compared += 2;
                acc.class("static_family", 1);
                let key = |clause: &str| format!("{}|static family string#{} comment#{}|{}", clause, si, ci, o.label());
                let text = match guarded(|| serde_saphyr::to_string_with_options(&w, o.to_lib())) {
                    Ok(Ok(t)) => t,
                    Ok(Err(e)) => {
                        acc.add_violation(key("ser_error"), "ser_error", e.to_string(), json!({"string": s, "comment": cm}), json!({}));
                        continue;
                    }
                    Err(p) => {
                        acc.add_violation(key("panic_ser"), "panic_ser", p, json!({"string": s, "comment": cm}), json!({}));
                        continue;
                    }
                };
                acc.execs += 3;
                // the bare document must itself be fine (otherwise C13's business)
                let bare_text = serde_saphyr::to_string_with_options(&bare, o.to_lib()).unwrap_or_default();
                if serde_saphyr::from_str::<Bare>(&bare_text).ok().as_ref() != Some(&bare) {
                    acc.generator_rejected += 1;
                    continue;
                }
                let norm = |mut b: Bare| {
                    // folded wrapper: modulo one trailing line break
                    if b.e.strip_suffix('\n').unwrap_or(&b.e) == bare.e.strip_suffix('\n').unwrap_or(&bare.e) {
                        b.e = bare.e.clone();
                    }
                    b
                };
                match guarded(|| serde_saphyr::from_str::<Bare>(&text)) {
                    Ok(Ok(b)) => {
                        if norm(b.clone()) != bare {
                            acc.add_violation(key("bare_type_reads_other_data"), "bare_type_reads_other_data", format!("emitted {:?}; the bare type reads {:?}, expected {:?}", text, b, bare), json!({"string": s, "comment": cm}), json!({}));
                        }
                    }
                    Ok(Err(e)) => acc.add_violation(key("bare_type_readback_error"), "bare_type_readback_error", format!("emitted {:?}: {}", text, e.to_string().lines().next().unwrap_or("")), json!({"string": s, "comment": cm}), json!({})),
                    Err(p) => acc.add_violation(key("panic_de"), "panic_de", p, json!({"string": s}), json!({})),
                }
                match guarded(|| serde_saphyr::from_str::<Wrapped>(&text)) {
                    Ok(Ok(b)) => {
                        let as_bare = Bare {
                            a: b.a.0,
                            b: b.b.0.iter().map(|x| x.0).collect(),
                            c: b.c.0.iter().map(|(k, v)| (k.clone(), v.0)).collect(),
                            d: b.d.0.clone(),
                            e: b.e.0.clone(),
                            f: b.f.0.iter().map(|x| x.0.clone()).collect(),
                            g: b.g.0 .0 .0.clone(),
                            h: b.h.0 .0,
                            i: b.i.iter().map(|m| m.0.iter().map(|(k, v)| (k.clone(), v.0.clone())).collect()).collect(),
                        };
                        if norm(as_bare.clone()) != bare {
                            acc.add_violation(key("wrapped_type_reads_other_data"), "wrapped_type_reads_other_data", format!("emitted {:?}; the wrapped type reads {:?}, expected {:?}", text, as_bare, bare), json!({"string": s, "comment": cm}), json!({}));
                        }
                    }
                    Ok(Err(e)) => acc.add_violation(key("wrapped_type_readback_error"), "wrapped_type_readback_error", format!("emitted {:?}: {}", text, e.to_string().lines().next().unwrap_or("")), json!({"string": s, "comment": cm}), json!({})),
                    Err(p) => acc.add_violation(key("panic_de"), "panic_de", p, json!({"string": s}), json!({})),
                }
            }
        }
    }
}

/// Text a block scalar or a comment cannot carry verbatim (line breaks other than LF, NUL, other control
/// characters, a byte-order mark), under LitStr / FoldStr and inside comments, in every one-level context; and lines
/// FoldStr must not wrap.
fn control_pass(p: &C20, acc: &mut Acc, opts: &[SerOpts]) {
    let mut texts: Vec<String> = ["a\rb", "a\0b", "\ra", "a\r", "a\u{85}b", "a\x1bb", "a\u{2028}b", "a\x7fb", "\u{feff}a", "a\tb", "\ta", "a\r\nb", "a\u{9b}b"].iter().map(|s| s.to_string()).collect();
    // strings of line breaks only (the two open findings of this property: reproduced in both tiers)
    texts.push("\n".to_string());
    texts.push("\n\n".to_string());
    texts.push(format!("\t{}", "word ".repeat(30)));
    texts.push(format!(" {}", "word ".repeat(30)));
    texts.push(format!("{}\n", "word ".repeat(30)));
    texts.push(format!("{}\tword", "word ".repeat(30)));
    // a blank followed by a tab right where the line would be wrapped
    texts.push(format!("{} \tbbbb cccc", "a".repeat(78)));
    texts.push(format!("{} \t\tbbbb cccc", "a".repeat(79)));
    let mut decorated: Vec<DV> = Vec::new();
    for t in &texts {
        for w in [Wrap::Lit, Wrap::Fold] {
            if w == Wrap::Fold && t.trim_end_matches('\n').contains('\n') {
                continue;
            }
            decorated.push(DV::W(w, Box::new(DV::S(t.clone()))));
            decorated.push(DV::W(Wrap::Commented(1), Box::new(DV::W(w, Box::new(DV::S(t.clone()))))));
        }
    }
    for ci in 4..COMMENTS.len() as u8 {
        for leaf in [DV::I(7), DV::S("s".into()), DV::Null, DV::S("l1\nl2".into()), DV::Seq(vec![DV::I(7)])] {
            decorated.push(DV::W(Wrap::Commented(ci), Box::new(leaf)));
        }
    }
    let mut cases = Vec::new();
    for d in &decorated {
        let x = || d.clone();
        let vals = [
            x(),
            DV::Seq(vec![x(), DV::I(7)]),
            DV::Map(vec![("k".into(), x()), ("l".into(), DV::I(7))]),
            DV::Struct(vec![("f".into(), x()), ("g".into(), DV::I(7))]),
            DV::Seq(vec![DV::Map(vec![("k".into(), x()), ("l".into(), DV::I(7))])]),
            DV::Variant(Box::new(x())),
            DV::Map(vec![("k".into(), DV::Seq(vec![x(), DV::I(7)])), ("l".into(), DV::I(7))]),
        ];
        for v in vals {
            for o in opts {
                cases.push(Case { val: v.clone(), opts: *o });
            }
        }
    }
    acc.notes.insert("control_pass".into(), json!({"texts_under_lit_fold": texts.len(), "comments": COMMENTS.len() - 4, "contexts": 7, "cases": cases.len()}));
    let a = run_list(p, &cases);
    *acc = std::mem::take(acc).merge(a);
}

pub fn option_vectors(tier: Tier) -> Vec<SerOpts> {
    let mut v = vec![SerOpts::default()];
    let d = SerOpts::default();
    v.push(SerOpts { compact: true, ..d });
    v.push(SerOpts { indent: 3, ..d });
    v.push(SerOpts { no_block_scalars: true, ..d });
    v.push(SerOpts { quote_all: true, ..d });
    v.push(SerOpts { indent: 4, compact: true, ..d });
    if tier == Tier::Thorough {
        v.push(SerOpts { yaml_12: true, ..d });
        v.push(SerOpts { no_empty_braces: true, ..d });
        v.push(SerOpts { tagged_enums: true, ..d });
        v.push(SerOpts { wrap: 1, ..d });
        v.push(SerOpts { indent: 1, ..d });
        v.push(SerOpts { indent: 8, no_block_scalars: true, ..d });
    }
    v
}

pub fn run(ctx: &Ctx) -> i32 {
    let p = C20;
    let max = ctx.tier.pick(3, 4);
    let by = values(max, ctx.tier);
    let opts = option_vectors(ctx.tier);
    let mut acc = Acc::default();
    let mut decorated_total = 0u64;
    for n in 1..=max {
        // up to 2 decorated nodes (3 on the small trees in thorough)
        let budget = if ctx.tier == Tier::Thorough && n <= 3 { 3 } else { 2 };
        let list = &by[n];
        use rayon::prelude::*;
        let a = list
            .par_chunks(8)
            .fold(Acc::default, |mut acc, chunk| {
                for x in chunk {
                    let mut ds = Vec::new();
                    decorations(x, budget, ctx.tier, &mut ds);
                    for d in ds {
                        for o in &opts {
                            if n == max && max >= 4 && !(o.is_default() || o.compact || o.indent == 3) {
                                continue;
                            }
                            process_case(&p, &mut acc, &Case { val: d.clone(), opts: *o });
                        }
                    }
                }
                acc
            })
            .reduce(Acc::default, Acc::merge);
        decorated_total += a.evaluations;
        acc = acc.merge(a);
    }
    control_pass(&p, &mut acc, &opts);
    static_pass(&mut acc, &opts);
    acc.samples.truncate(0);
    let sample = DV::Struct(vec![("f".into(), DV::W(Wrap::SpaceAfter, Box::new(DV::Seq(vec![DV::W(Wrap::Lit, Box::new(DV::S("keep\n\n".into())))])))), ("g".into(), DV::W(Wrap::Commented(1), Box::new(DV::I(7))))]);
    acc.samples.push(json!({"value": sample.show(), "text": serde_saphyr::to_string(&Ser(&sample)).unwrap_or_default()}));
    acc.notes.insert("decorated_cases".into(), json!(decorated_total));
    let meta = Meta {
        level: "model_checking",
        rule: "every value tree up to the node bound (leaves: integers, booleans, strings incl. multi-line / trailing breaks / `# not a comment` / empty, null, empty sequence; containers: sequence, string-keyed mapping, struct, Some, newtype variant) x every placement of up to 2 (thorough: 3 on <=3-node trees) wrapper stacks (Commented with 4 comment texts incl. `#`, line breaks and YAML syntax; SpaceAfter; FlowSeq; FlowMap; LitStr; FoldStr; nested stacks) x option vectors; the emitted text must be one well-formed document that reads back untyped as the value (Fold: modulo one trailing line break); cases whose undecorated value does not make the trip are left to C12/C13; plus a static family read back into the wrapped and the bare type; non-trivial = at least one wrapper inside or around a container".into(),
        exhaustive: true,
        bounds: json!({"max_nodes": max, "values_by_size": by.iter().map(|v| v.len()).collect::<Vec<_>>(), "option_vectors": opts.iter().map(|o| o.label()).collect::<Vec<_>>(), "comments": COMMENTS}),
        assumptions: vec!["SpaceAfter directly around LitStr is documented as unsafe and not generated (SpaceAfter around a container that ends in a literal string is)".into(), "FoldStr is applied only to strings without interior line breaks: its documentation says interior breaks are written as such and folded by the reader".into()],
    };
    finish(ctx, meta, acc)
}

pub fn replay_file(ctx: &Ctx, path: &str) -> i32 {
    replay(&C20, ctx, path)
}
