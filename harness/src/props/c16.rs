//! C16 — reported locations are consistent with the input and name the right node.
use crate::doc::*;
use crate::dynv::{from_str_ty, Ty};
use crate::engine::*;
use crate::treegen::{shrink_node, TreeGen};
use serde::de::{Deserializer, MapAccess, SeqAccess, Visitor};
use serde::{Deserialize, Serialize};
use serde_json::json;
use serde_saphyr::{Location, Spanned};
use std::collections::HashMap;

#[derive(Clone, Debug, Serialize, Deserialize)]
pub struct Case {
    pub tree: Node,
    /// index into LAYOUTS
    pub layout: u8,
    pub flow: bool,
}

pub fn layouts() -> Vec<Layout> {
    let mut v = Vec::new();
    for nl in ["\n", "\r\n", "\r"] {
        for step in [2usize, 1, 3] {
            for comments in [false, true] {
                for wide in [false, true] {
                    v.push(Layout { nl: nl.to_string(), step, comments, wide });
                }
            }
        }
    }
    v
}

/// span-carrying untyped tree: every leaf, item, key and value is wrapped in Spanned
#[derive(Debug, Clone)]
pub enum SN {
    Scalar(String),
    Seq(Vec<Spanned<SN>>),
    Map(Vec<(Spanned<SN>, Spanned<SN>)>),
}

impl<'de> Deserialize<'de> for SN {
    fn deserialize<D: Deserializer<'de>>(d: D) -> Result<Self, D::Error> {
        struct V;
        impl<'de> Visitor<'de> for V {
            type Value = SN;
            fn expecting(&self, f: &mut std::fmt::Formatter) -> std::fmt::Result {
                write!(f, "any YAML node")
            }
            fn visit_bool<E>(self, v: bool) -> Result<SN, E> {
                Ok(SN::Scalar(v.to_string()))
            }
            fn visit_i64<E>(self, v: i64) -> Result<SN, E> {
                Ok(SN::Scalar(v.to_string()))
            }
            fn visit_u64<E>(self, v: u64) -> Result<SN, E> {
                Ok(SN::Scalar(v.to_string()))
            }
            fn visit_f64<E>(self, v: f64) -> Result<SN, E> {
                Ok(SN::Scalar(v.to_string()))
            }
            fn visit_str<E>(self, v: &str) -> Result<SN, E> {
                Ok(SN::Scalar(v.to_string()))
            }
            fn visit_unit<E>(self) -> Result<SN, E> {
                Ok(SN::Scalar("~".into()))
            }
            fn visit_seq<A: SeqAccess<'de>>(self, mut a: A) -> Result<SN, A::Error> {
                let mut v = Vec::new();
                while let Some(x) = a.next_element::<Spanned<SN>>()? {
                    v.push(x);
                }
                Ok(SN::Seq(v))
            }
            fn visit_map<A: MapAccess<'de>>(self, mut a: A) -> Result<SN, A::Error> {
                let mut v = Vec::new();
                while let Some(k) = a.next_key::<Spanned<SN>>()? {
                    let x = a.next_value::<Spanned<SN>>()?;
                    v.push((k, x));
                }
                Ok(SN::Map(v))
            }
        }
        d.deserialize_any(V)
    }
}

fn flatten<'a>(s: &'a Spanned<SN>, out: &mut Vec<&'a Spanned<SN>>) {
    out.push(s);
    match &s.value {
        SN::Seq(v) => {
            for x in v {
                flatten(x, out);
            }
        }
        SN::Map(v) => {
            for (k, x) in v {
                flatten(k, out);
                flatten(x, out);
            }
        }
        _ => {}
    }
}

/// (line, column, char offset, byte offset, byte len)
fn coords(l: &Location) -> (u64, u64, u64, Option<u64>, Option<u64>) {
    (l.line(), l.column(), l.span().offset(), l.span().byte_offset(), l.span().byte_len())
}

/// Are the four coordinates of `l` one and the same position of `text`?
fn consistent(l: &Location, text: &str) -> Result<(), String> {
    let (line, col, chr, byte, blen) = coords(l);
    let nchars = text.chars().count() as u64;
    if chr > nchars {
        return Err(format!("char offset {} beyond the input ({} chars)", chr, nchars));
    }
    // byte offset 0 with length 0 is reported as "unknown" by the API; derive it from the char offset then
    let b = match byte {
        Some(b) => b as usize,
        None => text.char_indices().nth(chr as usize).map(|(i, _)| i).unwrap_or(text.len()),
    };
    if b > text.len() || !text.is_char_boundary(b) {
        return Err(format!("byte offset {} not a position of the input", b));
    }
    if let Some(len) = blen {
        if b + len as usize > text.len() {
            return Err(format!("byte range {}+{} exceeds the input", b, len));
        }
    }
    let p = pos_at(text, b);
    if (p.line as u64, p.col as u64, p.chr as u64) != (line, col, chr) {
        return Err(format!("byte {} is line {} column {} char {}, but the location says line {} column {} char {}", b, p.line, p.col, p.chr, line, col, chr));
    }
    Ok(())
}

/// per pre-order index: is the node strictly inside a mapping key that is itself a collection?
fn inside_composite_key(n: &Node) -> Vec<bool> {
    fn walk(n: &Node, inside: bool, out: &mut Vec<bool>) {
        out.push(inside);
        match &n.kind {
            Kind::Seq(v) => v.iter().for_each(|c| walk(c, inside, out)),
            Kind::Map(es) => {
                for (k, x) in es {
                    // the key node itself keeps the flag of its parent; its descendants are inside a composite key
                    out.push(inside);
                    for c in k.children() {
                        walk(c, true, out);
                    }
                    walk(x, inside, out);
                }
            }
            _ => {}
        }
    }
    let mut out = Vec::new();
    walk(n, false, &mut out);
    out
}

pub struct C16 {
    pub layouts: Vec<Layout>,
}

fn at(l: &Location, p: Pos) -> bool {
    l.line() == p.line as u64 && l.column() == p.col as u64 && l.span().offset() == p.chr as u64
}

/// type that accepts the tree when every value leaf is an integer; None if keys are not distinct plain scalars
fn int_type(n: &Node, anchors: &mut HashMap<String, Ty>) -> Option<Ty> {
    let t = match &n.kind {
        Kind::Scalar { .. } => Ty::I64,
        Kind::Alias(a) => anchors.get(a)?.clone(),
        Kind::Seq(v) => Ty::Tuple(v.iter().map(|c| int_type(c, anchors)).collect::<Option<Vec<_>>>()?),
        Kind::Map(v) => {
            let mut fields = Vec::new();
            for (k, x) in v {
                let name = match &k.kind {
                    Kind::Scalar { text, .. } if k.anchor.is_none() && !text.is_empty() && !text.contains('\n') && text != "<<" => text.clone(),
                    _ => return None,
                };
                if fields.iter().any(|(f, _): &(String, Ty)| *f == name) {
                    return None;
                }
                fields.push((name, int_type(x, anchors)?));
            }
            Ty::Struct { name: "S".into(), fields, deny_unknown: true }
        }
    };
    if let Some(a) = &n.anchor {
        anchors.insert(a.clone(), t.clone());
    }
    Some(t)
}

/// replace every value-position scalar by an integer token; returns pre-order indices of those leaves
fn intify(n: &Node, is_key: bool, idx: &mut usize, leaves: &mut Vec<usize>) -> Node {
    let me = *idx;
    *idx += 1;
    let mut m = n.clone();
    match &mut m.kind {
        Kind::Scalar { text, style } => {
            if !is_key {
                *text = format!("{}", 10 + me);
                *style = Style::Plain;
                leaves.push(me);
            }
        }
        Kind::Seq(v) => {
            for c in v.iter_mut() {
                *c = intify(c, false, idx, leaves);
            }
        }
        Kind::Map(v) => {
            for (k, x) in v.iter_mut() {
                *k = intify(k, true, idx, leaves);
                *x = intify(x, false, idx, leaves);
            }
        }
        Kind::Alias(_) => {}
    }
    m
}

fn replace_at(n: &Node, target: usize, idx: &mut usize, new: &Node) -> Node {
    let me = *idx;
    *idx += 1;
    if me == target {
        let mut r = new.clone();
        r.anchor = n.anchor.clone();
        // keep pre-order numbering intact: a scalar replaces a scalar
        return r;
    }
    let mut m = n.clone();
    match &mut m.kind {
        Kind::Seq(v) => {
            for c in v.iter_mut() {
                *c = replace_at(c, target, idx, new);
            }
        }
        Kind::Map(v) => {
            for (k, x) in v.iter_mut() {
                *k = replace_at(k, target, idx, new);
                *x = replace_at(x, target, idx, new);
            }
        }
        _ => {}
    }
    m
}

impl Prop for C16 {
    type Case = Case;
    fn check(&self, c: &Case) -> Verdict {
        let mut v = Verdict::default();
        let lay = &self.layouts[c.layout as usize];
        let tree = if c.flow { c.tree.clone().with_flow(true) } else { c.tree.clone() };
        if expand(&tree).is_err() {
            v.rejected = true;
            return v;
        }
        let r = render(&tree, lay);
        if validate(&tree, &r.text) != Validity::Ok {
            v.rejected = true;
            return v;
        }
        let text = &r.text;
        v.nontrivial = text.bytes().any(|b| b >= 0x80) || lay.nl != "\n";
        if lay.nl != "\n" {
            v.classes.push("non_lf_breaks");
        }
        if tree.has_alias() {
            v.classes.push("with_alias");
        }
        // ---- A/B/C: span-carrying values
        let got = match guarded(|| serde_saphyr::from_str::<Spanned<SN>>(text)) {
            Err(p) => {
                v.fail("panic", format!("{:?}: {}", text, p));
                return v;
            }
            Ok(g) => g,
        };
        v.execs = 1;
        let pre = tree.preorder();
        match got {
            Err(e) => {
                // a document the span-carrying target cannot take (e.g. duplicate keys): check the error location only
                v.classes.push("spanned_read_failed");
                if let Some(l) = e.location() {
                    v.compared += 1;
                    if let Err(why) = consistent(&l, text) {
                        v.fail("error_location_inconsistent", format!("{:?}: error {:?}: {}", text, e.to_string().lines().next(), why));
                    }
                }
                v.outcome = 1;
                return v;
            }
            Ok(root) => {
                let mut flat = Vec::new();
                flatten(&root, &mut flat);
                if flat.len() != pre.len() {
                    // aliases to containers expand into more spanned nodes than document nodes: compare the prefix walk
                    // by walking both structures together instead
                }
                // anchor definitions: name -> pre-order index (latest definition before use)
                let mut anchors: HashMap<String, usize> = HashMap::new();
                let mut fi = 0usize;
                // walk document nodes in pre-order; an alias node consumes the whole spanned subtree of its target
                fn subtree_size(s: &Spanned<SN>) -> usize {
                    match &s.value {
                        SN::Scalar(_) => 1,
                        SN::Seq(v) => 1 + v.iter().map(subtree_size).sum::<usize>(),
                        SN::Map(v) => 1 + v.iter().map(|(k, x)| subtree_size(k) + subtree_size(x)).sum::<usize>(),
                    }
                }
                for (i, n) in pre.iter().enumerate() {
                    if fi >= flat.len() {
                        v.fail("structure_mismatch", format!("{:?}: spanned tree has fewer nodes than the document", text));
                        return v;
                    }
                    let s = flat[fi];
                    let np = r.nodes[i];
                    let content = r.pos_of(np.content);
                    v.compared += 1;
                    for (which, l) in [("referenced", &s.referenced), ("defined", &s.defined)] {
                        if let Err(why) = consistent(l, text) {
                            v.fail("location_inconsistent", format!("{:?}: node {} ({}) {}: {}", text, i, n.show(), which, why));
                            return v;
                        }
                    }
                    if let Some(a) = &n.anchor {
                        anchors.insert(a.clone(), i);
                    }
                    match &n.kind {
                        Kind::Alias(name) => {
                            let def = anchors[name];
                            let defpos = r.pos_of(r.nodes[def].content);
                            if !at(&s.referenced, content) {
                                // an alias nested inside a composite key is a separate (recorded) class
                                let clause = if inside_composite_key(&tree).get(i).copied().unwrap_or(false) { "alias_use_site_inside_composite_key" } else { "alias_use_site" };
                                v.fail(clause, format!("{:?}: alias {} used at {}:{} but referenced={:?}", text, n.show(), content.line, content.col, coords(&s.referenced)));
                                return v;
                            }
                            if !at(&s.defined, defpos) {
                                v.fail("alias_definition_site", format!("{:?}: alias {} defined at {}:{} but defined={:?}", text, n.show(), defpos.line, defpos.col, coords(&s.defined)));
                                return v;
                            }
                            fi += subtree_size(s);
                            continue;
                        }
                        Kind::Scalar { style: Style::Literal | Style::Folded, .. } if !c.flow => {
                            // the parser places a block scalar at the start of its content, not at the `|`/`>`
                            // indicator; which of the two is "the node" is not stated: only consistency is judged
                            if s.referenced != s.defined {
                                v.fail("node_position", format!("{:?}: block scalar referenced {:?} != defined {:?}", text, coords(&s.referenced), coords(&s.defined)));
                                return v;
                            }
                        }
                        _ => {
                            if !at(&s.referenced, content) || !at(&s.defined, content) {
                                v.fail(
                                    "node_position",
                                    format!("{:?}: node {} ({}) is at line {} column {} char {} but referenced={:?} defined={:?}", text, i, n.show(), content.line, content.col, content.chr, coords(&s.referenced), coords(&s.defined)),
                                );
                                return v;
                            }
                        }
                    }
                    if let Kind::Scalar { .. } = &n.kind {
                        // byte range = exactly the node's source token
                        let (_, _, _, bo, bl) = coords(&s.referenced);
                        let b = bo.unwrap_or(0) as usize;
                        let len = bl.unwrap_or(0) as usize;
                        let want = &text[np.content..np.end];
                        v.compared += 1;
                        let gotsrc = text.get(b..b + len).unwrap_or("<out of range>");
                        let block = matches!(&n.kind, Kind::Scalar { style: Style::Literal | Style::Folded, .. }) && !c.flow && !tree_in_flow(&tree, i);
                        if !block && gotsrc != want && !(want.is_empty()) {
                            v.fail("scalar_byte_range", format!("{:?}: scalar {} source token is {:?} but the reported byte range {}..{} is {:?}", text, n.show(), want, b, b + len, gotsrc));
                            return v;
                        }
                    }
                    fi += 1;
                }
                v.outcome = hash64(&(flat.len().min(8), tree.has_alias()));
            }
        }
        // ---- D: error attribution at every value leaf
        let mut leaves = Vec::new();
        let inted = intify(&tree, false, &mut 0, &mut leaves);
        if let Some(ty) = int_type(&inted, &mut HashMap::new()) {
            let ri = render(&inted, lay);
            if validate(&inted, &ri.text) == Validity::Ok {
                if let Ok(Ok(_)) = guarded(|| from_str_ty(&ri.text, &ty, serde_saphyr::Options::default())) {
                    for &leaf in &leaves {
                        let bad = replace_at(&inted, leaf, &mut 0, &Node::plain("zé"));
                        let rb = render(&bad, lay);
                        if validate(&bad, &rb.text) != Validity::Ok {
                            continue;
                        }
                        let e = match guarded(|| from_str_ty(&rb.text, &ty, serde_saphyr::Options::default())) {
                            Err(p) => {
                                v.fail("panic", format!("{:?}: {}", rb.text, p));
                                return v;
                            }
                            Ok(Ok(val)) => {
                                v.fail("error_not_raised", format!("{:?} as {:?}: leaf {} is not an integer but got Ok({:?})", rb.text, ty, leaf, val));
                                return v;
                            }
                            Ok(Err(e)) => e,
                        };
                        v.execs += 1;
                        v.compared += 1;
                        v.classes.push("error_attribution_checked");
                        let want = rb.pos_of(rb.nodes[leaf].content);
                        match e.location() {
                            None => {
                                v.fail("error_without_location", format!("{:?}: {}", rb.text, e.to_string().lines().next().unwrap_or("")));
                                return v;
                            }
                            Some(l) => {
                                if let Err(why) = consistent(&l, &rb.text) {
                                    v.fail("error_location_inconsistent", format!("{:?}: {}", rb.text, why));
                                    return v;
                                }
                                // when the bad leaf sits inside an anchored node that is read first at its definition, the
                                // definition position is the leaf itself: always the leaf's own position
                                if !at(&l, want) {
                                    v.fail(
                                        "error_not_at_node",
                                        format!("{:?}: the non-integer leaf is at line {} column {} but the error is reported at {:?}: {}", rb.text, want.line, want.col, coords(&l), e.to_string().lines().next().unwrap_or("")),
                                    );
                                    return v;
                                }
                            }
                        }
                    }
                }
            }
        }
        // ---- E: an error caused by a value reached through an alias reports use site and definition site.
        // The anchored scalar is a word (fine where it is defined: a String position) and every alias of it sits in an
        // integer position, so the first alias (in document order) fails.
        if let Some((doc, ty, first_alias, def_idx)) = alias_error_doc(&tree) {
            let re = render(&doc, lay);
            if validate(&doc, &re.text) == Validity::Ok {
                match guarded(|| from_str_ty(&re.text, &ty, serde_saphyr::Options::default())) {
                    Err(p) => {
                        v.fail("panic", format!("{:?}: {}", re.text, p));
                        return v;
                    }
                    Ok(Ok(val)) => {
                        v.fail("error_not_raised", format!("{:?} as {:?}: the alias sits in an integer position but got Ok({:?})", re.text, ty, val));
                        return v;
                    }
                    Ok(Err(e)) => {
                        v.execs += 1;
                        v.compared += 1;
                        v.classes.push("alias_error_checked");
                        let use_pos = re.pos_of(re.nodes[first_alias].content);
                        let def_pos = re.pos_of(re.nodes[def_idx].content);
                        match e.locations() {
                            None => {
                                v.fail("alias_error_without_locations", format!("{:?}: {}", re.text, e.to_string().lines().next().unwrap_or("")));
                                return v;
                            }
                            Some(ls) => {
                                if consistent(&ls.reference_location, &re.text).is_err() || consistent(&ls.defined_location, &re.text).is_err() {
                                    v.fail("error_location_inconsistent", format!("{:?}: {:?}", re.text, ls));
                                    return v;
                                }
                                if !at(&ls.reference_location, use_pos) || !at(&ls.defined_location, def_pos) {
                                    v.fail(
                                        "alias_error_locations",
                                        format!(
                                            "{:?}: the failing value is the alias at {}:{} of the anchor at {}:{}, but the error reports use={:?} definition={:?}: {}",
                                            re.text,
                                            use_pos.line,
                                            use_pos.col,
                                            def_pos.line,
                                            def_pos.col,
                                            coords(&ls.reference_location),
                                            coords(&ls.defined_location),
                                            e.to_string().lines().next().unwrap_or("")
                                        ),
                                    );
                                    return v;
                                }
                            }
                        }
                    }
                }
            }
        }
        v
    }
    fn shrink(&self, c: &Case) -> Vec<Case> {
        let mut out = Vec::new();
        for t in shrink_node(&c.tree) {
            out.push(Case { tree: t, ..c.clone() });
        }
        if c.layout != 0 {
            // towards the default layout, one axis at a time
            let cur = &self.layouts[c.layout as usize];
            for (i, l) in self.layouts.iter().enumerate() {
                let d = (l.nl != cur.nl) as u8 + (l.step != cur.step) as u8 + (l.comments != cur.comments) as u8 + (l.wide != cur.wide) as u8;
                if d == 1 && i < c.layout as usize {
                    out.push(Case { layout: i as u8, ..c.clone() });
                }
            }
        }
        if c.flow {
            out.push(Case { flow: false, ..c.clone() });
        }
        out
    }
    fn key(&self, c: &Case, clause: &str) -> String {
        let l = &self.layouts[c.layout as usize];
        let t = if c.flow { c.tree.clone().with_flow(true) } else { c.tree.clone() };
        format!("{}|{}|nl={:?},step={},comments={},wide={}", clause, t.show(), l.nl, l.step, l.comments, l.wide)
    }
}

/// Build, from a tree that contains an alias (in value position) of an anchored scalar (in value position), the
/// document + type for clause E: all value leaves become integers, the anchored scalar becomes the word `zé` typed
/// String, its aliases are typed i64. Returns (doc, type, pre-order index of the first alias, index of the anchor).
fn alias_error_doc(tree: &Node) -> Option<(Node, Ty, usize, usize)> {
    let mut leaves = Vec::new();
    let inted = intify(tree, false, &mut 0, &mut leaves);
    // exactly one anchored scalar in value position, defined before its first alias; no anchored collections
    let pre = inted.preorder();
    let mut def: Option<usize> = None;
    let mut first_alias: Option<usize> = None;
    for (i, n) in pre.iter().enumerate() {
        if n.anchor.is_some() {
            if !n.is_scalar() || def.is_some() || !leaves.contains(&i) {
                return None;
            }
            def = Some(i);
        }
        if matches!(n.kind, Kind::Alias(_)) && first_alias.is_none() {
            first_alias = Some(i);
        }
    }
    let (def, first_alias) = (def?, first_alias?);
    if first_alias < def {
        return None;
    }
    // aliases in key position are not typed by int_type (keys must be plain scalars there)
    let doc = replace_at(&inted, def, &mut 0, &Node::plain("zé"));
    fn ty_of(n: &Node) -> Option<Ty> {
        Some(match &n.kind {
            Kind::Scalar { .. } => {
                if n.anchor.is_some() {
                    Ty::Str
                } else {
                    Ty::I64
                }
            }
            Kind::Alias(_) => Ty::I64,
            Kind::Seq(v) => Ty::Tuple(v.iter().map(ty_of).collect::<Option<Vec<_>>>()?),
            Kind::Map(v) => {
                let mut fields: Vec<(String, Ty)> = Vec::new();
                for (k, x) in v {
                    let name = match &k.kind {
                        Kind::Scalar { text, .. } if k.anchor.is_none() && !text.is_empty() && !text.contains('\n') && text != "<<" => text.clone(),
                        _ => return None,
                    };
                    if fields.iter().any(|(f, _)| *f == name) {
                        return None;
                    }
                    fields.push((name, ty_of(x)?));
                }
                Ty::Struct { name: "S".into(), fields, deny_unknown: true }
            }
        })
    }
    let ty = ty_of(&doc)?;
    Some((doc, ty, first_alias, def))
}

fn tree_in_flow(_t: &Node, _i: usize) -> bool {
    false
}

pub fn generator() -> TreeGen {
    let anchors: Vec<Option<String>> = vec![None, Some("ä".into())];
    let scalars = vec![
        Node::plain("a"),
        Node::plain("é"),
        Node::plain("😀x"),
        Node::scalar("q\"é", Style::Double),
        Node::scalar("q'", Style::Single),
        Node::scalar("l1\nl2", Style::Literal),
        Node::plain("12"),
    ];
    let mut leaves = scalars.clone();
    leaves.push(Node::plain("a").anchored("ä"));
    leaves.push(Node::scalar("q\"é", Style::Double).anchored("ä"));
    leaves.push(Node::alias("ä"));
    let key_leaves = vec![Node::plain("a"), Node::plain("é"), Node::scalar("q\"é", Style::Double), Node::plain("12"), Node::plain("k").anchored("ä"), Node::alias("ä")];
    TreeGen { leaves, key_leaves, anchors, complex_keys: true, empty_collections: false }
}

// ---- hand-built family: errors and values reached through aliases and merges
#[derive(Debug, Deserialize)]
#[allow(dead_code)]
struct SN2 {
    s: String,
    n: i64,
}
#[derive(Debug, Deserialize)]
#[allow(dead_code)]
struct MergeDoc {
    base: Spanned<SN>,
    m: Spanned<SN>,
}

fn alias_error_family(acc: &mut Acc, lays: &[Layout]) {
    for (li, lay) in lays.iter().enumerate() {
        // error through an alias: locations() = (use, definition)
        let doc = Node::map(vec![(Node::plain("s"), Node::plain("zé").anchored("ä")), (Node::plain("n"), Node::alias("ä"))]);
        let r = render(&doc, lay);
        if validate(&doc, &r.text) != Validity::Ok {
            acc.generator_rejected += 1;
            continue;
        }
        acc.evaluations += 1;
        acc.execs += 1;
        acc.nontrivial += 1;
        acc.class("alias_error_family", 1);
        let use_pos = r.pos_of(r.nodes[4].content);
        let def_pos = r.pos_of(r.nodes[2].content);
        let fail = |acc: &mut Acc, clause: &str, detail: String| {
            let key = format!("{}|s: &ä zé / n: *ä|layout{}", clause, li);
            acc.add_violation(key, clause, detail, json!({"text": r.text, "layout": li}), json!({}));
        };
        match guarded(|| serde_saphyr::from_str::<SN2>(&r.text)) {
            Err(p) => fail(acc, "panic", p),
            Ok(Ok(v)) => fail(acc, "error_not_raised", format!("{:?} gave {:?}", r.text, v)),
            Ok(Err(e)) => {
                acc.compared += 1;
                match e.locations() {
                    None => fail(acc, "alias_error_without_locations", format!("{:?}: {}", r.text, e)),
                    Some(ls) => {
                        if consistent(&ls.reference_location, &r.text).is_err() || consistent(&ls.defined_location, &r.text).is_err() {
                            fail(acc, "location_inconsistent", format!("{:?}: {:?}", r.text, ls));
                        } else if !at(&ls.reference_location, use_pos) || !at(&ls.defined_location, def_pos) {
                            fail(
                                acc,
                                "alias_error_locations",
                                format!("{:?}: alias used at {}:{}, anchor at {}:{}, but the error reports use={:?} def={:?}", r.text, use_pos.line, use_pos.col, def_pos.line, def_pos.col, coords(&ls.reference_location), coords(&ls.defined_location)),
                            );
                        }
                    }
                }
            }
        }
        // value through a merge: use site = the merge entry (its key `<<` or its alias value), definition = the anchored entry
        let base = Node::map(vec![(Node::plain("ké"), Node::plain("1"))]).anchored("ä");
        let m = Node::map(vec![(Node::plain("<<"), Node::alias("ä")), (Node::plain("o"), Node::plain("2"))]);
        let doc = Node::map(vec![(Node::plain("base"), base), (Node::plain("m"), m)]);
        let r = render(&doc, lay);
        if validate(&doc, &r.text) != Validity::Ok {
            acc.generator_rejected += 1;
            continue;
        }
        acc.evaluations += 1;
        acc.execs += 1;
        acc.nontrivial += 1;
        acc.class("merge_family", 1);
        // pre-order: 0 root,1 base,2 basemap,3 ké,4 1,5 m,6 mmap,7 <<,8 *ä,9 o,10 2
        let merge_key = r.pos_of(r.nodes[7].content);
        let merge_val = r.pos_of(r.nodes[8].content);
        let def_k = r.pos_of(r.nodes[3].content);
        let def_v = r.pos_of(r.nodes[4].content);
        let fail2 = |acc: &mut Acc, clause: &str, detail: String| {
            let key = format!("{}|base: &ä {{ké: 1}} / m: {{<<: *ä, o: 2}}|layout{}", clause, li);
            acc.add_violation(key, clause, detail, json!({"text": r.text, "layout": li}), json!({}));
        };
        match guarded(|| serde_saphyr::from_str::<MergeDoc>(&r.text)) {
            Err(p) => fail2(acc, "panic", p),
            Ok(Err(e)) => fail2(acc, "merge_doc_rejected", format!("{:?}: {}", r.text, e)),
            Ok(Ok(d)) => {
                acc.compared += 1;
                if let SN::Map(es) = &d.m.value {
                    let merged = es.iter().find(|(k, _)| matches!(&k.value, SN::Scalar(t) if t == "ké"));
                    match merged {
                        None => fail2(acc, "merged_entry_missing", format!("{:?}: {:?}", r.text, d.m.value)),
                        Some((k, x)) => {
                            // only the merged *value* is judged for its use site: the statement speaks of values
                            // reached through a merge; for the merged key only consistency and the definition site
                            let _ = (k, def_k);
                            for (what, s, def) in [("value", x, def_v)] {
                                if consistent(&s.referenced, &r.text).is_err() || consistent(&s.defined, &r.text).is_err() {
                                    fail2(acc, "location_inconsistent", format!("{:?}: merged {} {:?}", r.text, what, s));
                                    continue;
                                }
                                if !(at(&s.referenced, merge_key) || at(&s.referenced, merge_val)) {
                                    fail2(
                                        acc,
                                        "merge_use_site",
                                        format!("{:?}: merged {} came through the merge entry at {}:{} / {}:{} but referenced={:?}", r.text, what, merge_key.line, merge_key.col, merge_val.line, merge_val.col, coords(&s.referenced)),
                                    );
                                }
                                if !at(&s.defined, def) {
                                    fail2(acc, "merge_definition_site", format!("{:?}: merged {} is defined at {}:{} but defined={:?}", r.text, what, def.line, def.col, coords(&s.defined)));
                                }
                            }
                        }
                    }
                }
            }
        }
    }
}


#[derive(Debug, serde::Deserialize)]
#[allow(dead_code)]
struct ContAliasSeq {
    l: Vec<String>,
    m: Vec<i64>,
}
#[derive(Debug, serde::Deserialize)]
#[allow(dead_code)]
struct ContAliasMap {
    l: std::collections::BTreeMap<String, String>,
    m: std::collections::BTreeMap<String, i64>,
}
#[derive(Debug, serde::Deserialize)]
#[allow(dead_code)]
struct ContAliasNested {
    l: Vec<Vec<String>>,
    m: Vec<Vec<i64>>,
}
#[derive(Debug, serde::Deserialize)]
#[allow(dead_code)]
struct KeyAlias {
    k: String,
    m: std::collections::BTreeMap<i64, i64>,
}

/// errors at a node *inside* an aliased container, and at a mapping key written as an alias: Error::locations()
/// must be (the alias token, the failing node / the anchored key)
fn alias_container_and_key_family(acc: &mut Acc, lays: &[Layout]) {
    let p = Node::plain;
    for (li, lay) in lays.iter().enumerate() {
        // (document, pre-order index of the alias token, pre-order index of the failing definition node, reader)
        type Reader = fn(&str) -> Result<Result<String, serde_saphyr::Error>, String>;
        let cases: Vec<(&str, Node, usize, usize, Reader)> = vec![
            (
                "element of an aliased sequence",
                Node::map(vec![(p("l"), Node::seq(vec![Node::scalar("1", Style::Double), p("bad")]).anchored("ä")), (p("m"), Node::alias("ä"))]),
                6,
                4,
                |t| guarded(|| serde_saphyr::from_str::<ContAliasSeq>(t).map(|v| format!("{:?}", v))),
            ),
            (
                "value of an aliased mapping",
                Node::map(vec![(p("l"), Node::map(vec![(p("x"), p("bad"))]).anchored("ä")), (p("m"), Node::alias("ä"))]),
                6,
                4,
                |t| guarded(|| serde_saphyr::from_str::<ContAliasMap>(t).map(|v| format!("{:?}", v))),
            ),
            (
                "element two levels inside an aliased sequence",
                Node::map(vec![(p("l"), Node::seq(vec![Node::seq(vec![p("bad")])]).anchored("ä")), (p("m"), Node::alias("ä"))]),
                6,
                4,
                |t| guarded(|| serde_saphyr::from_str::<ContAliasNested>(t).map(|v| format!("{:?}", v))),
            ),
            (
                "mapping key written as an alias",
                Node::map(vec![(p("k"), p("name").anchored("ä")), (p("m"), Node::map(vec![(Node::alias("ä"), p("1"))]))]),
                5,
                2,
                |t| guarded(|| serde_saphyr::from_str::<KeyAlias>(t).map(|v| format!("{:?}", v))),
            ),
        ];
        for (name, doc, use_idx, def_idx, read) in cases {
            let r = render(&doc, lay);
            if validate(&doc, &r.text) != Validity::Ok {
                acc.generator_rejected += 1;
                continue;
            }
            acc.evaluations += 1;
            acc.execs += 1;
            acc.nontrivial += 1;
            acc.class("alias_container_and_key_family", 1);
            let use_pos = r.pos_of(r.nodes[use_idx].content);
            let def_pos = r.pos_of(r.nodes[def_idx].content);
            let fail = |acc: &mut Acc, clause: &str, detail: String| {
                let key = format!("{}|{}|layout{}", clause, name, li);
                acc.add_violation(key, clause, detail, json!({"text": r.text, "layout": li}), json!({}));
            };
            match read(&r.text) {
                Err(pn) => fail(acc, "panic", pn),
                Ok(Ok(v)) => fail(acc, "error_not_raised", format!("{:?} gave {}", r.text, v)),
                Ok(Err(e)) => {
                    acc.compared += 1;
                    match e.locations() {
                        None => fail(acc, "alias_error_without_locations", format!("{:?}: {}", r.text, e)),
                        Some(ls) => {
                            if consistent(&ls.reference_location, &r.text).is_err() || consistent(&ls.defined_location, &r.text).is_err() {
                                fail(acc, "location_inconsistent", format!("{:?}: {:?}", r.text, ls));
                            } else if !at(&ls.reference_location, use_pos) || !at(&ls.defined_location, def_pos) {
                                fail(
                                    acc,
                                    "alias_error_locations",
                                    format!("{:?} ({}): alias at {}:{}, failing node at {}:{}, but the error reports use={:?} def={:?}", r.text, name, use_pos.line, use_pos.col, def_pos.line, def_pos.col, coords(&ls.reference_location), coords(&ls.defined_location)),
                                );
                            }
                        }
                    }
                }
            }
        }
    }
}

pub fn run(ctx: &Ctx) -> i32 {
    let lays = layouts();
    let p = C16 { layouts: lays.clone() };
    let g = generator();
    let full = ctx.tier.pick(3, 4);
    let by = g.build(full);
    let quick_layouts: Vec<u8> = match ctx.tier {
        // quick: every axis value occurs, pairwise on (nl x step) with comments/wide alternating
        Tier::Quick => (0..lays.len() as u8).filter(|i| (i / 4 + i % 4) % 2 == 0 || *i < 4).collect(),
        Tier::Thorough => (0..lays.len() as u8).collect(),
    };
    let per_tree = |acc: &mut Acc, t: Node| {
        for &layout in &quick_layouts {
            for flow in [false, true] {
                if flow && !t.is_collection() {
                    continue;
                }
                process_case(&p, acc, &Case { tree: t.clone(), layout, flow });
            }
        }
    };
    let mut acc = Acc::default();
    for k in 1..=full {
        acc = acc.merge(crate::props::c02::run_chunks(&by[k], &per_tree));
    }
    acc = acc.merge(g.for_each_next(&by, Acc::default, |a, t| per_tree(a, t), Acc::merge));
    // anchor / alias placements one node deeper: every shape over {a, &? a, *?} with every labelling (an alias in every
    // position, mapping keys included), under two layouts
    {
        let sg = crate::props::c02::shape_generator();
        let sfull = ctx.tier.pick(4, 5);
        let sby = sg.build(sfull);
        let per_shape = |acc: &mut Acc, shape: Node| {
            crate::props::c02::labellings(&shape, &mut |t| {
                if !t.has_alias() {
                    return;
                }
                acc.class("canonical_anchor_trees", 1);
                for layout in [0u8, 13] {
                    for flow in [false, true] {
                        if flow && !t.is_collection() {
                            continue;
                        }
                        process_case(&p, acc, &Case { tree: t.clone(), layout, flow });
                    }
                }
            });
        };
        for k in 1..=sfull {
            acc = acc.merge(crate::props::c02::run_chunks(&sby[k], &per_shape));
        }
        acc = acc.merge(sg.for_each_next(&sby, Acc::default, |a, t| per_shape(a, t), Acc::merge));
    }
    // scalar token family: many quoted / escaped spellings, each in every structural context, under every layout
    {
        let forms: Vec<Node> = vec![
            Node::scalar("c\\", Style::Double),
            Node::scalar("\\", Style::Double),
            Node::scalar("\\\\", Style::Double),
            Node::scalar("a\\\"", Style::Double),
            Node::scalar("a # b", Style::Double),
            Node::scalar("\"", Style::Double),
            Node::scalar("tab\there", Style::Double),
            Node::scalar("é\u{1F600}", Style::Double),
            Node::scalar("", Style::Double),
            Node::scalar("it's", Style::Single),
            Node::scalar("'", Style::Single),
            Node::scalar("a # b", Style::Single),
            Node::scalar("\\", Style::Single),
            Node::scalar("", Style::Single),
            Node::plain("a#b"),
            Node::plain("a\\"),
        ];
        let mut cases = Vec::new();
        for x in &forms {
            let a = Node::plain("a");
            let ctxs = vec![
                x.clone(),
                Node::seq(vec![x.clone(), a.clone()]),
                Node::seq(vec![a.clone(), x.clone()]),
                Node::map(vec![(Node::plain("k"), x.clone()), (Node::plain("z"), a.clone())]),
                Node::map(vec![(x.clone(), a.clone())]),
                Node::map(vec![(Node::plain("k"), Node::seq(vec![x.clone()]))]),
            ];
            for t in ctxs {
                for layout in 0..lays.len() as u8 {
                    for flow in [false, true] {
                        if flow && !t.is_collection() {
                            continue;
                        }
                        cases.push(Case { tree: t.clone(), layout, flow });
                    }
                }
            }
        }
        let a = run_list(&p, &cases);
        acc.notes.insert("scalar_token_family_cases".into(), json!(cases.len()));
        acc = acc.merge(a);
    }
    alias_error_family(&mut acc, &lays);
    alias_container_and_key_family(&mut acc, &lays);
    acc.samples.truncate(0);
    let sample = Node::map(vec![(Node::plain("é"), Node::seq(vec![Node::scalar("q\"é", Style::Double).anchored("ä"), Node::alias("ä")]))]);
    acc.samples.push(json!({"tree": sample.show(), "text": render(&sample, &lays[13]).text, "layout": lays[13]}));
    let meta = Meta {
        level: "model_checking",
        rule: "every tree up to the node bound over 10 leaf forms (plain / multi-byte / quoted / literal / anchored / alias) x layouts (LF|CRLF|CR x indent 1..3 x comments x wide spacing) x block|flow; every node read through Spanned; every value leaf in turn replaced by a non-integer against a typed target; hand-built alias-error and merge families under every layout; non-trivial = multi-byte text or a non-LF break precedes nodes".into(),
        exhaustive: true,
        bounds: json!({"max_nodes": full + 1, "canonical_anchor_pass_max_nodes": ctx.tier.pick(5, 6), "layouts_used": quick_layouts.len(), "layouts_total": lays.len()}),
        assumptions: vec![
            "the position of a node is where its content token starts (after anchor / tag properties), as in the generator's position table".into(),
            "line/column recomputed with the parser's break set {LF, CRLF, CR}".into(),
            "byte ranges of block scalars (| and >) are not compared (their source token has no single obvious extent)".into(),
        ],
    };
    finish(ctx, meta, acc)
}

pub fn replay_file(ctx: &Ctx, path: &str) -> i32 {
    replay(&C16 { layouts: layouts() }, ctx, path)
}
