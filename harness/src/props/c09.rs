//! C09 — all entry points agree: str, slice, reader (any chunking), borrowed vs owned.
use crate::engine::*;
use crate::raw::{self, REv, RStyle};
use crate::readers::ScheduleReader;
use crate::tree::Tree;
use serde::de::DeserializeOwned;
use serde::{Deserialize, Serialize};
use serde_json::json;
use std::collections::BTreeMap;

#[derive(Clone, Debug, Serialize, Deserialize)]
pub struct Case {
    pub text: String,
    pub target: u8,
}

pub const TARGETS: [&str; 5] = ["Tree", "String", "Vec<String>", "BTreeMap<String,Tree>", "struct{a:Option<Tree>,b:Option<String>}"];

#[derive(Debug, Deserialize, PartialEq)]
struct AB {
    #[serde(default)]
    a: Option<Tree>,
    #[serde(default)]
    b: Option<String>,
}

pub const ALPHABET: &[&str] = &[
    "a", "é", "€", "😀", " ", "\n", "\r", "\r\n", "- ", ": ", "[", "]", "{", "}", ",", "\"", "'", "#", "&a ", "*a", "|\n", "---\n", "!t ", "\u{feff}", "\\", "1", "%", "...\n", "|+\n", "!!", "!",
];

/// (variant name, line, column) of an error; io errors carry no position
pub fn err_sig(e: &serde_saphyr::Error) -> (String, u64, u64) {
    let inner = e.without_snippet();
    let dbg = format!("{:?}", inner);
    let name: String = dbg.chars().take_while(|c| c.is_alphanumeric()).collect();
    let loc = e.location();
    (name, loc.map(|l| l.line()).unwrap_or(0), loc.map(|l| l.column()).unwrap_or(0))
}

type Obs = Result<String, (String, u64, u64)>;

fn obs<T: std::fmt::Debug>(r: Result<T, serde_saphyr::Error>) -> Obs {
    match r {
        Ok(v) => Ok(format!("{:?}", v)),
        Err(e) => Err(err_sig(&e)),
    }
}

fn all_entries<T: DeserializeOwned + std::fmt::Debug>(text: &str, masks: &[u64], fixed: &[usize]) -> Result<(Obs, Vec<(String, Obs)>), String> {
    guarded(|| {
        let base = obs(serde_saphyr::from_str::<T>(text));
        let mut others = Vec::new();
        others.push(("from_slice".to_string(), obs(serde_saphyr::from_slice::<T>(text.as_bytes()))));
        others.push(("with_deserializer_from_str".to_string(), obs(serde_saphyr::with_deserializer_from_str(text, |d| T::deserialize(d)))));
        others.push(("with_deserializer_from_slice".to_string(), obs(serde_saphyr::with_deserializer_from_slice(text.as_bytes(), |d| T::deserialize(d)))));
        for &m in masks {
            let r = ScheduleReader::from_mask(text.as_bytes(), m);
            others.push((format!("from_reader(cuts={:#b})", m), obs(serde_saphyr::from_reader::<_, T>(r))));
        }
        for &k in fixed {
            let r = ScheduleReader::fixed(text.as_bytes(), k);
            others.push((format!("from_reader(chunk={})", k), obs(serde_saphyr::from_reader::<_, T>(r))));
            let r = ScheduleReader::fixed(text.as_bytes(), k);
            others.push((format!("with_deserializer_from_reader(chunk={})", k), obs(serde_saphyr::with_deserializer_from_reader(r, |d| T::deserialize(d)))));
        }
        (base, others)
    })
}

pub struct C09 {
    pub max_partition_bytes: usize,
}

fn schedule_masks(n: usize, max_bytes: usize) -> Vec<u64> {
    if n <= 1 {
        return vec![0];
    }
    if n <= max_bytes {
        (0..(1u64 << (n - 1))).collect()
    } else {
        Vec::new()
    }
}

impl Prop for C09 {
    type Case = Case;
    fn check(&self, c: &Case) -> Verdict {
        let mut v = Verdict::default();
        let n = c.text.len();
        let masks = schedule_masks(n, self.max_partition_bytes);
        let fixed: Vec<usize> = if masks.len() > 1 { vec![4096] } else { vec![1, 2, 3, 5, 8, 4096] };
        let r = match c.target {
            0 => all_entries::<Tree>(&c.text, &masks, &fixed),
            1 => all_entries::<String>(&c.text, &masks, &fixed),
            2 => all_entries::<Vec<String>>(&c.text, &masks, &fixed),
            3 => all_entries::<BTreeMap<String, Tree>>(&c.text, &masks, &fixed),
            _ => all_entries::<AB>(&c.text, &masks, &fixed),
        };
        let (base, others) = match r {
            Ok(x) => x,
            Err(p) => {
                v.fail("panic", format!("{:?}: {}", c.text, p));
                return v;
            }
        };
        v.execs = 1 + others.len() as u32;
        v.compared = others.len() as u32;
        let multibyte = c.text.bytes().any(|b| b >= 0x80);
        v.nontrivial = multibyte || c.text.contains('\r') || c.text.contains("- ");
        if multibyte {
            v.classes.push("split_inside_multibyte_char_possible");
        }
        if c.text.contains("\r\n") {
            v.classes.push("split_between_cr_lf_possible");
        }
        if c.text.starts_with('\u{feff}') {
            v.classes.push("leading_bom");
        }
        v.outcome = hash64(&(base.is_ok(), base.as_ref().err().map(|e| e.0.clone())));
        // whatever is not well-formed as a whole is refused by the single-document entry points, unless it lies
        // after an explicit `...` marker (the documented tolerance); judged for the untyped target, which accepts
        // every well-formed document
        if c.target == 0 && base.is_ok() && !c.text.contains("...") {
            let body = c.text.strip_prefix('\u{feff}').unwrap_or(&c.text);
            if let Err(e) = raw::raw_events(body) {
                if !e.contains("unknown anchor") {
                    v.fail("malformed_input_accepted", format!("{:?}: the parser refuses the text ({}) but from_str returns {:?}", c.text, e, base));
                    return v;
                }
            }
        }
        for (name, o) in &others {
            if *o != base {
                v.fail("entry_points_disagree", format!("{:?} into {}: from_str gives {:?} but {} gives {:?}", c.text, TARGETS[c.target as usize], base, name, o));
                return v;
            }
        }
        // a leading BOM is ignored
        // (only when the remainder does not itself start with U+FEFF: that one would be *its* byte-order mark)
        if let Some(rest) = c.text.strip_prefix('\u{feff}').filter(|r| !r.starts_with('\u{feff}')) {
            let r2 = match c.target {
                0 => guarded(|| obs(serde_saphyr::from_str::<Tree>(rest))),
                1 => guarded(|| obs(serde_saphyr::from_str::<String>(rest))),
                2 => guarded(|| obs(serde_saphyr::from_str::<Vec<String>>(rest))),
                3 => guarded(|| obs(serde_saphyr::from_str::<BTreeMap<String, Tree>>(rest))),
                _ => guarded(|| obs(serde_saphyr::from_str::<AB>(rest))),
            };
            v.execs += 1;
            v.compared += 1;
            match r2 {
                Ok(o2) => {
                    // positions shift by nothing: the BOM is not part of the text
                    let same = match (&base, &o2) {
                        (Ok(a), Ok(b)) => a == b,
                        (Err(a), Err(b)) => a.0 == b.0,
                        _ => false,
                    };
                    if !same {
                        v.fail("bom_not_ignored", format!("{:?} gives {:?} but without the BOM {:?}", c.text, base, o2));
                        return v;
                    }
                }
                Err(p) => {
                    v.fail("panic", p);
                    return v;
                }
            }
        }
        // borrowing (root scalar documents only)
        if c.target == 1 {
            self.check_borrowing(c, &base, &mut v);
        }
        v
    }
    fn shrink(&self, c: &Case) -> Vec<Case> {
        let mut out = Vec::new();
        for s in crate::common::shrink_string(&c.text) {
            out.push(Case { text: s, target: c.target });
        }
        if c.target != 0 {
            out.push(Case { target: 0, ..c.clone() });
        }
        out
    }
    fn key(&self, c: &Case, clause: &str) -> String {
        // a `!!` handle that is not followed by a tag character (known finding: the parser's two tag scanners)
        let bare = if has_bare_tag_handle(&c.text) { "|tag handle without suffix" } else { "" };
        format!("{}|{:?}|{}{}", clause, c.text, TARGETS[c.target as usize], bare)
    }
}

/// `!!` followed by the end of the input, a blank, a line break or a flow indicator
pub fn has_bare_tag_handle(text: &str) -> bool {
    let b = text.as_bytes();
    let mut i = 0;
    while i + 1 < b.len() {
        if b[i] == b'!' && b[i + 1] == b'!' {
            match b.get(i + 2) {
                None | Some(b' ' | b'\n' | b'\r' | b'\t' | b',' | b'[' | b']' | b'{' | b'}') => return true,
                _ => {}
            }
        }
        i += 1;
    }
    false
}

/// Records how a string was delivered.
#[derive(Debug)]
struct BorrowProbe<'a> {
    borrowed: Option<&'a str>,
    owned: Option<String>,
}
impl<'de> Deserialize<'de> for BorrowProbe<'de> {
    fn deserialize<D: serde::Deserializer<'de>>(d: D) -> Result<Self, D::Error> {
        struct V;
        impl<'de> serde::de::Visitor<'de> for V {
            type Value = BorrowProbe<'de>;
            fn expecting(&self, f: &mut std::fmt::Formatter) -> std::fmt::Result {
                write!(f, "a string")
            }
            fn visit_borrowed_str<E>(self, v: &'de str) -> Result<BorrowProbe<'de>, E> {
                Ok(BorrowProbe { borrowed: Some(v), owned: None })
            }
            fn visit_str<E>(self, v: &str) -> Result<BorrowProbe<'de>, E> {
                Ok(BorrowProbe { borrowed: None, owned: Some(v.to_string()) })
            }
            fn visit_string<E>(self, v: String) -> Result<BorrowProbe<'de>, E> {
                Ok(BorrowProbe { borrowed: None, owned: Some(v) })
            }
        }
        d.deserialize_str(V)
    }
}

impl C09 {
    fn check_borrowing(&self, c: &Case, base: &Obs, v: &mut Verdict) {
        let owned = match base {
            Ok(s) => s.clone(),
            Err(_) => return,
        };
        // the single root scalar of the document, from the raw parser
        let evs = match raw::raw_events(&c.text) {
            Ok(e) => e,
            Err(_) => return,
        };
        let scalars: Vec<&raw::RSpanned> = evs.iter().filter(|e| matches!(e.ev, REv::Scalar { .. })).collect();
        if scalars.len() != 1 {
            return;
        }
        let (value, style) = match &scalars[0].ev {
            REv::Scalar { value, style, .. } => (value.clone(), *style),
            _ => return,
        };
        let text: &str = c.text.strip_prefix('\u{feff}').unwrap_or(&c.text);
        v.classes.push("borrow_checked");
        // &str target
        let r: Result<Result<&str, serde_saphyr::Error>, String> = guarded(|| serde_saphyr::from_str::<&str>(&c.text));
        v.execs += 1;
        v.compared += 1;
        let inside = |s: &str| {
            let (b0, b1) = (c.text.as_ptr() as usize, c.text.as_ptr() as usize + c.text.len());
            let p = s.as_ptr() as usize;
            p >= b0 && p + s.len() <= b1
        };
        // does the scalar appear verbatim in the input at its span?
        let verbatim = match (scalars[0].start.byte, scalars[0].end.byte) {
            (Some(s), Some(e)) if s <= e && e <= text.len() && text.is_char_boundary(s) && text.is_char_boundary(e) => {
                let src = &text[s..e];
                match style {
                    RStyle::Plain => src == value,
                    RStyle::Single | RStyle::Double => src.len() >= 2 && &src[1..src.len() - 1] == value && !value.is_empty(),
                    _ => false,
                }
            }
            _ => false,
        };
        let single_line = !value.contains('\n');
        match r {
            Err(p) => v.fail("panic", p),
            Ok(Ok(s)) => {
                if !inside(s) {
                    v.fail("borrowed_slice_outside_input", format!("{:?}: &str result {:?} does not point into the input buffer", c.text, s));
                } else if format!("{:?}", s) != owned {
                    v.fail("borrowed_differs_from_owned", format!("{:?}: &str gives {:?}, String gives {}", c.text, s, owned));
                }
            }
            Ok(Err(e)) => {
                if verbatim && single_line {
                    v.fail("verbatim_scalar_not_lent", format!("{:?}: scalar {:?} appears verbatim in the input but &str failed: {}", c.text, value, e.to_string().lines().next().unwrap_or("")));
                }
            }
        }
        // visitor-level probe on str input: a borrowed result must lie inside the buffer
        if let Ok(Ok(p)) = guarded(|| serde_saphyr::from_str::<BorrowProbe>(&c.text)) {
            v.execs += 1;
            if let Some(b) = p.borrowed {
                if !inside(b) {
                    v.fail("borrowed_slice_outside_input", format!("{:?}: visit_borrowed_str got a slice outside the input", c.text));
                }
            }
            let _ = p.owned;
        }
        // reader input never lends
        let rd = ScheduleReader::fixed(c.text.as_bytes(), 4096);
        let r = guarded(|| serde_saphyr::with_deserializer_from_reader(rd, |d| BorrowProbe::deserialize(d).map(|p| p.borrowed.is_some())));
        v.execs += 1;
        v.compared += 1;
        if let Ok(Ok(true)) = r {
            v.fail("reader_input_lent", format!("{:?}: visit_borrowed_str was called for reader input", c.text));
        }
    }
}

#[derive(Debug, Deserialize)]
#[allow(dead_code)]
struct SpannedDoc {
    #[serde(default)]
    x: Option<String>,
    k: serde_saphyr::Spanned<String>,
}

/// Positions behind comments: a key after a comment line, a quoted value followed by blanks and a comment, an error
/// on the line of a comment - with 1- to 4-byte characters in the comment. Value, line, column, span offset and
/// span length of a `Spanned` field (or the error's kind and position) must be the same from a string and from a
/// reader.
fn comment_family(acc: &mut Acc) {
    let mut docs: Vec<(String, &'static str)> = Vec::new();
    for ch in ["a", "é", "€", "😀"] {
        for n in [1usize, 3] {
            let c = ch.repeat(n);
            docs.push((format!("# {}\nk: a\n", c), "key after a comment line"));
            docs.push((format!("x: y # {}\nk: a\n", c), "key after a line with a trailing comment"));
            docs.push((format!("k: \"a\"   # {}\n", c), "double-quoted value followed by blanks and a comment"));
            docs.push((format!("k: 'a'   # {}\n", c), "single-quoted value followed by blanks and a comment"));
            docs.push((format!("k: \"a\"\n# {}\n", c), "double-quoted value, comment on the next line"));
            docs.push((format!("x: y\n&b\n #{}", c), "error on the line of a comment"));
            docs.push((format!("# {}\nk: [\n", c), "error after a comment line"));
        }
    }
    for (text, shape) in docs {
        acc.evaluations += 1;
        acc.compared += 1;
        acc.nontrivial += 1;
        acc.class("comment_family", 1);
        let sig = |r: Result<SpannedDoc, serde_saphyr::Error>| -> String {
            match r {
                Ok(d) => format!("Ok(value={:?}, at {}:{}, span offset {} length {})", d.k.value, d.k.referenced.line(), d.k.referenced.column(), d.k.referenced.span().offset(), d.k.referenced.span().len()),
                Err(e) => format!("Err{:?}", err_sig(&e)),
            }
        };
        let r = guarded(|| {
            let a = sig(serde_saphyr::from_str::<SpannedDoc>(&text));
            let b = sig(serde_saphyr::from_reader::<_, SpannedDoc>(ScheduleReader::fixed(text.as_bytes(), 4096)));
            let c = sig(serde_saphyr::from_reader::<_, SpannedDoc>(ScheduleReader::fixed(text.as_bytes(), 1)));
            (a, b, c)
        });
        acc.execs += 3;
        let multibyte = text.bytes().any(|b| b >= 0x80);
        let key = |clause: &str| format!("{}|{}|{}|{:?}", clause, shape, if multibyte { "multi-byte comment" } else { "ASCII comment" }, text);
        match r {
            Err(p) => acc.add_violation(key("panic"), "panic", p, json!({"text": text}), json!({})),
            Ok((a, b, c)) => {
                if a != b || a != c {
                    acc.add_violation(key("position_differs_between_string_and_reader"), "position_differs_between_string_and_reader", format!("{:?}: from_str gives {}, from_reader gives {} (whole) / {} (1-byte reads)", text, a, b, c), json!({"text": text}), json!({}));
                }
            }
        }
    }
}

pub fn run(ctx: &Ctx) -> i32 {
    let p = C09 { max_partition_bytes: ctx.tier.pick(12, 16) };
    let max_len = ctx.tier.pick(3, 4);
    let space = StrSpace::new(ALPHABET, max_len);
    let n_t = TARGETS.len() as u64;
    let mut acc = run_indexed(&p, space.len() * n_t, |i| Some(Case { text: space.get(i / n_t), target: (i % n_t) as u8 }));
    // corpus of longer documents (fixed chunk sizes and all partitions when short enough)
    let corpus: Vec<String> = vec![
        "a: é\nb: [1, \"€\"]\n".into(),
        "- 😀\n- 'x y'\n".into(),
        "\u{feff}a: 1\n".into(),
        "\u{feff}\u{feff}a\n".into(),
        "a:\r\n  - é\r\n  - b\r\n".into(),
        "k: |\n  é€\n  z\n".into(),
        "a: &x {é: 1}\nb: *x\n".into(),
        "\"é\\u00e9\": 1\n".into(),
        "a: [1, 2\n".into(),
        "a: 1\n---\nb: 2\n".into(),
        "x: \"😀\n  y\"\n".into(),
        "# é comment\na: b # €\n".into(),
        "a: 'it''s'\n".into(),
        "{a: 1, a: 2}\n".into(),
        "- \"\\x41\"\n- \"b\"\n".into(),
        "ключ: значение\n".into(),
    ];
    let cases: Vec<Case> = corpus.iter().flat_map(|t| (0..n_t as u8).map(move |tg| Case { text: t.clone(), target: tg })).collect();
    let a2 = run_list(&p, &cases);
    acc = acc.merge(a2);
    acc.notes.insert("corpus_documents".into(), json!(corpus.len()));
    comment_family(&mut acc);
    let meta = Meta {
        level: "model_checking",
        rule: "every token string up to the length bound over a 29-token alphabet (multi-byte characters, CR/LF/CRLF, BOM, indicators) x 5 targets; per input: from_str vs from_slice vs closure helpers vs from_reader under ALL 2^(n-1) partitions of its n bytes (n <= partition bound; fixed chunk sizes beyond), BOM-stripping, borrowed vs owned; non-trivial = multi-byte, CR or '- ' present (a split can fall inside a character / between CR and LF / inside an indicator)".into(),
        exhaustive: true,
        bounds: json!({"max_tokens": max_len, "alphabet": ALPHABET, "all_partitions_up_to_bytes": p.max_partition_bytes, "fixed_chunk_sizes_beyond": [1, 2, 3, 5, 8, 4096]}),
        assumptions: vec!["errors are compared by variant (after without_snippet) and line/column".into()],
    };
    finish(ctx, meta, acc)
}

pub fn replay_file(ctx: &Ctx, path: &str) -> i32 {
    replay(&C09 { max_partition_bytes: 16 }, ctx, path)
}
