//! C08 — expansion work and memory are bounded by the budget and the alias limits.
//! Observers: a visitor-call counting target and the counting allocator. (a) every small anchor/alias tree:
//! replay accounting agrees with the reference at the exact boundary of each limit; (b) parameterised attack
//! families on the whole grid x limit configurations: delivered nodes, acceptance, peak heap and allocated bytes.
use crate::alloc::{measure, Usage};
use crate::doc::*;
use crate::engine::*;
use serde::de::{MapAccess, SeqAccess, Visitor};
use serde::{Deserialize, Serialize};
use serde_json::json;
use std::cell::Cell;
use std::collections::HashMap;

thread_local! {
    static NODES: Cell<u64> = const { Cell::new(0) };
    static ENDS: Cell<u64> = const { Cell::new(0) };
}

/// Target that allocates nothing and counts what is delivered to it.
pub struct CountAny;
struct CV;
impl<'de> Visitor<'de> for CV {
    type Value = CountAny;
    fn expecting(&self, f: &mut std::fmt::Formatter) -> std::fmt::Result {
        f.write_str("anything")
    }
    fn visit_bool<E>(self, _: bool) -> Result<CountAny, E> {
        NODES.with(|n| n.set(n.get() + 1));
        Ok(CountAny)
    }
    fn visit_i64<E>(self, _: i64) -> Result<CountAny, E> {
        NODES.with(|n| n.set(n.get() + 1));
        Ok(CountAny)
    }
    fn visit_u64<E>(self, _: u64) -> Result<CountAny, E> {
        NODES.with(|n| n.set(n.get() + 1));
        Ok(CountAny)
    }
    fn visit_i128<E>(self, _: i128) -> Result<CountAny, E> {
        NODES.with(|n| n.set(n.get() + 1));
        Ok(CountAny)
    }
    fn visit_u128<E>(self, _: u128) -> Result<CountAny, E> {
        NODES.with(|n| n.set(n.get() + 1));
        Ok(CountAny)
    }
    fn visit_f64<E>(self, _: f64) -> Result<CountAny, E> {
        NODES.with(|n| n.set(n.get() + 1));
        Ok(CountAny)
    }
    fn visit_str<E>(self, _: &str) -> Result<CountAny, E> {
        NODES.with(|n| n.set(n.get() + 1));
        Ok(CountAny)
    }
    fn visit_bytes<E>(self, _: &[u8]) -> Result<CountAny, E> {
        NODES.with(|n| n.set(n.get() + 1));
        Ok(CountAny)
    }
    fn visit_unit<E>(self) -> Result<CountAny, E> {
        NODES.with(|n| n.set(n.get() + 1));
        Ok(CountAny)
    }
    fn visit_none<E>(self) -> Result<CountAny, E> {
        NODES.with(|n| n.set(n.get() + 1));
        Ok(CountAny)
    }
    fn visit_some<D: serde::Deserializer<'de>>(self, d: D) -> Result<CountAny, D::Error> {
        CountAny::deserialize(d)
    }
    fn visit_newtype_struct<D: serde::Deserializer<'de>>(self, d: D) -> Result<CountAny, D::Error> {
        CountAny::deserialize(d)
    }
    fn visit_seq<A: SeqAccess<'de>>(self, mut a: A) -> Result<CountAny, A::Error> {
        NODES.with(|n| n.set(n.get() + 1));
        while a.next_element::<CountAny>()?.is_some() {}
        ENDS.with(|n| n.set(n.get() + 1));
        Ok(CountAny)
    }
    fn visit_map<A: MapAccess<'de>>(self, mut a: A) -> Result<CountAny, A::Error> {
        NODES.with(|n| n.set(n.get() + 1));
        while a.next_key::<CountAny>()?.is_some() {
            a.next_value::<CountAny>()?;
        }
        ENDS.with(|n| n.set(n.get() + 1));
        Ok(CountAny)
    }
}
impl<'de> Deserialize<'de> for CountAny {
    fn deserialize<D: serde::Deserializer<'de>>(d: D) -> Result<CountAny, D::Error> {
        d.deserialize_any(CV)
    }
}
#[derive(Clone, Copy, Debug, Default, Serialize, Deserialize, PartialEq)]
pub struct Limits {
    /// alias limits; None = library default
    pub total: Option<usize>,
    pub per_anchor: Option<usize>,
    pub depth: Option<usize>,
    /// budget; None = library default
    pub max_nodes: Option<usize>,
    pub max_events: Option<usize>,
    /// feed the text through from_reader instead of from_str
    #[serde(default)]
    pub reader: bool,
}

pub fn options_of(l: &Limits) -> serde_saphyr::Options {
    let mut o = serde_saphyr::Options::default();
    if let Some(t) = l.total {
        o.alias_limits.max_total_replayed_events = t;
    }
    if let Some(t) = l.per_anchor {
        o.alias_limits.max_alias_expansions_per_anchor = t;
    }
    if let Some(t) = l.depth {
        o.alias_limits.max_replay_stack_depth = t;
    }
    let mut b = serde_saphyr::Budget::default();
    // the alias/anchor ratio heuristic is a separate (pre-)check: switched off so that the limits under test decide
    b.enforce_alias_anchor_ratio = false;
    if let Some(n) = l.max_nodes {
        b.max_nodes = n;
    }
    if let Some(n) = l.max_events {
        b.max_events = n;
    }
    o.budget = Some(b);
    o
}

#[derive(Debug, Clone)]
pub struct Run {
    pub ok: bool,
    /// variant name of the error (first word of its Debug form)
    pub err_kind: String,
    pub err: String,
    pub nodes: u64,
    pub ends: u64,
    pub usage: Usage,
}

pub fn run_count(text: &str, l: &Limits) -> Result<Run, String> {
    let o = options_of(l);
    guarded(|| {
        NODES.with(|n| n.set(0));
        ENDS.with(|n| n.set(0));
        let reader = l.reader;
        let (r, usage) = measure(|| if reader { serde_saphyr::from_reader_with_options::<_, CountAny>(std::io::Cursor::new(text.as_bytes()), o) } else { serde_saphyr::from_str_with_options::<CountAny>(text, o) }.map(|_| ()).map_err(|e| {
            let inner = e.without_snippet();
            let dbg = format!("{:?}", inner);
            let kind: String = dbg.chars().take_while(|c| c.is_ascii_alphanumeric()).collect();
            (kind, inner.to_string())
        }));
        let (ok, err_kind, err) = match r {
            Ok(()) => (true, String::new(), String::new()),
            Err((k, m)) => (false, k, m),
        };
        Run { ok, err_kind, err, nodes: NODES.with(|n| n.get()), ends: ENDS.with(|n| n.get()), usage }
    })
}

/// Reference accounting of a document.
#[derive(Debug, Clone, Default, Serialize)]
pub struct RefCounts {
    /// events replayed from anchors, summed over every alias in document order
    pub replayed_events: u64,
    pub replayed_nodes: u64,
    /// largest number of aliases that refer to one anchor definition
    pub per_anchor_max: u64,
    pub aliases: u64,
    /// nodes / events of the fully expanded document
    pub expanded_nodes: u64,
    pub expanded_events: u64,
    pub has_merge: bool,
}

pub fn ref_counts(n: &Node) -> Option<RefCounts> {
    struct St {
        /// name -> (events, nodes, id, start order)
        defs: HashMap<String, (u64, u64, usize, usize)>,
        starts: usize,
        per: Vec<u64>,
        open: Vec<String>,
        c: RefCounts,
    }
    fn walk(n: &Node, st: &mut St) -> Option<(u64, u64)> {
        let my_start = st.starts;
        st.starts += 1;
        if let Some(a) = &n.anchor {
            st.open.push(a.clone());
        }
        let r = match &n.kind {
            Kind::Scalar { text, style, .. } => {
                if text == "<<" && *style == Style::Plain {
                    st.c.has_merge = true;
                }
                (1, 1)
            }
            Kind::Alias(a) => {
                if st.open.contains(a) && !st.defs.contains_key(a) {
                    return None;
                }
                if st.open.contains(a) {
                    // an alias inside a node that re-defines the same name refers to the earlier definition;
                    // kept out of the reference to stay clear of the recursion rule
                    return None;
                }
                let (e, nn, id, _) = *st.defs.get(a)?;
                st.c.replayed_events += e;
                st.c.replayed_nodes += nn;
                st.c.aliases += 1;
                st.per[id] += 1;
                (e, nn)
            }
            Kind::Seq(items) => {
                let mut e = 2;
                let mut nn = 1;
                for it in items {
                    let (a, b) = walk(it, st)?;
                    e += a;
                    nn += b;
                }
                (e, nn)
            }
            Kind::Map(entries) => {
                let mut e = 2;
                let mut nn = 1;
                for (k, v) in entries {
                    let (a, b) = walk(k, st)?;
                    let (c, d) = walk(v, st)?;
                    e += a + c;
                    nn += b + d;
                }
                (e, nn)
            }
        };
        if let Some(a) = &n.anchor {
            st.open.pop();
            // a name refers to the definition that started last
            let newer = st.defs.get(a).map(|d| d.3 > my_start).unwrap_or(false);
            if !newer {
                let id = st.per.len();
                st.per.push(0);
                st.defs.insert(a.clone(), (r.0, r.1, id, my_start));
            }
        }
        Some(r)
    }
    let mut st = St { defs: HashMap::new(), starts: 0, per: Vec::new(), open: Vec::new(), c: RefCounts::default() };
    let (e, nn) = walk(n, &mut st)?;
    st.c.expanded_events = e;
    st.c.expanded_nodes = nn;
    st.c.per_anchor_max = st.per.iter().cloned().max().unwrap_or(0);
    Some(st.c)
}

// ------------------------------------------------------------------ (a) small trees: exact boundaries

#[derive(Clone, Debug, Serialize, Deserialize)]
pub struct Small {
    pub tree: Node,
    pub flow: bool,
}
pub struct C08Small;

fn has_empty_key_idiom(n: &Node) -> bool {
    fn nullish(n: &Node) -> bool {
        matches!(&n.kind, Kind::Scalar { text, style: Style::Plain } if text.is_empty() || text == "~" || text.eq_ignore_ascii_case("null"))
    }
    match &n.kind {
        Kind::Map(es) => es.iter().any(|(k, v)| {
            let idiom = matches!(&k.kind, Kind::Map(inner) if inner.is_empty() || (inner.len() == 1 && nullish(&inner[0].0)));
            idiom || has_empty_key_idiom(k) || has_empty_key_idiom(v)
        }),
        Kind::Seq(items) => items.iter().any(has_empty_key_idiom),
        _ => false,
    }
}

impl Prop for C08Small {
    type Case = Small;
    fn check(&self, c: &Small) -> Verdict {
        let mut v = Verdict::default();
        let t = if c.flow { c.tree.clone().with_flow(true) } else { c.tree.clone() };
        if !t.has_alias() {
            return v;
        }
        let text = render_default(&t);
        if validate(&t, &text) != Validity::Ok {
            v.rejected = true;
            return v;
        }
        let rc = match ref_counts(&t) {
            Some(r) => r,
            None => return v, // unknown / self-referential alias: C02's business
        };
        if has_empty_key_idiom(&t) {
            // a mapping key that is a one-entry mapping with a null-like own key is read as the "explicit empty
            // key" idiom (key null, value = the inner value): what is delivered for it is unspecified (DESIGN.md §6b)
            v.rejected = true;
            return v;
        }
        let dflt = Limits::default();
        let run = |l: &Limits, v: &mut Verdict| -> Option<Run> {
            v.execs += 1;
            match run_count(&text, l) {
                Ok(r) => Some(r),
                Err(p) => {
                    v.fail("panic", format!("{:?} with {:?}: {}", text, l, p));
                    None
                }
            }
        };
        let base = match run(&dflt, &mut v) {
            Some(r) => r,
            None => return v,
        };
        if !base.ok {
            // rejected for another reason (invalid merge value, duplicate key, ...): nothing to account
            v.classes.push("rejected_by_default_options");
            return v;
        }
        v.nontrivial = true;
        v.compared = 1;
        v.outcome = hash64(&(rc.replayed_events, rc.per_anchor_max, base.nodes));
        let what = format!("{:?}", text);
        if !rc.has_merge && base.nodes != rc.expanded_nodes {
            v.fail("delivered_nodes_differ_from_expansion", format!("{}: the expanded document has {} nodes but {} were delivered", what, rc.expanded_nodes, base.nodes));
            return v;
        }
        let t_ref = rc.replayed_events as usize;
        // total replayed events: accepted at the exact total, rejected one below, and never delivers more than allowed
        for (lim, must_accept) in [(t_ref, true), (t_ref + 1, true), (t_ref.saturating_sub(1), t_ref == 0), (0, t_ref == 0), (t_ref / 2, t_ref == 0)] {
            let l = Limits { total: Some(lim), ..dflt };
            let r = match run(&l, &mut v) {
                Some(r) => r,
                None => return v,
            };
            v.compared += 1;
            if must_accept && !r.ok {
                v.fail("rejected_within_total_replay_limit", format!("{}: replays {} events in total (reference) but max_total_replayed_events={} rejects it: {}", what, t_ref, lim, r.err));
                return v;
            }
            if !must_accept {
                if r.ok {
                    v.fail("accepted_beyond_total_replay_limit", format!("{}: replays {} events in total (reference) but is accepted with max_total_replayed_events={}", what, t_ref, lim));
                    return v;
                }
                if r.err_kind != "AliasReplayLimitExceeded" {
                    v.fail("wrong_error_for_total_replay_limit", format!("{}: max_total_replayed_events={} (needs {}): expected AliasReplayLimitExceeded, got {}: {}", what, lim, t_ref, r.err_kind, r.err));
                    return v;
                }
                // bounded work: nodes delivered <= nodes written in the document + replayed events allowed
                let raw_nodes = rc.expanded_nodes - rc.replayed_nodes;
                if r.nodes > raw_nodes + lim as u64 {
                    v.fail("work_exceeds_total_replay_limit", format!("{}: {} nodes delivered with max_total_replayed_events={} ({} nodes are written in the document)", what, r.nodes, lim, raw_nodes));
                    return v;
                }
            }
        }
        // expansions per anchor
        let p_ref = rc.per_anchor_max as usize;
        for (lim, must_accept) in [(p_ref, true), (p_ref.saturating_sub(1), p_ref == 0), (0, p_ref == 0)] {
            let l = Limits { per_anchor: Some(lim), ..dflt };
            let r = match run(&l, &mut v) {
                Some(r) => r,
                None => return v,
            };
            v.compared += 1;
            if must_accept && !r.ok {
                v.fail("rejected_within_per_anchor_limit", format!("{}: no anchor is expanded more than {} times but max_alias_expansions_per_anchor={} rejects it: {}", what, p_ref, lim, r.err));
                return v;
            }
            if !must_accept {
                if r.ok {
                    v.fail("accepted_beyond_per_anchor_limit", format!("{}: an anchor is expanded {} times but the document is accepted with max_alias_expansions_per_anchor={}", what, p_ref, lim));
                    return v;
                }
                if r.err_kind != "AliasExpansionLimitExceeded" {
                    v.fail("wrong_error_for_per_anchor_limit", format!("{}: expected AliasExpansionLimitExceeded, got {}: {}", what, r.err_kind, r.err));
                    return v;
                }
            }
        }
        // replay nesting: an alias is one level of replay (anchored nodes store their expansion)
        for (lim, must_accept) in [(1usize, true), (0, false)] {
            let l = Limits { depth: Some(lim), ..dflt };
            let r = match run(&l, &mut v) {
                Some(r) => r,
                None => return v,
            };
            v.compared += 1;
            if must_accept != r.ok {
                v.fail(
                    if must_accept { "rejected_within_replay_depth_limit" } else { "accepted_beyond_replay_depth_limit" },
                    format!("{}: max_replay_stack_depth={} gives {}", what, lim, if r.ok { "Ok".to_string() } else { r.err }),
                );
                return v;
            }
        }
        // node / event budget: never more delivered than allowed; a budget that covers the expansion accepts
        let en = rc.expanded_nodes as usize;
        for lim in [1usize, en / 2, en.saturating_sub(1), en, en + 1] {
            let l = Limits { max_nodes: Some(lim), ..dflt };
            let r = match run(&l, &mut v) {
                Some(r) => r,
                None => return v,
            };
            v.compared += 1;
            if r.nodes > lim as u64 {
                v.fail("delivered_nodes_exceed_max_nodes", format!("{}: max_nodes={} but {} nodes were delivered ({})", what, lim, r.nodes, if r.ok { "Ok" } else { "Err" }));
                return v;
            }
            if !rc.has_merge {
                let must_accept = lim >= en;
                if must_accept != r.ok {
                    v.fail(
                        if must_accept { "rejected_within_max_nodes" } else { "accepted_beyond_max_nodes" },
                        format!("{}: the expansion has {} nodes; max_nodes={} gives {}", what, en, lim, if r.ok { "Ok".to_string() } else { r.err }),
                    );
                    return v;
                }
            }
        }
        let ee = rc.expanded_events as usize;
        let enough = ee + 4 + rc.aliases as usize;
        for lim in [1usize, ee / 2, ee, enough] {
            let l = Limits { max_events: Some(lim), ..dflt };
            let r = match run(&l, &mut v) {
                Some(r) => r,
                None => return v,
            };
            v.compared += 1;
            if r.nodes + r.ends > lim as u64 {
                v.fail("delivered_events_exceed_max_events", format!("{}: max_events={} but {} node and end events were delivered", what, lim, r.nodes + r.ends));
                return v;
            }
            if lim >= enough && !r.ok && !rc.has_merge {
                v.fail("rejected_within_max_events", format!("{}: expansion has {} events (+ stream / document / alias events); max_events={} rejects: {}", what, ee, lim, r.err));
                return v;
            }
        }
        v
    }
    fn shrink(&self, c: &Small) -> Vec<Small> {
        let mut out: Vec<Small> = crate::treegen::shrink_node(&c.tree).into_iter().map(|t| Small { tree: t, flow: c.flow }).collect();
        if c.flow {
            out.push(Small { tree: c.tree.clone(), flow: false });
        }
        out
    }
    fn key(&self, c: &Small, clause: &str) -> String {
        format!("{}|{}|{}", clause, c.tree.show(), if c.flow { "flow" } else { "block" })
    }
}

// ------------------------------------------------------------------ (b) attack families on a grid

pub const FAMILIES: [&str; 8] = [
    "alias_bomb(fanout,levels)",
    "alias_chain(length,payload)",
    "aliases_inside_anchored_container(inner_size,aliases)",
    "nested_anchors(depth,nodes)",
    "wide_merge(sources,repeats)",
    "many_aliases_of_big_anchor(size,aliases)",
    "nested_anchored_mappings(depth,nodes)",
    "anchor_per_item(items,aliases_each)",
];

/// Family documents as text, with the reference accounting computed from the same generator model.
pub fn family_node(f: usize, a: usize, b: usize) -> Node {
    let p = Node::plain;
    let xs = |n: usize| Node::seq((0..n).map(|_| p("x")).collect()).flowed();
    match f {
        0 => {
            // a0: &a0 [x,x]; a1: &a1 [*a0 x fanout]; ... levels; last one used once more
            let mut entries = vec![(p("a0"), xs(2).anchored("a0"))];
            for l in 1..=b {
                let items = (0..a).map(|_| Node::alias(&format!("a{}", l - 1))).collect();
                entries.push((Node::plain(&format!("a{}", l)), Node::seq(items).flowed().anchored(&format!("a{}", l))));
            }
            Node::map(entries)
        }
        1 => {
            // - &c0 [x * payload]; - &c1 [*c0]; - &c2 [*c1] ...
            let mut items = vec![xs(b.max(1)).anchored("c0")];
            for l in 1..=a {
                items.push(Node::seq(vec![Node::alias(&format!("c{}", l - 1))]).flowed().anchored(&format!("c{}", l)));
            }
            Node::seq(items)
        }
        2 => {
            // - &i [x * inner]; - &o [*i * aliases]; - *o; - *o
            Node::seq(vec![xs(a.max(1)).anchored("i"), Node::seq((0..b).map(|_| Node::alias("i")).collect()).flowed().anchored("o"), Node::alias("o"), Node::alias("o")])
        }
        3 => {
            // &n1 [&n2 [ ... [x * nodes] ]]
            let mut cur = xs(b.max(1)).anchored("n0");
            for d in 1..a {
                cur = Node::seq(vec![cur]).flowed().anchored(&format!("n{}", d));
            }
            cur
        }
        4 => {
            // bases: b_i: &b_i {k_i: v}; then `repeats` mappings each merging all bases
            let mut entries = Vec::new();
            for i in 0..a {
                entries.push((Node::plain(&format!("b{}", i)), Node::map(vec![(Node::plain(&format!("k{}", i)), p("v"))]).flowed().anchored(&format!("b{}", i))));
            }
            for r in 0..b {
                let srcs = (0..a).map(|i| Node::alias(&format!("b{}", i))).collect();
                entries.push((Node::plain(&format!("m{}", r)), Node::map(vec![(p("<<"), Node::seq(srcs).flowed())]).flowed()));
            }
            Node::map(entries)
        }
        5 => {
            let mut items = vec![xs(a.max(1)).anchored("big")];
            for _ in 0..b {
                items.push(Node::alias("big"));
            }
            Node::seq(items)
        }
        6 => {
            // &m1 {k: &m2 {k: ... [x * nodes]}}
            let mut cur = xs(b.max(1)).anchored("m0");
            for d in 1..a {
                cur = Node::map(vec![(p("k"), cur)]).flowed().anchored(&format!("m{}", d));
            }
            cur
        }
        _ => {
            // - &i0 x, - *i0 ..., - &i1 x, - *i1 ...
            let mut items = Vec::new();
            for i in 0..a {
                items.push(p("x").anchored(&format!("i{}", i)));
                for _ in 0..b {
                    items.push(Node::alias(&format!("i{}", i)));
                }
            }
            Node::seq(items)
        }
    }
}

pub const LIMIT_CONFIGS: [(&str, Limits); 6] = [
    ("default", Limits { total: None, per_anchor: None, depth: None, max_nodes: None, max_events: None, reader: false }),
    ("total_replayed<=1000", Limits { total: Some(1000), per_anchor: None, depth: None, max_nodes: None, max_events: None, reader: false }),
    ("per_anchor<=8", Limits { total: None, per_anchor: Some(8), depth: None, max_nodes: None, max_events: None, reader: false }),
    ("max_nodes<=5000", Limits { total: None, per_anchor: None, depth: None, max_nodes: Some(5000), max_events: None, reader: false }),
    ("max_events<=8000", Limits { total: None, per_anchor: None, depth: None, max_nodes: None, max_events: Some(8000), reader: false }),
    ("default via from_reader", Limits { total: None, per_anchor: None, depth: None, max_nodes: None, max_events: None, reader: true }),
];

/// heap law: peak <= HEAP_BASE + HEAP_PER_INPUT_BYTE * input + HEAP_PER_EVENT * counted events
pub const HEAP_BASE: u64 = 256 << 10;
pub const HEAP_PER_INPUT_BYTE: u64 = 16;
pub const HEAP_PER_EVENT: u64 = 1024;
/// work law on allocated bytes (cumulative)
pub const WORK_PER_INPUT_BYTE: u64 = 64;
pub const WORK_PER_EVENT: u64 = 4096;

#[derive(Clone, Debug, Serialize, Deserialize)]
pub struct Fam {
    pub family: usize,
    pub a: usize,
    pub b: usize,
    pub cfg: usize,
}
pub struct C08Fam;

fn default_limits() -> (u64, u64, u64, u64) {
    let b = serde_saphyr::Budget::default();
    let al = serde_saphyr::Options::default().alias_limits;
    (al.max_total_replayed_events as u64, al.max_alias_expansions_per_anchor as u64, b.max_nodes as u64, b.max_events as u64)
}

impl Prop for C08Fam {
    type Case = Fam;
    fn check(&self, c: &Fam) -> Verdict {
        let mut v = Verdict::default();
        let node = family_node(c.family, c.a, c.b);
        let text = render_default(&node);
        let rc = match ref_counts(&node) {
            Some(r) => r,
            None => {
                v.rejected = true;
                return v;
            }
        };
        let (name, lim) = LIMIT_CONFIGS[c.cfg];
        let (dt, dp, dn, de) = default_limits();
        let total = lim.total.map(|x| x as u64).unwrap_or(dt);
        let per = lim.per_anchor.map(|x| x as u64).unwrap_or(dp);
        let max_nodes = lim.max_nodes.map(|x| x as u64).unwrap_or(dn);
        let max_events = lim.max_events.map(|x| x as u64).unwrap_or(de);
        let r = match run_count(&text, &lim) {
            Ok(r) => r,
            Err(p) => {
                v.fail("panic", format!("{} a={} b={} under {}: {}", FAMILIES[c.family], c.a, c.b, name, p));
                return v;
            }
        };
        v.execs = 1;
        v.compared = 1;
        v.nontrivial = rc.aliases > 0 || c.family == 3 || c.family == 6;
        v.outcome = hash64(&(r.ok, r.err_kind.clone(), c.family));
        v.classes.push(if r.ok { "family_accepted" } else { "family_rejected" });
        let what = format!("{} a={} b={} ({} bytes of input, expands to {} nodes / replays {} events) under {}", FAMILIES[c.family], c.a, c.b, text.len(), rc.expanded_nodes, rc.replayed_events, name);
        // 1. delivered nodes within the limits
        if r.nodes > max_nodes {
            v.fail("delivered_nodes_exceed_max_nodes", format!("{}: {} nodes delivered", what, r.nodes));
            return v;
        }
        if r.nodes + r.ends > max_events {
            v.fail("delivered_events_exceed_max_events", format!("{}: {} node and end events delivered", what, r.nodes + r.ends));
            return v;
        }
        let raw_nodes = rc.expanded_nodes - rc.replayed_nodes;
        if r.nodes > raw_nodes + total.min(rc.replayed_events) {
            v.fail("work_exceeds_total_replay_limit", format!("{}: {} nodes delivered but only {} are written and at most {} events may be replayed", what, r.nodes, raw_nodes, total));
            return v;
        }
        // 2. acceptance: within every limit => accepted; beyond an alias limit => rejected
        // (stream/document start+end = 4 events, plus one event per alias)
        let counted_events = rc.expanded_events + 4 + rc.aliases;
        let within_alias = rc.replayed_events <= total && rc.per_anchor_max <= per;
        let within_budget = rc.expanded_nodes <= max_nodes && counted_events <= max_events;
        let parser_depth = r.err.contains("recursion limit exceeded");
        if parser_depth {
            // saphyr-parser's own nesting limit for flow collections (256): a rejection after bounded work
            v.classes.push("rejected_by_parser_nesting_limit");
        }
        if within_alias && within_budget && !r.ok && !parser_depth && !matches!(r.err_kind.as_str(), "Budget") {
            v.fail("rejected_within_limits", format!("{}: stays within every limit but is rejected: {}", what, r.err));
            return v;
        }
        if within_alias && within_budget && !r.ok {
            // a budget breach of another counter (aliases, anchors, merge keys, depth) is legitimate: classify
            v.classes.push("rejected_by_other_budget_counter");
        }
        if !within_alias && r.ok {
            v.fail("accepted_beyond_alias_limits", format!("{}: needs {} replayed events / {} expansions of one anchor but is accepted", what, rc.replayed_events, rc.per_anchor_max));
            return v;
        }
        if rc.expanded_nodes > max_nodes && r.ok && !rc.has_merge {
            v.fail("accepted_beyond_max_nodes", format!("{}: accepted", what));
            return v;
        }
        // 3. heap and allocation laws
        let e = counted_events.min(max_events).min(raw_nodes * 2 + 4 + rc.aliases + total.min(rc.replayed_events));
        let heap_allowed = HEAP_BASE + HEAP_PER_INPUT_BYTE * text.len() as u64 + HEAP_PER_EVENT * e;
        if r.usage.peak > heap_allowed {
            v.fail(
                "peak_heap_exceeds_linear_bound",
                format!("{}: peak heap {} bytes > {} = {} + {}*input + {}*{} counted events", what, r.usage.peak, heap_allowed, HEAP_BASE, HEAP_PER_INPUT_BYTE, HEAP_PER_EVENT, e),
            );
            return v;
        }
        let work_allowed = HEAP_BASE + WORK_PER_INPUT_BYTE * text.len() as u64 + WORK_PER_EVENT * e;
        if r.usage.total > work_allowed {
            v.fail("allocated_bytes_exceed_linear_bound", format!("{}: {} bytes allocated in total > {}", what, r.usage.total, work_allowed));
            return v;
        }
        v
    }
    fn shrink(&self, c: &Fam) -> Vec<Fam> {
        // towards the smallest grid point that still fails: halve and decrement each parameter
        let mut out = Vec::new();
        for (a, b) in [(c.a / 2, c.b), (c.a, c.b / 2), (c.a.saturating_sub(1), c.b), (c.a, c.b.saturating_sub(1))] {
            if a >= 1 && b >= 1 && (a, b) != (c.a, c.b) {
                out.push(Fam { a, b, ..c.clone() });
            }
        }
        if c.cfg != 0 {
            out.push(Fam { cfg: 0, ..c.clone() });
        }
        out
    }
    fn key(&self, c: &Fam, clause: &str) -> String {
        // one finding per (clause, family, limit configuration): the minimal grid point is in the detail
        format!("{}|{}|{}", clause, FAMILIES[c.family], LIMIT_CONFIGS[c.cfg].0)
    }
}

fn grid(tier: Tier) -> Vec<Fam> {
    let mut out = Vec::new();
    let pts = |f: usize| -> (Vec<usize>, Vec<usize>) {
        match f {
            0 => (vec![1, 2, 3, 5, 9], (1..=tier.pick(7, 10)).collect()),
            1 => (vec![1, 2, 8, 32, 128, tier.pick(256, 1024)], vec![1, 16, 256]),
            2 => (vec![1, 10, 100, 1000], vec![1, 10, 100, tier.pick(300, 1000)]),
            3 | 6 => (vec![1, 2, 4, 8, 16, 32, 64, 128, tier.pick(128, 512)], vec![1, 16, 256, 1024, tier.pick(1024, 4096)]),
            4 => (vec![1, 4, 16, 64, 256], vec![1, 4, 16, tier.pick(32, 128)]),
            5 => (vec![1, 10, 100, 1000, 10_000], vec![1, 10, 100, tier.pick(500, 2000)]),
            _ => (vec![1, 10, 100, 1000], vec![1, 2, 9, tier.pick(20, 40)]),
        }
    };
    for f in 0..FAMILIES.len() {
        let (xs, ys) = pts(f);
        for &a in &xs {
            for &b in &ys {
                for cfg in 0..LIMIT_CONFIGS.len() {
                    out.push(Fam { family: f, a, b, cfg });
                }
            }
        }
    }
    out.sort_by_key(|c| (c.family, c.a * c.b, c.cfg));
    out.dedup_by_key(|c| (c.family, c.a, c.b, c.cfg));
    out
}

pub fn run(ctx: &Ctx) -> i32 {
    if std::env::var("VERIF_C08_DEBUG").is_ok() {
        for (f, pts) in [(5usize, vec![(1usize, 1usize), (10, 1), (100, 1), (1000, 1), (10000, 1), (100000, 1), (1000, 100)]), (3, vec![(1, 1), (10, 1), (47, 1), (100, 1), (10, 1000), (100, 1000), (250, 1000), (64, 100000)]), (0, vec![(2, 3), (5, 5), (9, 7)])] {
            for (a, b) in pts {
                let node = family_node(f, a, b);
                let text = render_default(&node);
                let rc = ref_counts(&node).unwrap();
                let r = run_count(&text, &Limits::default()).unwrap();
                println!("{} a={} b={} input={} expanded_events={} replayed={} ok={} {} nodes={} peak={} total={} calls={}", FAMILIES[f], a, b, text.len(), rc.expanded_events, rc.replayed_events, r.ok, r.err_kind, r.nodes, r.usage.peak, r.usage.total, r.usage.calls);
            }
        }
        return 0;
    }
    // (a) small trees
    let p = C08Small;
    let g = crate::props::c02::generator(false);
    let full = ctx.tier.pick(4, 5);
    let by = g.build(full);
    let per_tree = |acc: &mut Acc, t: Node| {
        if !t.has_alias() {
            return;
        }
        for flow in [false, true] {
            if flow && !t.is_collection() {
                continue;
            }
            process_case(&p, acc, &Small { tree: t.clone(), flow });
        }
    };
    let mut acc = Acc::default();
    for k in 1..=full {
        acc = acc.merge(crate::props::c02::run_chunks(&by[k], &per_tree));
    }
    let a = g.for_each_next(&by, Acc::default, |acc, t| per_tree(acc, t), Acc::merge);
    acc = acc.merge(a);
    {
        // canonical-anchor pass (3+ distinct anchors)
        let sg = crate::props::c02::shape_generator();
        let can_full = ctx.tier.pick(5, 6);
        let sby = sg.build(can_full);
        let per_shape = |acc: &mut Acc, shape: Node| {
            crate::props::c02::labellings(&shape, &mut |t| per_tree(acc, t));
        };
        for k in 1..=can_full {
            acc = acc.merge(crate::props::c02::run_chunks(&sby[k], &per_shape));
        }
        let a = sg.for_each_next(&sby, Acc::default, |acc, t| per_shape(acc, t), Acc::merge);
        acc = acc.merge(a);
    }
    let small_evals = acc.evaluations;
    // (b) families
    let cases = grid(ctx.tier);
    let fam_acc = run_list(&C08Fam, &cases);
    let fam_evals = fam_acc.evaluations;
    acc = acc.merge(fam_acc);
    acc.samples.truncate(0);
    acc.samples.push(json!({"family": FAMILIES[0], "a": 3, "b": 2, "document": render_default(&family_node(0, 3, 2)), "reference": ref_counts(&family_node(0, 3, 2))}));
    acc.samples.push(json!({"family": FAMILIES[3], "a": 3, "b": 2, "document": render_default(&family_node(3, 3, 2))}));
    acc.notes.insert("small_tree_cases".into(), json!(small_evals));
    acc.notes.insert("family_grid_points".into(), json!(fam_evals));
    acc.notes.insert(
        "laws".into(),
        json!({"peak_heap": format!("{} + {}*input_bytes + {}*counted_events", HEAP_BASE, HEAP_PER_INPUT_BYTE, HEAP_PER_EVENT), "allocated_bytes": format!("{} + {}*input_bytes + {}*counted_events", HEAP_BASE, WORK_PER_INPUT_BYTE, WORK_PER_EVENT), "counted_events": "min(max_events, events written + 4 + aliases + min(max_total_replayed_events, replayed events of the reference))"}),
    );
    let meta = Meta {
        level: "model_checking",
        rule: "(a) every anchor/alias tree up to the node bound (C02 alphabet: anchors on scalars / sequences / mappings / keys, re-definitions, aliases anywhere incl. merge values; plus canonical 3+-anchor labellings) in block and flow layout: reference replay accounting vs the real library at the exact boundary of each alias limit (L, L-1, L+1, 0, L/2) and of max_nodes / max_events, visitor-call counts as observer; (b) 8 attack families on their whole parameter grid x 6 limit configurations (one through from_reader): delivered nodes, acceptance, peak heap and allocated bytes (counting allocator) against linear laws; non-trivial = at least one alias is replayed (or nested anchors record)".into(),
        exhaustive: true,
        bounds: json!({"small_tree_max_nodes": full + 1, "families": FAMILIES, "limit_configurations": LIMIT_CONFIGS.iter().map(|c| c.0).collect::<Vec<_>>(), "grid_points": cases.len()}),
        assumptions: vec![
            "the counting target allocates nothing, so heap figures are the library's own (plus the parser's)".into(),
            "the alias/anchor ratio heuristic is switched off so that the limits under test decide acceptance".into(),
            "the constants of the linear laws are fixed (3x or more above what flat documents need)".into(),
        ],
    };
    finish(ctx, meta, acc)
}

pub fn replay_file(ctx: &Ctx, path: &str) -> i32 {
    if let Ok(text) = std::fs::read_to_string(path) {
        if text.contains("\"family\"") {
            return replay(&C08Fam, ctx, path);
        }
    }
    replay(&C08Small, ctx, path)
}
