//! Exhaustive product driver, shrinking, evidence, known findings, replay.
use rayon::prelude::*;
use serde::de::DeserializeOwned;
use serde::Serialize;
use serde_json::{json, Value};
use std::cell::RefCell;
use std::collections::{BTreeMap, HashMap, HashSet};
use std::panic::{catch_unwind, AssertUnwindSafe};
use std::time::Instant;

#[derive(Clone, Copy, PartialEq, Eq, Debug)]
pub enum Tier {
    Quick,
    Thorough,
}
impl Tier {
    pub fn name(&self) -> &'static str {
        match self {
            Tier::Quick => "quick",
            Tier::Thorough => "thorough",
        }
    }
    pub fn pick<T>(&self, q: T, t: T) -> T {
        match self {
            Tier::Quick => q,
            Tier::Thorough => t,
        }
    }
}

pub struct Ctx {
    pub id: String,
    pub tier: Tier,
    pub seed: u64,
    pub start: Instant,
}

/// What one execution of the oracle on one case says.
#[derive(Default, Clone)]
pub struct Verdict {
    pub nontrivial: bool,
    /// coverage classes this case belongs to
    pub classes: Vec<&'static str>,
    /// hash of the observed outcome (to count distinct outcomes)
    pub outcome: u64,
    /// number of implementation executions this check made
    pub execs: u32,
    /// number of oracle predictions compared with the implementation
    pub compared: u32,
    /// the generator could not realise this case (parser sees something else than intended): not a test case
    pub rejected: bool,
    pub fail: Option<Fail>,
}
#[derive(Clone, Debug)]
pub struct Fail {
    /// which clause of the property's oracle failed (stable identifier)
    pub clause: String,
    /// human readable detail: expected vs observed
    pub detail: String,
}
impl Verdict {
    pub fn fail(&mut self, clause: &str, detail: String) {
        if self.fail.is_none() {
            self.fail = Some(Fail { clause: clause.to_string(), detail });
        }
    }
}

pub trait Prop: Sync {
    type Case: Serialize + DeserializeOwned + Clone + Send + Sync;
    fn check(&self, c: &Self::Case) -> Verdict;
    /// strictly simpler candidate cases (same space), simplest first
    fn shrink(&self, _c: &Self::Case) -> Vec<Self::Case> {
        Vec::new()
    }
    /// canonical identity of a (minimal) failing case
    fn key(&self, c: &Self::Case, clause: &str) -> String {
        format!("{}|{}", clause, serde_json::to_string(c).unwrap())
    }
}

#[derive(Clone, Debug, Serialize, serde::Deserialize)]
pub struct Violation {
    pub key: String,
    pub clause: String,
    pub detail: String,
    pub case: Value,
    pub original: Value,
    pub count: u64,
}

#[derive(Default, Serialize, serde::Deserialize)]
pub struct Acc {
    pub evaluations: u64,
    pub execs: u64,
    pub compared: u64,
    pub nontrivial: u64,
    pub classes: BTreeMap<String, u64>,
    pub outcomes: HashSet<u64>,
    pub violations: BTreeMap<String, Violation>,
    pub raw_failures: u64,
    pub samples: Vec<Value>,
    pub notes: BTreeMap<String, Value>,
    pub caps_hit: Vec<String>,
    pub generator_rejected: u64,
}

const MAX_OUTCOMES: usize = 1 << 20;

impl Acc {
    pub fn merge(mut self, o: Acc) -> Acc {
        self.evaluations += o.evaluations;
        self.execs += o.execs;
        self.compared += o.compared;
        self.nontrivial += o.nontrivial;
        self.raw_failures += o.raw_failures;
        self.generator_rejected += o.generator_rejected;
        for (k, v) in o.classes {
            *self.classes.entry(k).or_insert(0) += v;
        }
        if self.outcomes.len() < MAX_OUTCOMES {
            self.outcomes.extend(o.outcomes);
        }
        for (k, v) in o.violations {
            match self.violations.get_mut(&k) {
                Some(e) => e.count += v.count,
                None => {
                    self.violations.insert(k, v);
                }
            }
        }
        for s in o.samples {
            if self.samples.len() < 12 {
                self.samples.push(s);
            }
        }
        for (k, v) in o.notes {
            self.notes.insert(k, v);
        }
        self.caps_hit.extend(o.caps_hit);
        self
    }
    pub fn class(&mut self, name: &str, n: u64) {
        *self.classes.entry(name.to_string()).or_insert(0) += n;
    }
    pub fn add_violation(&mut self, key: String, clause: &str, detail: String, case: Value, original: Value) {
        self.raw_failures += 1;
        match self.violations.get_mut(&key) {
            Some(e) => e.count += 1,
            None => {
                self.violations.insert(
                    key.clone(),
                    Violation { key, clause: clause.to_string(), detail, case, original, count: 1 },
                );
            }
        }
    }
}

thread_local! {
    static SHRINK_MEMO: RefCell<HashMap<String, Violation>> = RefCell::new(HashMap::new());
    pub static LAST_PANIC: RefCell<Option<String>> = const { RefCell::new(None) };
}

pub fn install_panic_hook() {
    std::panic::set_hook(Box::new(|info| {
        let loc = info.location().map(|l| format!("{}:{}", l.file(), l.line())).unwrap_or_default();
        let msg = if let Some(s) = info.payload().downcast_ref::<&str>() {
            s.to_string()
        } else if let Some(s) = info.payload().downcast_ref::<String>() {
            s.clone()
        } else {
            "<non-string panic>".to_string()
        };
        LAST_PANIC.with(|p| *p.borrow_mut() = Some(format!("{} @ {}", msg, loc)));
    }));
}

/// Run `f`, converting a panic into Err(description).
pub fn guarded<T>(f: impl FnOnce() -> T) -> Result<T, String> {
    match catch_unwind(AssertUnwindSafe(f)) {
        Ok(v) => Ok(v),
        Err(_) => Err(LAST_PANIC.with(|p| p.borrow_mut().take()).unwrap_or_else(|| "panic".into())),
    }
}

/// strip volatile parts (line numbers of the crate under test stay: they identify the site)
pub fn panic_site(desc: &str) -> String {
    match desc.rfind(" @ ") {
        Some(i) => desc[i + 3..].to_string(),
        None => desc.to_string(),
    }
}

/// Greedy structural shrinking inside the property's own case space.
pub fn shrink_case<P: Prop>(p: &P, c: &P::Case, fail: &Fail) -> (P::Case, Fail) {
    let mut cur = c.clone();
    let mut cur_fail = fail.clone();
    let mut steps = 0;
    'outer: loop {
        steps += 1;
        if steps > 400 {
            break;
        }
        for cand in p.shrink(&cur) {
            let v = p.check(&cand);
            if let Some(f) = v.fail {
                if f.clause == cur_fail.clause {
                    cur = cand;
                    cur_fail = f;
                    continue 'outer;
                }
            }
        }
        break;
    }
    (cur, cur_fail)
}

pub fn process_case<P: Prop>(p: &P, acc: &mut Acc, c: &P::Case) {
    let v = p.check(c);
    if v.rejected {
        acc.generator_rejected += 1;
        return;
    }
    acc.evaluations += 1;
    acc.execs += v.execs as u64;
    acc.compared += v.compared as u64;
    if v.nontrivial {
        acc.nontrivial += 1;
    }
    for cl in &v.classes {
        *acc.classes.entry(cl.to_string()).or_insert(0) += 1;
    }
    if acc.outcomes.len() < MAX_OUTCOMES {
        acc.outcomes.insert(v.outcome);
    }
    if let Some(f) = v.fail {
        let raw = serde_json::to_string(c).unwrap();
        let memo_key = format!("{}|{}", f.clause, raw);
        let hit = SHRINK_MEMO.with(|m| m.borrow().get(&memo_key).cloned());
        let viol = match hit {
            Some(v) => v,
            None => {
                let (min, mf) = shrink_case(p, c, &f);
                let key = p.key(&min, &mf.clause);
                let viol = Violation {
                    key,
                    clause: mf.clause.clone(),
                    detail: mf.detail.clone(),
                    case: serde_json::to_value(&min).unwrap(),
                    original: serde_json::to_value(c).unwrap(),
                    count: 1,
                };
                SHRINK_MEMO.with(|m| {
                    let mut m = m.borrow_mut();
                    if m.len() < 100_000 {
                        m.insert(memo_key, viol.clone());
                    }
                });
                viol
            }
        };
        acc.add_violation(viol.key.clone(), &viol.clause, viol.detail, viol.case, viol.original);
    }
}

/// Exhaustively run every case of a finite, indexable space in parallel.
pub fn run_indexed<P: Prop>(p: &P, n: u64, decode: impl Fn(u64) -> Option<P::Case> + Sync) -> Acc {
    let chunk: u64 = 256;
    let chunks = n.div_ceil(chunk);
    (0..chunks)
        .into_par_iter()
        .fold(Acc::default, |mut acc, ci| {
            let lo = ci * chunk;
            let hi = ((ci + 1) * chunk).min(n);
            for i in lo..hi {
                if let Some(c) = decode(i) {
                    if acc.samples.len() < 2 && (i % 9973 == 0 || i == n - 1) {
                        acc.samples.push(serde_json::to_value(&c).unwrap());
                    }
                    process_case(p, &mut acc, &c);
                }
            }
            acc
        })
        .reduce(Acc::default, Acc::merge)
}

/// Exhaustively run every case of a materialised list in parallel.
pub fn run_list<P: Prop>(p: &P, cases: &[P::Case]) -> Acc {
    run_indexed(p, cases.len() as u64, |i| Some(cases[i as usize].clone()))
}

// ---------------------------------------------------------------------------------------------
// known findings

#[derive(Clone, Debug)]
pub struct Known {
    pub property: String,
    pub status: String,
    /// exact minimal form ...
    pub key: String,
    /// ... or a named structural class: a pattern over minimal forms ('*' matches any run of characters);
    /// used only where one defect has an unbounded family of incomparable minimal forms
    pub key_pattern: String,
    pub what: String,
}

/// glob-style match: '*' matches any (possibly empty) run of characters, everything else is literal
pub fn pattern_matches(pat: &str, s: &str) -> bool {
    let parts: Vec<&str> = pat.split('*').collect();
    if parts.len() == 1 {
        return pat == s;
    }
    let mut pos = 0usize;
    for (i, part) in parts.iter().enumerate() {
        if i == 0 {
            if !s.starts_with(part) {
                return false;
            }
            pos = part.len();
        } else if i == parts.len() - 1 {
            return s.len() >= pos + part.len() && s[pos..].ends_with(part);
        } else {
            match s[pos..].find(part) {
                Some(k) => pos += k + part.len(),
                None => return false,
            }
        }
    }
    true
}

impl Known {
    pub fn matches(&self, key: &str) -> bool {
        if !self.key.is_empty() && self.key == key {
            return true;
        }
        !self.key_pattern.is_empty() && pattern_matches(&self.key_pattern, key)
    }
}

pub fn load_known(path: &str) -> Result<Vec<Known>, String> {
    let mut out = Vec::new();
    let text = match std::fs::read_to_string(path) {
        Ok(t) => t,
        Err(_) => return Ok(out),
    };
    for (i, line) in text.lines().enumerate() {
        let line = line.trim();
        if line.is_empty() || line.starts_with('#') {
            continue;
        }
        let v: Value = serde_json::from_str(line).map_err(|e| format!("known_findings line {}: {}", i + 1, e))?;
        out.push(Known {
            property: v["property"].as_str().unwrap_or("").to_string(),
            status: v["status"].as_str().unwrap_or("").to_string(),
            key: v["key"].as_str().unwrap_or("").to_string(),
            key_pattern: v["key_pattern"].as_str().unwrap_or("").to_string(),
            what: v["what"].as_str().unwrap_or("").to_string(),
        });
    }
    Ok(out)
}

pub fn verif_root() -> String {
    std::env::var("VERIF_ROOT").unwrap_or_else(|_| "/verif".to_string())
}

pub struct Meta {
    pub level: &'static str,
    pub rule: String,
    pub exhaustive: bool,
    pub bounds: Value,
    pub assumptions: Vec<String>,
}

fn short_hash(s: &str) -> String {
    use std::hash::{Hash, Hasher};
    let mut h = std::collections::hash_map::DefaultHasher::new();
    s.hash(&mut h);
    format!("{:016x}", h.finish())
}

/// Write evidence + replay files, print verdict lines, return the process exit code.
pub fn finish(ctx: &Ctx, meta: Meta, acc: Acc) -> i32 {
    let root = verif_root();
    let known = match load_known(&format!("{}/known_findings.jsonl", root)) {
        Ok(k) => k,
        Err(e) => {
            eprintln!("MACHINERY: {}", e);
            return 2;
        }
    };
    let mut unlisted = Vec::new();
    let mut listed = Vec::new();
    for (k, v) in &acc.violations {
        match known.iter().find(|kn| kn.property == ctx.id && kn.status == "open" && kn.matches(k)) {
            Some(kn) => listed.push((kn.clone(), v.clone())),
            None => unlisted.push(v.clone()),
        }
    }
    // one line per listed finding (a class entry may cover several minimal forms)
    let mut printed: Vec<(String, usize, u64, String)> = Vec::new();
    for (kn, v) in &listed {
        let id = if kn.key.is_empty() { kn.key_pattern.clone() } else { kn.key.clone() };
        match printed.iter_mut().find(|p| p.0 == id) {
            Some(p) => {
                p.1 += 1;
                p.2 += v.count;
            }
            None => printed.push((id, 1, v.count, kn.what.clone())),
        }
    }
    for (id, forms, cases, what) in &printed {
        println!("KNOWN-FINDING: property={} {} [listed as {}; {} minimal form(s), {} failing cases]", ctx.id, what, id, forms, cases);
    }
    let mut exit = 0;
    let rdir = format!("{}/replays/{}", root, ctx.id);
    for v in &unlisted {
        let _ = std::fs::create_dir_all(&rdir);
        let path = format!("{}/{}.json", rdir, short_hash(&v.key));
        let body = json!({
            "property": ctx.id,
            "key": v.key,
            "clause": v.clause,
            "detail": v.detail,
            "case": v.case,
            "original_witness": v.original,
            "failing_cases_reducing_to_this": v.count,
            "replay": format!("./check {} --replay {}", ctx.id, path),
        });
        let _ = std::fs::write(&path, serde_json::to_string_pretty(&body).unwrap());
        println!("VIOLATION property={} replay={}", ctx.id, path);
        println!("  key: {}", v.key);
        println!("  detail: {}", v.detail);
        exit = 1;
    }
    let wall = ctx.start.elapsed().as_secs_f64();
    let mut samples = acc.samples.clone();
    if samples.is_empty() {
        samples.push(json!("<no sample captured>"));
    }
    let states = acc.evaluations.max(1);
    let mut cov = json!({
        "evaluations": acc.evaluations,
        "implementation_executions": acc.execs,
        "distinct_nontrivial": acc.nontrivial,
        "rule": meta.rule,
        "samples": samples,
        "states": states,
        "transitions": acc.execs.max(1),
        "traces_validated_against_impl": acc.compared,
        "distinct_outcomes": acc.outcomes.len(),
        "classes": acc.classes,
        "generator_rejected": acc.generator_rejected,
        "exhaustive": meta.exhaustive && acc.caps_hit.is_empty(),
        "caps_hit": acc.caps_hit,
        "bounds": meta.bounds,
        "raw_failing_cases": acc.raw_failures,
        "minimal_violation_forms": acc.violations.len(),
        "known_findings_reproduced": listed.iter().map(|(k, v)| json!({"listed_as": if k.key.is_empty() { k.key_pattern.clone() } else { k.key.clone() }, "form": v.key, "cases": v.count})).collect::<Vec<_>>(),
    });
    for (k, v) in &acc.notes {
        cov[k] = v.clone();
    }
    let ev = json!({
        "property_id": ctx.id,
        "tier": ctx.tier.name(),
        "seed": ctx.seed,
        "level": meta.level,
        "coverage": cov,
        "assumptions": meta.assumptions,
        "wall_s": wall,
        "violations": unlisted.len(),
    });
    let _ = std::fs::create_dir_all(format!("{}/evidence", root));
    let epath = format!("{}/evidence/{}.json", root, ctx.id);
    if let Err(e) = std::fs::write(&epath, serde_json::to_string_pretty(&ev).unwrap()) {
        eprintln!("MACHINERY: cannot write evidence {}: {}", epath, e);
        return 2;
    }
    println!(
        "{} {}: evaluations={} executions={} nontrivial={} outcomes={} raw_failures={} minimal_forms={} known={} unlisted={} wall={:.1}s",
        ctx.id,
        ctx.tier.name(),
        acc.evaluations,
        acc.execs,
        acc.nontrivial,
        acc.outcomes.len(),
        acc.raw_failures,
        acc.violations.len(),
        listed.len(),
        unlisted.len(),
        wall
    );
    // vacuity guard
    if acc.evaluations == 0 || acc.nontrivial < 2 {
        eprintln!("MACHINERY: vacuous run (evaluations={}, nontrivial={})", acc.evaluations, acc.nontrivial);
        return 2;
    }
    exit
}

/// Replay a stored case twice; both executions must agree (nondeterminism guard).
pub fn replay<P: Prop>(p: &P, ctx: &Ctx, path: &str) -> i32 {
    let text = match std::fs::read_to_string(path) {
        Ok(t) => t,
        Err(e) => {
            eprintln!("MACHINERY: cannot read {}: {}", path, e);
            return 2;
        }
    };
    let v: Value = match serde_json::from_str(&text) {
        Ok(v) => v,
        Err(e) => {
            eprintln!("MACHINERY: bad replay file: {}", e);
            return 2;
        }
    };
    let case: P::Case = match serde_json::from_value(v["case"].clone()) {
        Ok(c) => c,
        Err(e) => {
            eprintln!("MACHINERY: replay case does not decode: {}", e);
            return 2;
        }
    };
    let a = p.check(&case);
    let b = p.check(&case);
    let fa = a.fail.as_ref().map(|f| (f.clause.clone(), f.detail.clone()));
    let fb = b.fail.as_ref().map(|f| (f.clause.clone(), f.detail.clone()));
    if fa != fb || a.outcome != b.outcome {
        eprintln!("MACHINERY: replay is not deterministic: {:?} vs {:?}", fa, fb);
        return 2;
    }
    match a.fail {
        Some(f) => {
            println!("VIOLATION property={} replay={}", ctx.id, path);
            println!("  clause: {}", f.clause);
            println!("  detail: {}", f.detail);
            1
        }
        None => {
            println!("{} replay {}: property holds on this case", ctx.id, path);
            0
        }
    }
}

pub fn hash64<T: std::hash::Hash>(t: &T) -> u64 {
    use std::hash::Hasher;
    let mut h = std::collections::hash_map::DefaultHasher::new();
    t.hash(&mut h);
    h.finish()
}

/// All strings of length 0..=max_len over `alphabet` as an indexable space.
pub struct StrSpace<'a> {
    pub alphabet: &'a [&'a str],
    pub max_len: usize,
    starts: Vec<u64>,
}
impl<'a> StrSpace<'a> {
    pub fn new(alphabet: &'a [&'a str], max_len: usize) -> Self {
        let k = alphabet.len() as u64;
        let mut starts = vec![0u64];
        let mut pow = 1u64;
        for _ in 0..=max_len {
            let last = *starts.last().unwrap();
            starts.push(last + pow);
            pow = pow.saturating_mul(k);
        }
        StrSpace { alphabet, max_len, starts }
    }
    pub fn len(&self) -> u64 {
        self.starts[self.max_len + 1]
    }
    pub fn tokens(&self, mut idx: u64) -> Vec<usize> {
        let mut l = 0;
        while idx >= self.starts[l + 1] {
            l += 1;
        }
        idx -= self.starts[l];
        let k = self.alphabet.len() as u64;
        let mut v = vec![0usize; l];
        for i in (0..l).rev() {
            v[i] = (idx % k) as usize;
            idx /= k;
        }
        v
    }
    pub fn get(&self, idx: u64) -> String {
        self.tokens(idx).into_iter().map(|t| self.alphabet[t]).collect()
    }
}
