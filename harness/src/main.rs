use std::time::Instant;

#[global_allocator]
static GLOBAL: vh::alloc::Counting = vh::alloc::Counting;

use vh::engine::*;
use vh::props;

fn usage() -> ! {
    eprintln!("usage: vh <ID> <quick|thorough> | vh <ID> --replay <file>");
    std::process::exit(2)
}

fn main() {
    // glibc malloc: keep per-thread arenas from growing/trimming with mprotect on every burst
    unsafe {
        libc::mallopt(libc::M_TOP_PAD, 8 << 20);
        libc::mallopt(libc::M_TRIM_THRESHOLD, 512 << 20);
        libc::mallopt(libc::M_MMAP_THRESHOLD, 16 << 20);
    }
    let args: Vec<String> = std::env::args().collect();
    if args.len() < 3 {
        usage();
    }
    let id = args[1].clone();
    if id == "raw" {
        let text = args[2].replace("\\n", "\n");
        println!("{:#?}", vh::raw::raw_events(&text).map(|v| v.into_iter().map(|e| format!("{:?} @{}:{}..{}:{}", e.ev, e.start.line, e.start.col, e.end.line, e.end.col)).collect::<Vec<_>>()));
        println!("Tree: {:?}", serde_saphyr::from_str::<vh::tree::Tree>(&text).map_err(|e| e.to_string()));
        println!("String: {:?}", serde_saphyr::from_str::<String>(&text).map_err(|e| e.to_string()));
        return;
    }
    if id == "C01" && args[2] == "describe" {
        println!("{}", props::c01::describe(Tier::Quick, args[3].parse().unwrap()));
        return;
    }
    if args[2].starts_with("child-") {
        let code = match id.as_str() {
            "C01" => props::c01::child(&args[2..]),
            _ => 2,
        };
        std::process::exit(code);
    }
    let mut tier = match std::env::var("VERIF_TIER").ok().as_deref() {
        Some("thorough") => Tier::Thorough,
        _ => Tier::Quick,
    };
    let mut replay: Option<String> = None;
    let mut i = 2;
    while i < args.len() {
        match args[i].as_str() {
            "quick" => tier = Tier::Quick,
            "thorough" => tier = Tier::Thorough,
            "--replay" => {
                i += 1;
                replay = Some(args.get(i).cloned().unwrap_or_else(|| usage()));
            }
            _ => usage(),
        }
        i += 1;
    }
    let seed = std::env::var("VERIF_SEED").ok().and_then(|s| s.parse().ok()).unwrap_or(0u64);
    install_panic_hook();
    let ctx = Ctx { id: id.clone(), tier, seed, start: Instant::now() };
    let code = props::dispatch(&ctx, replay.as_deref());
    std::process::exit(code)
}
