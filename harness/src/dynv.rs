//! Run-time typed values: `Ty` (a schema), `Dyn` (a value), `Serialize for Dyn` and
//! `DeserializeSeed for &Ty` that behave like serde-derived implementations.
use serde::de::{self, DeserializeSeed, Deserializer, EnumAccess, IgnoredAny, MapAccess, SeqAccess, VariantAccess, Visitor};
use serde::ser::{Serialize, SerializeMap, SerializeSeq, SerializeStruct, SerializeStructVariant, SerializeTuple, SerializeTupleStruct, SerializeTupleVariant, Serializer};
use serde::{Deserialize, Serialize as DSerialize};
use std::collections::HashMap;
use std::fmt;
use std::sync::Mutex;

thread_local! {
    /// serialize sequences and mappings without a length hint (as `collect_seq` over a filtering iterator does)
    pub static UNKNOWN_LEN: std::cell::Cell<bool> = const { std::cell::Cell::new(false) };
}

pub fn intern(s: &str) -> &'static str {
    static POOL: Mutex<Option<HashMap<String, &'static str>>> = Mutex::new(None);
    let mut g = POOL.lock().unwrap();
    let m = g.get_or_insert_with(HashMap::new);
    if let Some(v) = m.get(s) {
        return v;
    }
    let leaked: &'static str = Box::leak(s.to_string().into_boxed_str());
    m.insert(s.to_string(), leaked);
    leaked
}

pub fn intern_list(v: &[String]) -> &'static [&'static str] {
    static POOL: Mutex<Option<HashMap<Vec<String>, &'static [&'static str]>>> = Mutex::new(None);
    let mut g = POOL.lock().unwrap();
    let m = g.get_or_insert_with(HashMap::new);
    if let Some(x) = m.get(v) {
        return x;
    }
    let items: Vec<&'static str> = v.iter().map(|s| intern(s)).collect();
    let leaked: &'static [&'static str] = Box::leak(items.into_boxed_slice());
    m.insert(v.to_vec(), leaked);
    leaked
}

#[derive(Clone, Debug, PartialEq, Eq, Hash, DSerialize, Deserialize)]
pub enum VarTy {
    Unit,
    Newtype(Box<Ty>),
    Tuple(Vec<Ty>),
    Struct(Vec<(String, Ty)>),
}

#[derive(Clone, Debug, PartialEq, Eq, Hash, DSerialize, Deserialize)]
pub enum Ty {
    Bool,
    I64,
    U8,
    F64,
    Str,
    Char,
    Unit,
    Option(Box<Ty>),
    Seq(Box<Ty>),
    Tuple(Vec<Ty>),
    TupleStruct(String, Vec<Ty>),
    NewtypeStruct(String, Box<Ty>),
    UnitStruct(String),
    Map(Box<Ty>, Box<Ty>),
    Struct { name: String, fields: Vec<(String, Ty)>, deny_unknown: bool },
    Enum { name: String, variants: Vec<(String, VarTy)> },
}

impl Ty {
    pub fn opt(t: Ty) -> Ty {
        Ty::Option(Box::new(t))
    }
    pub fn seq(t: Ty) -> Ty {
        Ty::Seq(Box::new(t))
    }
    pub fn map(k: Ty, v: Ty) -> Ty {
        Ty::Map(Box::new(k), Box::new(v))
    }
    pub fn size(&self) -> usize {
        match self {
            Ty::Option(t) | Ty::Seq(t) | Ty::NewtypeStruct(_, t) => 1 + t.size(),
            Ty::Tuple(v) | Ty::TupleStruct(_, v) => 1 + v.iter().map(|t| t.size()).sum::<usize>(),
            Ty::Map(k, v) => 1 + k.size() + v.size(),
            Ty::Struct { fields, .. } => 1 + fields.iter().map(|(_, t)| t.size()).sum::<usize>(),
            Ty::Enum { variants, .. } => {
                1 + variants
                    .iter()
                    .map(|(_, v)| match v {
                        VarTy::Unit => 0,
                        VarTy::Newtype(t) => t.size(),
                        VarTy::Tuple(ts) => ts.iter().map(|t| t.size()).sum(),
                        VarTy::Struct(fs) => fs.iter().map(|(_, t)| t.size()).sum(),
                    })
                    .sum::<usize>()
            }
            _ => 1,
        }
    }
}

#[derive(Clone, Debug, PartialEq, Eq, Hash)]
pub enum VarVal {
    Unit,
    Newtype(Box<Dyn>),
    Tuple(Vec<Dyn>),
    Struct(Vec<(String, Dyn)>),
}

#[derive(Clone, PartialEq, Eq, Hash)]
pub enum Dyn {
    Bool(bool),
    I64(i64),
    U8(u8),
    /// bits; NaN canonical
    F64(u64),
    Str(String),
    Char(char),
    Unit,
    None,
    Some(Box<Dyn>),
    Seq(Vec<Dyn>),
    Tuple(Vec<Dyn>),
    TupleStruct(String, Vec<Dyn>),
    NewtypeStruct(String, Box<Dyn>),
    UnitStruct(String),
    Map(Vec<(Dyn, Dyn)>),
    Struct(String, Vec<(String, Dyn)>),
    Variant { enum_name: String, index: u32, variant: String, val: VarVal },
}

impl fmt::Debug for Dyn {
    fn fmt(&self, f: &mut fmt::Formatter<'_>) -> fmt::Result {
        match self {
            Dyn::Bool(b) => write!(f, "{}", b),
            Dyn::I64(i) => write!(f, "{}i", i),
            Dyn::U8(i) => write!(f, "{}u8", i),
            Dyn::F64(b) => write!(f, "{:?}f", f64::from_bits(*b)),
            Dyn::Str(s) => write!(f, "{:?}", s),
            Dyn::Char(c) => write!(f, "{:?}", c),
            Dyn::Unit => write!(f, "()"),
            Dyn::None => write!(f, "None"),
            Dyn::Some(x) => write!(f, "Some({:?})", x),
            Dyn::Seq(v) => {
                write!(f, "vec")?;
                f.debug_list().entries(v).finish()
            }
            Dyn::Tuple(v) => {
                let mut t = f.debug_tuple("");
                for x in v {
                    t.field(x);
                }
                t.finish()
            }
            Dyn::TupleStruct(n, v) => {
                let mut t = f.debug_tuple(n);
                for x in v {
                    t.field(x);
                }
                t.finish()
            }
            Dyn::NewtypeStruct(n, x) => write!(f, "{}({:?})", n, x),
            Dyn::UnitStruct(n) => write!(f, "{}", n),
            Dyn::Map(v) => {
                write!(f, "map")?;
                f.debug_map().entries(v.iter().map(|(k, x)| (k, x))).finish()
            }
            Dyn::Struct(n, v) => {
                let mut s = f.debug_struct(n);
                for (k, x) in v {
                    s.field(k, x);
                }
                s.finish()
            }
            Dyn::Variant { variant, val, .. } => match val {
                VarVal::Unit => write!(f, "{}", variant),
                VarVal::Newtype(x) => write!(f, "{}({:?})", variant, x),
                VarVal::Tuple(v) => {
                    let mut t = f.debug_tuple(variant);
                    for x in v {
                        t.field(x);
                    }
                    t.finish()
                }
                VarVal::Struct(v) => {
                    let mut s = f.debug_struct(variant);
                    for (k, x) in v {
                        s.field(k, x);
                    }
                    s.finish()
                }
            },
        }
    }
}

impl Dyn {
    pub fn f64(x: f64) -> Dyn {
        Dyn::F64(crate::tree::fbits(x))
    }
    pub fn s(x: &str) -> Dyn {
        Dyn::Str(x.to_string())
    }
    pub fn count(&self) -> usize {
        match self {
            Dyn::Some(x) | Dyn::NewtypeStruct(_, x) => 1 + x.count(),
            Dyn::Seq(v) | Dyn::Tuple(v) | Dyn::TupleStruct(_, v) => 1 + v.iter().map(|x| x.count()).sum::<usize>(),
            Dyn::Map(v) => 1 + v.iter().map(|(k, x)| k.count() + x.count()).sum::<usize>(),
            Dyn::Struct(_, v) => 1 + v.iter().map(|(_, x)| x.count()).sum::<usize>(),
            Dyn::Variant { val, .. } => {
                1 + match val {
                    VarVal::Unit => 0,
                    VarVal::Newtype(x) => x.count(),
                    VarVal::Tuple(v) => v.iter().map(|x| x.count()).sum(),
                    VarVal::Struct(v) => v.iter().map(|(_, x)| x.count()).sum(),
                }
            }
            _ => 1,
        }
    }
}

// ---------------------------------------------------------------------------------------------
// Serialize

impl Serialize for Dyn {
    fn serialize<S: Serializer>(&self, s: S) -> Result<S::Ok, S::Error> {
        match self {
            Dyn::Bool(b) => s.serialize_bool(*b),
            Dyn::I64(i) => s.serialize_i64(*i),
            Dyn::U8(i) => s.serialize_u8(*i),
            Dyn::F64(b) => s.serialize_f64(f64::from_bits(*b)),
            Dyn::Str(x) => s.serialize_str(x),
            Dyn::Char(c) => s.serialize_char(*c),
            Dyn::Unit => s.serialize_unit(),
            Dyn::None => s.serialize_none(),
            Dyn::Some(x) => s.serialize_some(&**x),
            Dyn::Seq(v) => {
                let mut q = s.serialize_seq(if UNKNOWN_LEN.with(|c| c.get()) { None } else { Some(v.len()) })?;
                for x in v {
                    q.serialize_element(x)?;
                }
                q.end()
            }
            Dyn::Tuple(v) => {
                let mut q = s.serialize_tuple(v.len())?;
                for x in v {
                    q.serialize_element(x)?;
                }
                q.end()
            }
            Dyn::TupleStruct(n, v) => {
                let mut q = s.serialize_tuple_struct(intern(n), v.len())?;
                for x in v {
                    q.serialize_field(x)?;
                }
                q.end()
            }
            Dyn::NewtypeStruct(n, x) => s.serialize_newtype_struct(intern(n), &**x),
            Dyn::UnitStruct(n) => s.serialize_unit_struct(intern(n)),
            Dyn::Map(v) => {
                let mut m = s.serialize_map(if UNKNOWN_LEN.with(|c| c.get()) { None } else { Some(v.len()) })?;
                for (k, x) in v {
                    m.serialize_entry(k, x)?;
                }
                m.end()
            }
            Dyn::Struct(n, v) => {
                let mut st = s.serialize_struct(intern(n), v.len())?;
                for (k, x) in v {
                    st.serialize_field(intern(k), x)?;
                }
                st.end()
            }
            Dyn::Variant { enum_name, index, variant, val } => {
                let (en, vn) = (intern(enum_name), intern(variant));
                match val {
                    VarVal::Unit => s.serialize_unit_variant(en, *index, vn),
                    VarVal::Newtype(x) => s.serialize_newtype_variant(en, *index, vn, &**x),
                    VarVal::Tuple(v) => {
                        let mut t = s.serialize_tuple_variant(en, *index, vn, v.len())?;
                        for x in v {
                            t.serialize_field(x)?;
                        }
                        t.end()
                    }
                    VarVal::Struct(v) => {
                        let mut t = s.serialize_struct_variant(en, *index, vn, v.len())?;
                        for (k, x) in v {
                            t.serialize_field(intern(k), x)?;
                        }
                        t.end()
                    }
                }
            }
        }
    }
}

// ---------------------------------------------------------------------------------------------
// Deserialize (seed driven)

struct PrimV<'a>(&'a Ty);
impl<'de, 'a> Visitor<'de> for PrimV<'a> {
    type Value = Dyn;
    fn expecting(&self, f: &mut fmt::Formatter) -> fmt::Result {
        write!(f, "{:?}", self.0)
    }
    fn visit_bool<E: de::Error>(self, v: bool) -> Result<Dyn, E> {
        match self.0 {
            Ty::Bool => Ok(Dyn::Bool(v)),
            _ => Err(E::invalid_type(de::Unexpected::Bool(v), &self)),
        }
    }
    fn visit_i64<E: de::Error>(self, v: i64) -> Result<Dyn, E> {
        match self.0 {
            Ty::I64 => Ok(Dyn::I64(v)),
            Ty::U8 => u8::try_from(v).map(Dyn::U8).map_err(|_| E::invalid_value(de::Unexpected::Signed(v), &self)),
            Ty::F64 => Ok(Dyn::f64(v as f64)),
            _ => Err(E::invalid_type(de::Unexpected::Signed(v), &self)),
        }
    }
    fn visit_u64<E: de::Error>(self, v: u64) -> Result<Dyn, E> {
        match self.0 {
            Ty::I64 => i64::try_from(v).map(Dyn::I64).map_err(|_| E::invalid_value(de::Unexpected::Unsigned(v), &self)),
            Ty::U8 => u8::try_from(v).map(Dyn::U8).map_err(|_| E::invalid_value(de::Unexpected::Unsigned(v), &self)),
            Ty::F64 => Ok(Dyn::f64(v as f64)),
            _ => Err(E::invalid_type(de::Unexpected::Unsigned(v), &self)),
        }
    }
    fn visit_f64<E: de::Error>(self, v: f64) -> Result<Dyn, E> {
        match self.0 {
            Ty::F64 => Ok(Dyn::f64(v)),
            _ => Err(E::invalid_type(de::Unexpected::Float(v), &self)),
        }
    }
    fn visit_char<E: de::Error>(self, v: char) -> Result<Dyn, E> {
        match self.0 {
            Ty::Char => Ok(Dyn::Char(v)),
            Ty::Str => Ok(Dyn::Str(v.to_string())),
            _ => Err(E::invalid_type(de::Unexpected::Char(v), &self)),
        }
    }
    fn visit_str<E: de::Error>(self, v: &str) -> Result<Dyn, E> {
        match self.0 {
            Ty::Str => Ok(Dyn::Str(v.to_string())),
            Ty::Char => {
                let mut it = v.chars();
                match (it.next(), it.next()) {
                    (Some(c), None) => Ok(Dyn::Char(c)),
                    _ => Err(E::invalid_value(de::Unexpected::Str(v), &self)),
                }
            }
            _ => Err(E::invalid_type(de::Unexpected::Str(v), &self)),
        }
    }
    fn visit_unit<E: de::Error>(self) -> Result<Dyn, E> {
        match self.0 {
            Ty::Unit => Ok(Dyn::Unit),
            Ty::UnitStruct(n) => Ok(Dyn::UnitStruct(n.clone())),
            _ => Err(E::invalid_type(de::Unexpected::Unit, &self)),
        }
    }
}

struct OptV<'a>(&'a Ty);
impl<'de, 'a> Visitor<'de> for OptV<'a> {
    type Value = Dyn;
    fn expecting(&self, f: &mut fmt::Formatter) -> fmt::Result {
        write!(f, "option")
    }
    fn visit_none<E>(self) -> Result<Dyn, E> {
        Ok(Dyn::None)
    }
    fn visit_unit<E>(self) -> Result<Dyn, E> {
        Ok(Dyn::None)
    }
    fn visit_some<D: Deserializer<'de>>(self, d: D) -> Result<Dyn, D::Error> {
        Ok(Dyn::Some(Box::new(self.0.deserialize(d)?)))
    }
}

struct SeqV<'a>(&'a Ty);
impl<'de, 'a> Visitor<'de> for SeqV<'a> {
    type Value = Dyn;
    fn expecting(&self, f: &mut fmt::Formatter) -> fmt::Result {
        write!(f, "a sequence")
    }
    fn visit_seq<A: SeqAccess<'de>>(self, mut a: A) -> Result<Dyn, A::Error> {
        let mut v = Vec::new();
        while let Some(x) = a.next_element_seed(self.0)? {
            v.push(x);
        }
        Ok(Dyn::Seq(v))
    }
}

/// fixed arity: reads exactly `tys.len()` elements like a derived tuple visitor (does not look for more)
struct TupV<'a> {
    tys: &'a [Ty],
    what: &'static str,
}
impl<'de, 'a> Visitor<'de> for TupV<'a> {
    type Value = Vec<Dyn>;
    fn expecting(&self, f: &mut fmt::Formatter) -> fmt::Result {
        write!(f, "{} with {} elements", self.what, self.tys.len())
    }
    fn visit_seq<A: SeqAccess<'de>>(self, mut a: A) -> Result<Vec<Dyn>, A::Error> {
        let mut v = Vec::new();
        for (i, t) in self.tys.iter().enumerate() {
            match a.next_element_seed(t)? {
                Some(x) => v.push(x),
                None => return Err(de::Error::invalid_length(i, &self)),
            }
        }
        Ok(v)
    }
}

struct MapV<'a>(&'a Ty, &'a Ty);
impl<'de, 'a> Visitor<'de> for MapV<'a> {
    type Value = Dyn;
    fn expecting(&self, f: &mut fmt::Formatter) -> fmt::Result {
        write!(f, "a map")
    }
    fn visit_map<A: MapAccess<'de>>(self, mut a: A) -> Result<Dyn, A::Error> {
        let mut v = Vec::new();
        while let Some(k) = a.next_key_seed(self.0)? {
            let x = a.next_value_seed(self.1)?;
            v.push((k, x));
        }
        Ok(Dyn::Map(v))
    }
}

/// field identifier like a derived `__Field` enum
struct FieldId<'a> {
    names: &'a [(String, Ty)],
    deny: bool,
}
enum Field {
    Idx(usize),
    Ignore,
}
impl<'de, 'a> DeserializeSeed<'de> for FieldId<'a> {
    type Value = Field;
    fn deserialize<D: Deserializer<'de>>(self, d: D) -> Result<Field, D::Error> {
        d.deserialize_identifier(self)
    }
}
impl<'de, 'a> Visitor<'de> for FieldId<'a> {
    type Value = Field;
    fn expecting(&self, f: &mut fmt::Formatter) -> fmt::Result {
        write!(f, "field identifier")
    }
    fn visit_str<E: de::Error>(self, v: &str) -> Result<Field, E> {
        match self.names.iter().position(|(n, _)| n == v) {
            Some(i) => Ok(Field::Idx(i)),
            None => {
                if self.deny {
                    let names: Vec<String> = self.names.iter().map(|(n, _)| n.clone()).collect();
                    Err(E::unknown_field(v, intern_list(&names)))
                } else {
                    Ok(Field::Ignore)
                }
            }
        }
    }
    fn visit_u64<E: de::Error>(self, v: u64) -> Result<Field, E> {
        if (v as usize) < self.names.len() {
            Ok(Field::Idx(v as usize))
        } else if self.deny {
            Err(E::invalid_value(de::Unexpected::Unsigned(v), &"field index"))
        } else {
            Ok(Field::Ignore)
        }
    }
    fn visit_bytes<E: de::Error>(self, v: &[u8]) -> Result<Field, E> {
        match std::str::from_utf8(v) {
            Ok(s) => self.visit_str(s),
            Err(_) => Err(E::invalid_value(de::Unexpected::Bytes(v), &self)),
        }
    }
}

struct StructV<'a> {
    fields: &'a [(String, Ty)],
    deny: bool,
}
impl<'de, 'a> Visitor<'de> for StructV<'a> {
    type Value = Vec<(String, Dyn)>;
    fn expecting(&self, f: &mut fmt::Formatter) -> fmt::Result {
        write!(f, "struct")
    }
    fn visit_seq<A: SeqAccess<'de>>(self, mut a: A) -> Result<Self::Value, A::Error> {
        let mut out = Vec::new();
        for (i, (n, t)) in self.fields.iter().enumerate() {
            match a.next_element_seed(t)? {
                Some(x) => out.push((n.clone(), x)),
                None => return Err(de::Error::invalid_length(i, &self)),
            }
        }
        Ok(out)
    }
    fn visit_map<A: MapAccess<'de>>(self, mut a: A) -> Result<Self::Value, A::Error> {
        let mut slots: Vec<Option<Dyn>> = vec![None; self.fields.len()];
        while let Some(f) = a.next_key_seed(FieldId { names: self.fields, deny: self.deny })? {
            match f {
                Field::Idx(i) => {
                    if slots[i].is_some() {
                        return Err(de::Error::duplicate_field(intern(&self.fields[i].0)));
                    }
                    slots[i] = Some(a.next_value_seed(&self.fields[i].1)?);
                }
                Field::Ignore => {
                    let _ = a.next_value::<IgnoredAny>()?;
                }
            }
        }
        let mut out = Vec::new();
        for (i, (n, t)) in self.fields.iter().enumerate() {
            match slots[i].take() {
                Some(x) => out.push((n.clone(), x)),
                None => match t {
                    Ty::Option(_) => out.push((n.clone(), Dyn::None)),
                    _ => return Err(de::Error::missing_field(intern(n))),
                },
            }
        }
        Ok(out)
    }
}

struct VariantId<'a>(&'a [(String, VarTy)]);
impl<'de, 'a> DeserializeSeed<'de> for VariantId<'a> {
    type Value = usize;
    fn deserialize<D: Deserializer<'de>>(self, d: D) -> Result<usize, D::Error> {
        d.deserialize_identifier(self)
    }
}
impl<'de, 'a> Visitor<'de> for VariantId<'a> {
    type Value = usize;
    fn expecting(&self, f: &mut fmt::Formatter) -> fmt::Result {
        write!(f, "variant identifier")
    }
    fn visit_str<E: de::Error>(self, v: &str) -> Result<usize, E> {
        match self.0.iter().position(|(n, _)| n == v) {
            Some(i) => Ok(i),
            None => {
                let names: Vec<String> = self.0.iter().map(|(n, _)| n.clone()).collect();
                Err(E::unknown_variant(v, intern_list(&names)))
            }
        }
    }
    fn visit_u64<E: de::Error>(self, v: u64) -> Result<usize, E> {
        if (v as usize) < self.0.len() {
            Ok(v as usize)
        } else {
            Err(E::invalid_value(de::Unexpected::Unsigned(v), &"variant index"))
        }
    }
    fn visit_bytes<E: de::Error>(self, v: &[u8]) -> Result<usize, E> {
        match std::str::from_utf8(v) {
            Ok(s) => self.visit_str(s),
            Err(_) => Err(E::invalid_value(de::Unexpected::Bytes(v), &self)),
        }
    }
}

struct EnumV<'a> {
    name: &'a str,
    variants: &'a [(String, VarTy)],
}
impl<'de, 'a> Visitor<'de> for EnumV<'a> {
    type Value = Dyn;
    fn expecting(&self, f: &mut fmt::Formatter) -> fmt::Result {
        write!(f, "enum {}", self.name)
    }
    fn visit_enum<A: EnumAccess<'de>>(self, a: A) -> Result<Dyn, A::Error> {
        let (idx, va) = a.variant_seed(VariantId(self.variants))?;
        let (vn, vt) = &self.variants[idx];
        let val = match vt {
            VarTy::Unit => {
                va.unit_variant()?;
                VarVal::Unit
            }
            VarTy::Newtype(t) => VarVal::Newtype(Box::new(va.newtype_variant_seed(&**t)?)),
            VarTy::Tuple(ts) => VarVal::Tuple(va.tuple_variant(ts.len(), TupV { tys: ts, what: "tuple variant" })?),
            VarTy::Struct(fs) => {
                let names: Vec<String> = fs.iter().map(|(n, _)| n.clone()).collect();
                VarVal::Struct(va.struct_variant(intern_list(&names), StructV { fields: fs, deny: false })?)
            }
        };
        Ok(Dyn::Variant { enum_name: self.name.to_string(), index: idx as u32, variant: vn.clone(), val })
    }
}

struct NewtypeV<'a>(&'a str, &'a Ty);
impl<'de, 'a> Visitor<'de> for NewtypeV<'a> {
    type Value = Dyn;
    fn expecting(&self, f: &mut fmt::Formatter) -> fmt::Result {
        write!(f, "newtype struct {}", self.0)
    }
    fn visit_newtype_struct<D: Deserializer<'de>>(self, d: D) -> Result<Dyn, D::Error> {
        Ok(Dyn::NewtypeStruct(self.0.to_string(), Box::new(self.1.deserialize(d)?)))
    }
    fn visit_seq<A: SeqAccess<'de>>(self, mut a: A) -> Result<Dyn, A::Error> {
        match a.next_element_seed(self.1)? {
            Some(x) => Ok(Dyn::NewtypeStruct(self.0.to_string(), Box::new(x))),
            None => Err(de::Error::invalid_length(0, &self)),
        }
    }
}

impl<'de, 'a> DeserializeSeed<'de> for &'a Ty {
    type Value = Dyn;
    fn deserialize<D: Deserializer<'de>>(self, d: D) -> Result<Dyn, D::Error> {
        match self {
            Ty::Bool => d.deserialize_bool(PrimV(self)),
            Ty::I64 => d.deserialize_i64(PrimV(self)),
            Ty::U8 => d.deserialize_u8(PrimV(self)),
            Ty::F64 => d.deserialize_f64(PrimV(self)),
            Ty::Str => d.deserialize_string(PrimV(self)),
            Ty::Char => d.deserialize_char(PrimV(self)),
            Ty::Unit => d.deserialize_unit(PrimV(self)),
            Ty::UnitStruct(n) => d.deserialize_unit_struct(intern(n), PrimV(self)),
            Ty::Option(t) => d.deserialize_option(OptV(t)),
            Ty::Seq(t) => d.deserialize_seq(SeqV(t)),
            Ty::Tuple(ts) => Ok(Dyn::Tuple(d.deserialize_tuple(ts.len(), TupV { tys: ts, what: "tuple" })?)),
            Ty::TupleStruct(n, ts) => Ok(Dyn::TupleStruct(n.clone(), d.deserialize_tuple_struct(intern(n), ts.len(), TupV { tys: ts, what: "tuple struct" })?)),
            Ty::NewtypeStruct(n, t) => d.deserialize_newtype_struct(intern(n), NewtypeV(n, t)),
            Ty::Map(k, v) => d.deserialize_map(MapV(k, v)),
            Ty::Struct { name, fields, deny_unknown } => {
                let names: Vec<String> = fields.iter().map(|(n, _)| n.clone()).collect();
                Ok(Dyn::Struct(name.clone(), d.deserialize_struct(intern(name), intern_list(&names), StructV { fields, deny: *deny_unknown })?))
            }
            Ty::Enum { name, variants } => {
                let names: Vec<String> = variants.iter().map(|(n, _)| n.clone()).collect();
                d.deserialize_enum(intern(name), intern_list(&names), EnumV { name, variants })
            }
        }
    }
}

/// Deserialize `text` as `ty` through the closure-based public helper.
pub fn from_str_ty(text: &str, ty: &Ty, options: serde_saphyr::Options) -> Result<Dyn, serde_saphyr::Error> {
    serde_saphyr::with_deserializer_from_str_with_options(text, options, |d| ty.deserialize(d))
}

/// The type of a value (for typed read-back). Sequences/maps take the type of their first element;
/// empty collections and `None` use the supplied default element type.
pub fn type_of(v: &Dyn, dflt: &Ty) -> Ty {
    match v {
        Dyn::Bool(_) => Ty::Bool,
        Dyn::I64(_) => Ty::I64,
        Dyn::U8(_) => Ty::U8,
        Dyn::F64(_) => Ty::F64,
        Dyn::Str(_) => Ty::Str,
        Dyn::Char(_) => Ty::Char,
        Dyn::Unit => Ty::Unit,
        Dyn::None => Ty::opt(dflt.clone()),
        Dyn::Some(x) => Ty::opt(type_of(x, dflt)),
        Dyn::Seq(v) => Ty::seq(v.first().map(|x| type_of(x, dflt)).unwrap_or_else(|| dflt.clone())),
        Dyn::Tuple(v) => Ty::Tuple(v.iter().map(|x| type_of(x, dflt)).collect()),
        Dyn::TupleStruct(n, v) => Ty::TupleStruct(n.clone(), v.iter().map(|x| type_of(x, dflt)).collect()),
        Dyn::NewtypeStruct(n, x) => Ty::NewtypeStruct(n.clone(), Box::new(type_of(x, dflt))),
        Dyn::UnitStruct(n) => Ty::UnitStruct(n.clone()),
        Dyn::Map(v) => match v.first() {
            Some((k, x)) => Ty::map(type_of(k, dflt), type_of(x, dflt)),
            None => Ty::map(Ty::Str, dflt.clone()),
        },
        Dyn::Struct(n, v) => Ty::Struct { name: n.clone(), fields: v.iter().map(|(k, x)| (k.clone(), type_of(x, dflt))).collect(), deny_unknown: true },
        Dyn::Variant { enum_name, index, variant, val } => {
            // an enum with filler unit variants before `index` so that the index matches
            let mut variants = Vec::new();
            for i in 0..*index {
                variants.push((format!("Pad{}", i), VarTy::Unit));
            }
            let vt = match val {
                VarVal::Unit => VarTy::Unit,
                VarVal::Newtype(x) => VarTy::Newtype(Box::new(type_of(x, dflt))),
                VarVal::Tuple(v) => VarTy::Tuple(v.iter().map(|x| type_of(x, dflt)).collect()),
                VarVal::Struct(v) => VarTy::Struct(v.iter().map(|(k, x)| (k.clone(), type_of(x, dflt))).collect()),
            };
            variants.push((variant.clone(), vt));
            Ty::Enum { name: enum_name.clone(), variants }
        }
    }
}

// ---------------------------------------------------------------------------------------------
// helpers for value enumeration / shrinking / comparison

/// Equality that identifies Seq with Tuple and string-keyed Map with Struct (they are written identically
/// in YAML and the typed read-back may have to use the fixed-arity form for heterogeneous children).
pub fn same_data(a: &Dyn, b: &Dyn) -> bool {
    fn items(v: &Dyn) -> Option<&Vec<Dyn>> {
        match v {
            Dyn::Seq(x) | Dyn::Tuple(x) => Some(x),
            _ => None,
        }
    }
    fn entries(v: &Dyn) -> Option<Vec<(Dyn, &Dyn)>> {
        match v {
            Dyn::Map(x) => Some(x.iter().map(|(k, v)| (k.clone(), v)).collect()),
            Dyn::Struct(n, x) if n == "__MapAsStruct" => Some(x.iter().map(|(k, v)| (Dyn::Str(k.clone()), v)).collect()),
            _ => None,
        }
    }
    if let (Some(x), Some(y)) = (items(a), items(b)) {
        return x.len() == y.len() && x.iter().zip(y).all(|(p, q)| same_data(p, q));
    }
    if let (Some(x), Some(y)) = (entries(a), entries(b)) {
        return x.len() == y.len() && x.iter().zip(&y).all(|((k1, v1), (k2, v2))| same_data(k1, k2) && same_data(v1, v2));
    }
    match (a, b) {
        (Dyn::Some(x), Dyn::Some(y)) => same_data(x, y),
        (Dyn::NewtypeStruct(n, x), Dyn::NewtypeStruct(m, y)) => n == m && same_data(x, y),
        (Dyn::TupleStruct(n, x), Dyn::TupleStruct(m, y)) => n == m && x.len() == y.len() && x.iter().zip(y).all(|(p, q)| same_data(p, q)),
        (Dyn::Struct(n, x), Dyn::Struct(m, y)) => n == m && x.len() == y.len() && x.iter().zip(y).all(|((k1, p), (k2, q))| k1 == k2 && same_data(p, q)),
        (Dyn::Variant { variant: v1, val: a1, .. }, Dyn::Variant { variant: v2, val: a2, .. }) => {
            v1 == v2
                && match (a1, a2) {
                    (VarVal::Unit, VarVal::Unit) => true,
                    (VarVal::Newtype(x), VarVal::Newtype(y)) => same_data(x, y),
                    (VarVal::Tuple(x), VarVal::Tuple(y)) => x.len() == y.len() && x.iter().zip(y).all(|(p, q)| same_data(p, q)),
                    (VarVal::Struct(x), VarVal::Struct(y)) => x.len() == y.len() && x.iter().zip(y).all(|((k1, p), (k2, q))| k1 == k2 && same_data(p, q)),
                    _ => false,
                }
        }
        _ => a == b,
    }
}

/// Type for the typed read-back of a value; heterogeneous sequences are read as tuples and heterogeneous
/// string-keyed maps as structs (same YAML), see `same_data`.
pub fn readback_type(v: &Dyn) -> Ty {
    let dflt = Ty::I64;
    match v {
        Dyn::Seq(items) => {
            let ts: Vec<Ty> = items.iter().map(readback_type).collect();
            if ts.windows(2).all(|w| w[0] == w[1]) {
                Ty::seq(ts.first().cloned().unwrap_or(dflt))
            } else {
                Ty::Tuple(ts)
            }
        }
        Dyn::Map(es) => {
            let kts: Vec<Ty> = es.iter().map(|(k, _)| readback_type(k)).collect();
            let vts: Vec<Ty> = es.iter().map(|(_, x)| readback_type(x)).collect();
            let homo = kts.windows(2).all(|w| w[0] == w[1]) && vts.windows(2).all(|w| w[0] == w[1]);
            if homo {
                Ty::map(kts.first().cloned().unwrap_or(Ty::Str), vts.first().cloned().unwrap_or(dflt))
            } else if es.iter().all(|(k, _)| matches!(k, Dyn::Str(_))) {
                Ty::Struct {
                    name: "__MapAsStruct".into(),
                    fields: es.iter().zip(vts).map(|((k, _), t)| (if let Dyn::Str(s) = k { s.clone() } else { unreachable!() }, t)).collect(),
                    deny_unknown: true,
                }
            } else {
                Ty::map(kts[0].clone(), vts[0].clone())
            }
        }
        Dyn::None => Ty::opt(dflt),
        Dyn::Some(x) => Ty::opt(readback_type(x)),
        Dyn::Tuple(v) => Ty::Tuple(v.iter().map(readback_type).collect()),
        Dyn::TupleStruct(n, v) => Ty::TupleStruct(n.clone(), v.iter().map(readback_type).collect()),
        Dyn::NewtypeStruct(n, x) => Ty::NewtypeStruct(n.clone(), Box::new(readback_type(x))),
        Dyn::Struct(n, v) => Ty::Struct { name: n.clone(), fields: v.iter().map(|(k, x)| (k.clone(), readback_type(x))).collect(), deny_unknown: true },
        Dyn::Variant { enum_name, index, variant, val } => {
            let mut variants = Vec::new();
            for i in 0..*index {
                variants.push((format!("Pad{}", i), VarTy::Unit));
            }
            let vt = match val {
                VarVal::Unit => VarTy::Unit,
                VarVal::Newtype(x) => VarTy::Newtype(Box::new(readback_type(x))),
                VarVal::Tuple(v) => VarTy::Tuple(v.iter().map(readback_type).collect()),
                VarVal::Struct(v) => VarTy::Struct(v.iter().map(|(k, x)| (k.clone(), readback_type(x))).collect()),
            };
            variants.push((variant.clone(), vt));
            Ty::Enum { name: enum_name.clone(), variants }
        }
        other => type_of(other, &dflt),
    }
}

/// Structural shrink candidates for a value.
pub fn shrink_dyn(v: &Dyn) -> Vec<Dyn> {
    let mut out = Vec::new();
    let simple = Dyn::I64(7);
    fn kids(v: &Dyn) -> Vec<&Dyn> {
        match v {
            Dyn::Some(x) | Dyn::NewtypeStruct(_, x) => vec![x],
            Dyn::Seq(v) | Dyn::Tuple(v) | Dyn::TupleStruct(_, v) => v.iter().collect(),
            Dyn::Map(v) => v.iter().flat_map(|(k, x)| [k, x]).collect(),
            Dyn::Struct(_, v) => v.iter().map(|(_, x)| x).collect(),
            Dyn::Variant { val, .. } => match val {
                VarVal::Unit => vec![],
                VarVal::Newtype(x) => vec![x],
                VarVal::Tuple(v) => v.iter().collect(),
                VarVal::Struct(v) => v.iter().map(|(_, x)| x).collect(),
            },
            _ => vec![],
        }
    }
    fn with_kid(v: &Dyn, i: usize, new: Dyn) -> Dyn {
        let mut w = v.clone();
        match &mut w {
            Dyn::Some(x) | Dyn::NewtypeStruct(_, x) => **x = new,
            Dyn::Seq(v) | Dyn::Tuple(v) | Dyn::TupleStruct(_, v) => v[i] = new,
            Dyn::Map(v) => {
                if i % 2 == 0 {
                    v[i / 2].0 = new
                } else {
                    v[i / 2].1 = new
                }
            }
            Dyn::Struct(_, v) => v[i].1 = new,
            Dyn::Variant { val, .. } => match val {
                VarVal::Newtype(x) => **x = new,
                VarVal::Tuple(v) => v[i] = new,
                VarVal::Struct(v) => v[i].1 = new,
                VarVal::Unit => {}
            },
            _ => {}
        }
        w
    }
    let ks = kids(v);
    for k in &ks {
        out.push((*k).clone());
    }
    // drop one element of variable-length collections
    match v {
        Dyn::Seq(items) => {
            for i in 0..items.len() {
                let mut w = items.clone();
                w.remove(i);
                out.push(Dyn::Seq(w));
            }
        }
        Dyn::Map(es) => {
            for i in 0..es.len() {
                let mut w = es.clone();
                w.remove(i);
                out.push(Dyn::Map(w));
            }
        }
        _ => {}
    }
    for (i, k) in ks.iter().enumerate() {
        for s in shrink_dyn(k) {
            out.push(with_kid(v, i, s));
        }
    }
    if ks.is_empty() && *v != simple {
        out.push(simple);
    }
    out
}

// ---------------------------------------------------------------------------------------------
// JSON mirror (for replay files): `#[serde(with = "crate::dynv::json")]`

#[derive(DSerialize, Deserialize)]
enum VarJ {
    Unit,
    Newtype(Box<DynJ>),
    Tuple(Vec<DynJ>),
    Struct(Vec<(String, DynJ)>),
}
#[derive(DSerialize, Deserialize)]
enum DynJ {
    Bool(bool),
    I64(i64),
    U8(u8),
    F64(u64),
    Str(String),
    Char(char),
    Unit,
    None,
    Some(Box<DynJ>),
    Seq(Vec<DynJ>),
    Tuple(Vec<DynJ>),
    TupleStruct(String, Vec<DynJ>),
    NewtypeStruct(String, Box<DynJ>),
    UnitStruct(String),
    Map(Vec<(DynJ, DynJ)>),
    Struct(String, Vec<(String, DynJ)>),
    Variant { enum_name: String, index: u32, variant: String, val: VarJ },
}
fn to_j(v: &Dyn) -> DynJ {
    let l = |x: &Vec<Dyn>| x.iter().map(to_j).collect::<Vec<_>>();
    let f = |x: &Vec<(String, Dyn)>| x.iter().map(|(k, v)| (k.clone(), to_j(v))).collect::<Vec<_>>();
    match v {
        Dyn::Bool(b) => DynJ::Bool(*b),
        Dyn::I64(i) => DynJ::I64(*i),
        Dyn::U8(i) => DynJ::U8(*i),
        Dyn::F64(b) => DynJ::F64(*b),
        Dyn::Str(s) => DynJ::Str(s.clone()),
        Dyn::Char(c) => DynJ::Char(*c),
        Dyn::Unit => DynJ::Unit,
        Dyn::None => DynJ::None,
        Dyn::Some(x) => DynJ::Some(Box::new(to_j(x))),
        Dyn::Seq(x) => DynJ::Seq(l(x)),
        Dyn::Tuple(x) => DynJ::Tuple(l(x)),
        Dyn::TupleStruct(n, x) => DynJ::TupleStruct(n.clone(), l(x)),
        Dyn::NewtypeStruct(n, x) => DynJ::NewtypeStruct(n.clone(), Box::new(to_j(x))),
        Dyn::UnitStruct(n) => DynJ::UnitStruct(n.clone()),
        Dyn::Map(x) => DynJ::Map(x.iter().map(|(k, v)| (to_j(k), to_j(v))).collect()),
        Dyn::Struct(n, x) => DynJ::Struct(n.clone(), f(x)),
        Dyn::Variant { enum_name, index, variant, val } => DynJ::Variant {
            enum_name: enum_name.clone(),
            index: *index,
            variant: variant.clone(),
            val: match val {
                VarVal::Unit => VarJ::Unit,
                VarVal::Newtype(x) => VarJ::Newtype(Box::new(to_j(x))),
                VarVal::Tuple(x) => VarJ::Tuple(l(x)),
                VarVal::Struct(x) => VarJ::Struct(f(x)),
            },
        },
    }
}
fn from_j(v: DynJ) -> Dyn {
    let l = |x: Vec<DynJ>| x.into_iter().map(from_j).collect::<Vec<_>>();
    let f = |x: Vec<(String, DynJ)>| x.into_iter().map(|(k, v)| (k, from_j(v))).collect::<Vec<_>>();
    match v {
        DynJ::Bool(b) => Dyn::Bool(b),
        DynJ::I64(i) => Dyn::I64(i),
        DynJ::U8(i) => Dyn::U8(i),
        DynJ::F64(b) => Dyn::F64(b),
        DynJ::Str(s) => Dyn::Str(s),
        DynJ::Char(c) => Dyn::Char(c),
        DynJ::Unit => Dyn::Unit,
        DynJ::None => Dyn::None,
        DynJ::Some(x) => Dyn::Some(Box::new(from_j(*x))),
        DynJ::Seq(x) => Dyn::Seq(l(x)),
        DynJ::Tuple(x) => Dyn::Tuple(l(x)),
        DynJ::TupleStruct(n, x) => Dyn::TupleStruct(n, l(x)),
        DynJ::NewtypeStruct(n, x) => Dyn::NewtypeStruct(n, Box::new(from_j(*x))),
        DynJ::UnitStruct(n) => Dyn::UnitStruct(n),
        DynJ::Map(x) => Dyn::Map(x.into_iter().map(|(k, v)| (from_j(k), from_j(v))).collect()),
        DynJ::Struct(n, x) => Dyn::Struct(n, f(x)),
        DynJ::Variant { enum_name, index, variant, val } => Dyn::Variant {
            enum_name,
            index,
            variant,
            val: match val {
                VarJ::Unit => VarVal::Unit,
                VarJ::Newtype(x) => VarVal::Newtype(Box::new(from_j(*x))),
                VarJ::Tuple(x) => VarVal::Tuple(l(x)),
                VarJ::Struct(x) => VarVal::Struct(f(x)),
            },
        },
    }
}
pub mod json {
    use super::*;
    pub fn serialize<S: Serializer>(v: &Dyn, s: S) -> Result<S::Ok, S::Error> {
        to_j(v).serialize(s)
    }
    pub fn deserialize<'de, D: Deserializer<'de>>(d: D) -> Result<Dyn, D::Error> {
        Ok(from_j(<DynJ as Deserialize>::deserialize(d)?))
    }
}
