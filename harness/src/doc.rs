//! Document model, renderer with position table, reference operations (expand / strip / merge),
//! and self-validation of rendered text against raw saphyr-parser events.
use crate::raw::{self, RNode, RStyle};
use crate::tree::Tree;
use serde::{Deserialize, Serialize};
use std::collections::HashMap;

#[derive(Clone, Copy, Debug, PartialEq, Eq, Hash, Serialize, Deserialize, PartialOrd, Ord)]
pub enum Style {
    Plain,
    Single,
    Double,
    Literal,
    Folded,
}

#[derive(Clone, Debug, PartialEq, Eq, Hash, Serialize, Deserialize, PartialOrd, Ord)]
pub enum Kind {
    Scalar { text: String, style: Style },
    Seq(Vec<Node>),
    Map(Vec<(Node, Node)>),
    Alias(String),
}

#[derive(Clone, Debug, PartialEq, Eq, Hash, Serialize, Deserialize, PartialOrd, Ord)]
pub struct Node {
    pub kind: Kind,
    #[serde(default, skip_serializing_if = "Option::is_none")]
    pub anchor: Option<String>,
    #[serde(default, skip_serializing_if = "Option::is_none")]
    pub tag: Option<String>,
    #[serde(default, skip_serializing_if = "std::ops::Not::not")]
    pub flow: bool,
}

impl Node {
    pub fn plain(t: &str) -> Node {
        Node { kind: Kind::Scalar { text: t.to_string(), style: Style::Plain }, anchor: None, tag: None, flow: false }
    }
    pub fn scalar(t: &str, style: Style) -> Node {
        Node { kind: Kind::Scalar { text: t.to_string(), style }, anchor: None, tag: None, flow: false }
    }
    pub fn seq(items: Vec<Node>) -> Node {
        Node { kind: Kind::Seq(items), anchor: None, tag: None, flow: false }
    }
    pub fn map(entries: Vec<(Node, Node)>) -> Node {
        Node { kind: Kind::Map(entries), anchor: None, tag: None, flow: false }
    }
    pub fn alias(name: &str) -> Node {
        Node { kind: Kind::Alias(name.to_string()), anchor: None, tag: None, flow: false }
    }
    pub fn anchored(mut self, name: &str) -> Node {
        self.anchor = Some(name.to_string());
        self
    }
    pub fn tagged(mut self, tag: &str) -> Node {
        self.tag = Some(tag.to_string());
        self
    }
    pub fn flowed(mut self) -> Node {
        self.flow = true;
        self
    }
    pub fn is_scalar(&self) -> bool {
        matches!(self.kind, Kind::Scalar { .. })
    }
    pub fn is_collection(&self) -> bool {
        matches!(self.kind, Kind::Seq(_) | Kind::Map(_))
    }
    pub fn count(&self) -> usize {
        match &self.kind {
            Kind::Seq(v) => 1 + v.iter().map(|n| n.count()).sum::<usize>(),
            Kind::Map(v) => 1 + v.iter().map(|(k, x)| k.count() + x.count()).sum::<usize>(),
            _ => 1,
        }
    }
    pub fn children(&self) -> Vec<&Node> {
        match &self.kind {
            Kind::Seq(v) => v.iter().collect(),
            Kind::Map(v) => v.iter().flat_map(|(k, x)| [k, x]).collect(),
            _ => vec![],
        }
    }
    pub fn children_mut(&mut self) -> Vec<&mut Node> {
        match &mut self.kind {
            Kind::Seq(v) => v.iter_mut().collect(),
            Kind::Map(v) => v.iter_mut().flat_map(|(k, x)| [k, x]).collect(),
            _ => vec![],
        }
    }
    /// pre-order list of all nodes
    pub fn preorder(&self) -> Vec<&Node> {
        let mut out = vec![self];
        for c in self.children() {
            out.extend(c.preorder());
        }
        out
    }
    pub fn has_alias(&self) -> bool {
        matches!(self.kind, Kind::Alias(_)) || self.children().iter().any(|c| c.has_alias())
    }
    pub fn has_anchor(&self) -> bool {
        self.anchor.is_some() || self.children().iter().any(|c| c.has_anchor())
    }
    /// set the layout of all collections
    pub fn with_flow(mut self, flow: bool) -> Node {
        if self.is_collection() {
            self.flow = flow;
        }
        for c in self.children_mut() {
            let t = std::mem::replace(c, Node::plain("x")).with_flow(flow);
            *c = t;
        }
        self
    }
    /// block at the root, flow for every collection below
    pub fn with_flow_inside(mut self) -> Node {
        for c in self.children_mut() {
            let t = std::mem::replace(c, Node::plain("x")).with_flow(true);
            *c = t;
        }
        self
    }
    /// remove every anchor mark
    pub fn strip_anchors(mut self) -> Node {
        self.anchor = None;
        for c in self.children_mut() {
            let t = std::mem::replace(c, Node::plain("x")).strip_anchors();
            *c = t;
        }
        self
    }
    /// compact one-line description for keys and samples
    pub fn show(&self) -> String {
        let mut s = String::new();
        if let Some(a) = &self.anchor {
            s.push('&');
            s.push_str(a);
            s.push(' ');
        }
        if let Some(t) = &self.tag {
            s.push_str(t);
            s.push(' ');
        }
        match &self.kind {
            Kind::Scalar { text, style } => match style {
                Style::Plain => s.push_str(text),
                Style::Single => s.push_str(&format!("'{}'", text)),
                Style::Double => s.push_str(&format!("{:?}", text)),
                Style::Literal => s.push_str(&format!("|{:?}", text)),
                Style::Folded => s.push_str(&format!(">{:?}", text)),
            },
            Kind::Alias(n) => {
                s.push('*');
                s.push_str(n);
            }
            Kind::Seq(v) => {
                s.push_str(if self.flow { "[" } else { "seq[" });
                s.push_str(&v.iter().map(|n| n.show()).collect::<Vec<_>>().join(", "));
                s.push(']');
            }
            Kind::Map(v) => {
                s.push_str(if self.flow { "{" } else { "map{" });
                s.push_str(&v.iter().map(|(k, x)| format!("{}: {}", k.show(), x.show())).collect::<Vec<_>>().join(", "));
                s.push('}');
            }
        }
        s
    }
}

/// Reference expansion: every alias replaced by a copy of the node most recently anchored under that name
/// (document order), every anchor mark removed. Err if an alias has no earlier anchor or refers to an
/// anchor that is still open (alias inside its own anchored node).
pub fn expand(n: &Node) -> Result<Node, String> {
    // An anchor becomes visible when its node *starts* (that is when the name is (re)bound, so a later
    // definition of the same name shadows an enclosing one even while the enclosing node is still open),
    // but its value is complete only when the node ends.
    struct Env {
        by_name: HashMap<String, usize>,
        values: Vec<Option<Node>>,
    }
    fn go(n: &Node, env: &mut Env) -> Result<Node, String> {
        let my_id = n.anchor.as_ref().map(|a| {
            env.values.push(None);
            let id = env.values.len() - 1;
            env.by_name.insert(a.clone(), id);
            id
        });
        let out = match &n.kind {
            Kind::Scalar { .. } => Node { anchor: None, ..n.clone() },
            Kind::Alias(name) => match env.by_name.get(name) {
                None => return Err(format!("alias *{} has no earlier anchor", name)),
                Some(&id) => match &env.values[id] {
                    None => return Err(format!("alias *{} inside its own anchor", name)),
                    Some(v) => v.clone(),
                },
            },
            Kind::Seq(v) => {
                let mut items = Vec::new();
                for c in v {
                    items.push(go(c, env)?);
                }
                Node { kind: Kind::Seq(items), anchor: None, tag: n.tag.clone(), flow: n.flow }
            }
            Kind::Map(v) => {
                let mut es = Vec::new();
                for (k, x) in v {
                    let kk = go(k, env)?;
                    let xx = go(x, env)?;
                    es.push((kk, xx));
                }
                Node { kind: Kind::Map(es), anchor: None, tag: n.tag.clone(), flow: n.flow }
            }
        };
        if let Some(id) = my_id {
            env.values[id] = Some(out.clone());
        }
        Ok(out)
    }
    go(n, &mut Env { by_name: HashMap::new(), values: Vec::new() })
}

// ---------------------------------------------------------------------------------------------
// rendering

#[derive(Clone, Debug, PartialEq, Eq, Hash, Serialize, Deserialize)]
pub struct Layout {
    /// line break: "\n", "\r\n" or "\r"
    pub nl: String,
    /// indentation step for nested block collections under a mapping key
    pub step: usize,
    /// write a comment line before the root and trailing comments after some scalars
    pub comments: bool,
    /// extra blanks after ':' and '-' and before ','
    pub wide: bool,
}
impl Default for Layout {
    fn default() -> Self {
        Layout { nl: "\n".into(), step: 2, comments: false, wide: false }
    }
}

#[derive(Clone, Copy, Debug, Default, PartialEq, Eq, Serialize, Deserialize)]
pub struct Pos {
    pub byte: usize,
    pub chr: usize,
    /// 1-based
    pub line: usize,
    /// 1-based, in characters
    pub col: usize,
}

#[derive(Clone, Copy, Debug, Default)]
pub struct NodePos {
    /// where the node's properties (anchor/tag) start, or the content if none
    pub props: usize,
    /// where the content token starts (scalar text / quote / indicator, `[`/`{`, `*`, first child for block)
    pub content: usize,
    /// end (exclusive) of the scalar / alias token; for collections: end of the last child / closing bracket
    pub end: usize,
}

pub struct Rendered {
    pub text: String,
    /// byte offsets per node, pre-order
    pub nodes: Vec<NodePos>,
}

impl Rendered {
    pub fn pos_of(&self, byte: usize) -> Pos {
        pos_at(&self.text, byte)
    }
}

/// line/column/char offset of a byte offset, using the parser's break set {LF, CRLF, CR}
pub fn pos_at(text: &str, byte: usize) -> Pos {
    let mut line = 1;
    let mut col = 1;
    let mut chr = 0;
    let mut prev_cr = false;
    for (i, c) in text.char_indices() {
        if i >= byte {
            break;
        }
        chr += 1;
        match c {
            '\n' => {
                if !prev_cr {
                    line += 1;
                }
                col = 1;
                prev_cr = false;
            }
            '\r' => {
                line += 1;
                col = 1;
                prev_cr = true;
            }
            _ => {
                col += 1;
                prev_cr = false;
            }
        }
    }
    Pos { byte, chr, line, col }
}

struct R<'a> {
    out: String,
    nodes: Vec<NodePos>,
    lay: &'a Layout,
}

pub fn escape_double(text: &str) -> String {
    let mut s = String::from("\"");
    for c in text.chars() {
        match c {
            '"' => s.push_str("\\\""),
            '\\' => s.push_str("\\\\"),
            '\n' => s.push_str("\\n"),
            '\r' => s.push_str("\\r"),
            '\t' => s.push_str("\\t"),
            '\0' => s.push_str("\\0"),
            '\x07' => s.push_str("\\a"),
            '\x08' => s.push_str("\\b"),
            '\x1b' => s.push_str("\\e"),
            '\u{85}' => s.push_str("\\N"),
            '\u{a0}' => s.push_str("\\_"),
            '\u{2028}' => s.push_str("\\L"),
            '\u{2029}' => s.push_str("\\P"),
            c if (c as u32) < 0x20 || (0x7f..0xa0).contains(&(c as u32)) => s.push_str(&format!("\\x{:02x}", c as u32)),
            '\u{feff}' => s.push_str("\\uFEFF"),
            c => s.push(c),
        }
    }
    s.push('"');
    s
}

impl<'a> R<'a> {
    fn nl(&mut self) {
        let nl = self.lay.nl.clone();
        self.out.push_str(&nl);
    }
    fn indent(&mut self, n: usize) {
        for _ in 0..n {
            self.out.push(' ');
        }
    }
    fn props(&mut self, n: &Node) -> bool {
        let mut any = false;
        if let Some(a) = &n.anchor {
            self.out.push('&');
            self.out.push_str(a);
            any = true;
        }
        if let Some(t) = &n.tag {
            if any {
                self.out.push(' ');
            }
            self.out.push_str(t);
            any = true;
        }
        any
    }
    fn scalar_inline(&mut self, text: &str, style: Style) {
        match style {
            Style::Plain => self.out.push_str(text),
            Style::Single => {
                self.out.push('\'');
                self.out.push_str(&text.replace('\'', "''"));
                self.out.push('\'');
            }
            Style::Double => self.out.push_str(&escape_double(text)),
            _ => unreachable!(),
        }
    }
    /// flow rendering (single line)
    fn flow(&mut self, n: &Node, as_key: bool) {
        let idx = self.nodes.len();
        self.nodes.push(NodePos::default());
        let p0 = self.out.len();
        if self.props(n) {
            let empty_plain = matches!(&n.kind, Kind::Scalar { text, style: Style::Plain } if text.is_empty());
            if !empty_plain {
                self.out.push(' ');
            }
        }
        let c0 = self.out.len();
        match &n.kind {
            Kind::Scalar { text, style } => {
                let st = match style {
                    Style::Literal | Style::Folded => Style::Double,
                    s => *s,
                };
                self.scalar_inline(text, st);
            }
            Kind::Alias(name) => {
                self.out.push('*');
                self.out.push_str(name);
                if as_key {
                    // `*x:` would make the colon part of the alias name
                    self.nodes[idx] = NodePos { props: p0, content: c0, end: self.out.len() };
                    self.out.push(' ');
                    return;
                }
            }
            Kind::Seq(v) => {
                self.out.push('[');
                for (i, c) in v.iter().enumerate() {
                    if i > 0 {
                        self.out.push_str(if self.lay.wide { " , " } else { ", " });
                    }
                    self.flow(c, false);
                }
                self.out.push(']');
            }
            Kind::Map(v) => {
                self.out.push('{');
                for (i, (k, x)) in v.iter().enumerate() {
                    if i > 0 {
                        self.out.push_str(if self.lay.wide { " , " } else { ", " });
                    }
                    self.flow(k, true);
                    self.out.push_str(if self.lay.wide { ":  " } else { ": " });
                    self.flow(x, false);
                }
                self.out.push('}');
            }
        }
        self.nodes[idx] = NodePos { props: p0, content: c0, end: self.out.len() };
    }

    fn inline_ok(n: &Node) -> bool {
        match &n.kind {
            Kind::Scalar { style, .. } => !matches!(style, Style::Literal | Style::Folded),
            Kind::Alias(_) => true,
            Kind::Seq(v) => n.flow || v.is_empty(),
            Kind::Map(v) => n.flow || v.is_empty(),
        }
    }

    /// Emit node `n` whose first token may go on the current line.
    /// `here`: column at which a compact block collection starting on this line would sit;
    /// `below`: indentation for content that has to start on following lines;
    /// `compact_ok`: a block collection may start on the current line (after `- `, `? `, at the root).
    /// Leaves the cursor after the node *including* its final line break for block constructs and
    /// without a line break for inline constructs; returns true if a line break was already written.
    fn block(&mut self, n: &Node, here: usize, below: usize, compact_ok: bool) -> bool {
        if Self::inline_ok(n) {
            self.flow(n, false);
            return false;
        }
        let idx = self.nodes.len();
        self.nodes.push(NodePos::default());
        let p0 = self.out.len();
        let has_props = self.props(n);
        match &n.kind {
            Kind::Scalar { text, style } => {
                if has_props {
                    self.out.push(' ');
                }
                let c0 = self.out.len();
                self.out.push(if *style == Style::Literal { '|' } else { '>' });
                self.out.push('-');
                let ind = below.max(1);
                let lines: Vec<&str> = text.split('\n').collect();
                for (i, l) in lines.iter().enumerate() {
                    self.nl();
                    if *style == Style::Folded && i > 0 {
                        self.nl();
                    }
                    self.indent(ind);
                    self.out.push_str(l);
                }
                let end = self.out.len();
                self.nl();
                self.nodes[idx] = NodePos { props: p0, content: c0, end };
                true
            }
            Kind::Seq(items) => {
                let compact = compact_ok && !has_props;
                let ind = if compact { here } else { below };
                if !compact {
                    self.nl();
                }
                let c0 = if compact { self.out.len() } else { self.out.len() + ind };
                for (i, it) in items.iter().enumerate() {
                    if i > 0 || !compact {
                        self.indent(ind);
                    }
                    self.out.push('-');
                    let empty = matches!(&it.kind, Kind::Scalar { text, style: Style::Plain } if text.is_empty()) && it.anchor.is_none() && it.tag.is_none();
                    if !empty {
                        self.out.push_str(if self.lay.wide { "   " } else { " " });
                    }
                    let w = if self.lay.wide { 4 } else { 2 };
                    if !self.block(it, ind + w, ind + w, true) {
                        self.trailing_comment(it);
                        self.nl();
                    }
                }
                self.nodes[idx] = NodePos { props: p0, content: c0, end: self.out.len() };
                true
            }
            Kind::Map(entries) => {
                let compact = compact_ok && !has_props;
                let ind = if compact { here } else { below };
                if !compact {
                    self.nl();
                }
                let c0 = if compact { self.out.len() } else { self.out.len() + ind };
                for (i, (k, v)) in entries.iter().enumerate() {
                    if i > 0 || !compact {
                        self.indent(ind);
                    }
                    if Self::inline_ok(k) {
                        self.flow(k, true);
                        self.out.push(':');
                    } else {
                        self.out.push_str("? ");
                        if !self.block(k, ind + 2, ind + 2, true) {
                            self.nl();
                        }
                        self.indent(ind);
                        self.out.push(':');
                    }
                    let empty = matches!(&v.kind, Kind::Scalar { text, style: Style::Plain } if text.is_empty()) && v.anchor.is_none() && v.tag.is_none();
                    if Self::inline_ok(v) || matches!(v.kind, Kind::Scalar { .. }) || v.anchor.is_some() || v.tag.is_some() {
                        if !empty {
                            self.out.push_str(if self.lay.wide { "   " } else { " " });
                        }
                    }
                    if !self.block(v, 0, ind + self.lay.step, false) {
                        self.trailing_comment(v);
                        self.nl();
                    }
                }
                self.nodes[idx] = NodePos { props: p0, content: c0, end: self.out.len() };
                true
            }
            Kind::Alias(_) => unreachable!(),
        }
    }

    fn trailing_comment(&mut self, n: &Node) {
        if self.lay.comments && n.is_scalar() {
            self.out.push_str("  # c");
        }
    }
}

pub fn render(n: &Node, lay: &Layout) -> Rendered {
    let mut r = R { out: String::new(), nodes: Vec::new(), lay };
    if lay.comments {
        r.out.push_str("# é comment");
        r.nl();
    }
    if !r.block(n, 0, 0, true) {
        r.nl();
    }
    Rendered { text: r.out, nodes: r.nodes }
}

pub fn render_default(n: &Node) -> String {
    render(n, &Layout::default()).text
}

/// Render a stream of documents separated by `---`.
pub fn render_stream(docs: &[Node], lay: &Layout) -> String {
    let mut s = String::new();
    for d in docs {
        s.push_str("---");
        s.push_str(&lay.nl);
        s.push_str(&render(d, lay).text);
    }
    s
}

// ---------------------------------------------------------------------------------------------
// self validation against the raw parser

#[derive(Debug, Clone, PartialEq, Eq)]
pub enum Validity {
    /// the raw parser sees exactly the intended tree
    Ok,
    /// the raw parser rejects the text (message)
    ParserError(String),
    /// the raw parser sees something else than intended: the generator is wrong here
    Mismatch(String),
}

fn style_of(s: Style) -> RStyle {
    match s {
        Style::Plain => RStyle::Plain,
        Style::Single => RStyle::Single,
        Style::Double => RStyle::Double,
        Style::Literal => RStyle::Literal,
        Style::Folded => RStyle::Folded,
    }
}

fn norm_tag(t: &str) -> String {
    if let Some(r) = t.strip_prefix("!!") {
        format!("tag:yaml.org,2002:{}", r)
    } else {
        t.to_string()
    }
}

fn cmp(n: &Node, r: &RNode, in_flow: bool, next_id: &mut usize, env: &mut HashMap<String, usize>) -> Result<(), String> {
    let my_id = if let Some(a) = &n.anchor {
        *next_id += 1;
        env.insert(a.clone(), *next_id);
        *next_id
    } else {
        0
    };
    let tag_ok = |t: &Option<String>| -> bool {
        match (&n.tag, t) {
            (None, None) => true,
            (Some(a), Some(b)) => norm_tag(a) == *b || *a == *b,
            _ => false,
        }
    };
    match (&n.kind, r) {
        (Kind::Scalar { text, style }, RNode::Scalar { value, style: rs, anchor, tag, .. }) => {
            let want = if in_flow && matches!(style, Style::Literal | Style::Folded) { Style::Double } else { *style };
            // the parser reports an empty node without properties as a plain `~`, one with an anchor or tag as
            // a plain scalar without text: the model's empty plain scalar stands for both
            let empty_node = text.is_empty() && *style == Style::Plain && value == "~" && n.anchor.is_none() && n.tag.is_none();
            if value != text && !empty_node {
                return Err(format!("scalar text {:?} vs {:?}", text, value));
            }
            if style_of(want) != *rs {
                return Err(format!("scalar style {:?} vs {:?} for {:?}", want, rs, text));
            }
            if *anchor != my_id {
                return Err(format!("anchor id {} vs {}", my_id, anchor));
            }
            if !tag_ok(tag) {
                return Err(format!("tag {:?} vs {:?}", n.tag, tag));
            }
            Ok(())
        }
        (Kind::Alias(name), RNode::Alias { id, .. }) => match env.get(name) {
            Some(e) if e == id => Ok(()),
            other => Err(format!("alias *{} expected id {:?}, parser {}", name, other, id)),
        },
        (Kind::Seq(items), RNode::Seq { items: ri, anchor, tag, .. }) => {
            if *anchor != my_id || !tag_ok(tag) {
                return Err("seq props".into());
            }
            if items.len() != ri.len() {
                return Err(format!("seq len {} vs {}", items.len(), ri.len()));
            }
            for (a, b) in items.iter().zip(ri) {
                cmp(a, b, in_flow || n.flow, next_id, env)?;
            }
            Ok(())
        }
        (Kind::Map(es), RNode::Map { entries, anchor, tag, .. }) => {
            if *anchor != my_id || !tag_ok(tag) {
                return Err("map props".into());
            }
            if es.len() != entries.len() {
                return Err(format!("map len {} vs {}", es.len(), entries.len()));
            }
            for ((k, v), (rk, rv)) in es.iter().zip(entries) {
                cmp(k, rk, in_flow || n.flow, next_id, env)?;
                cmp(v, rv, in_flow || n.flow, next_id, env)?;
            }
            Ok(())
        }
        _ => Err(format!("kind mismatch at {}", n.show())),
    }
}

/// Does the raw parser see `text` as exactly the single document `n`?
pub fn validate(n: &Node, text: &str) -> Validity {
    match raw::raw_documents(text) {
        Err(e) => Validity::ParserError(e),
        Ok(docs) => {
            if docs.len() != 1 {
                return Validity::Mismatch(format!("{} documents", docs.len()));
            }
            match &docs[0] {
                None => {
                    // an empty document is what a lone empty plain scalar looks like
                    if matches!(&n.kind, Kind::Scalar { text, style: Style::Plain } if text.is_empty()) {
                        Validity::Ok
                    } else {
                        Validity::Mismatch("empty document".into())
                    }
                }
                Some(r) => match cmp(n, r, false, &mut 0, &mut HashMap::new()) {
                    Ok(()) => Validity::Ok,
                    Err(e) => Validity::Mismatch(e),
                },
            }
        }
    }
}

/// Validate a stream of documents.
pub fn validate_stream(docs: &[Node], text: &str) -> Validity {
    match raw::raw_documents(text) {
        Err(e) => Validity::ParserError(e),
        Ok(rd) => {
            if rd.len() != docs.len() {
                return Validity::Mismatch(format!("{} documents vs {}", rd.len(), docs.len()));
            }
            for (n, r) in docs.iter().zip(&rd) {
                match r {
                    None => {
                        if !matches!(&n.kind, Kind::Scalar { text, style: Style::Plain } if text.is_empty()) {
                            return Validity::Mismatch("empty document".into());
                        }
                    }
                    Some(r) => {
                        if let Err(e) = cmp(n, r, false, &mut 0, &mut HashMap::new()) {
                            return Validity::Mismatch(e);
                        }
                    }
                }
            }
            Validity::Ok
        }
    }
}

// ---------------------------------------------------------------------------------------------
// untyped reference value of an alias-free, merge-free document (YAML core-schema for the tiny alphabets used)

/// Reference untyped value for generator scalars. Only decides the cases the generators use:
/// plain `~`/`null`/empty -> Null, plain decimal integers -> I, plain `true`/`false` -> Bool,
/// everything else (and every quoted scalar) -> S. Tagged scalars: `!!str` -> S, others None (unspecified).
pub fn ref_scalar(text: &str, style: Style, tag: &Option<String>) -> Option<Tree> {
    match tag.as_deref() {
        None => {}
        Some("!!str") => return Some(Tree::S(text.to_string())),
        Some(_) => return None,
    }
    if style != Style::Plain {
        return Some(Tree::S(text.to_string()));
    }
    if text.is_empty() || text == "~" || text == "null" {
        return Some(Tree::Null);
    }
    if text == "true" {
        return Some(Tree::Bool(true));
    }
    if text == "false" {
        return Some(Tree::Bool(false));
    }
    if text.len() < 15 && text.bytes().all(|b| b.is_ascii_digit()) && !(text.len() > 1 && text.starts_with('0')) {
        return Some(Tree::I(text.parse::<i128>().unwrap()));
    }
    if text.bytes().all(|b| b.is_ascii_alphabetic() || b >= 0x80 || b == b'_') {
        let lower = text.to_ascii_lowercase();
        if ["y", "n", "yes", "no", "on", "off", "true", "false", "null", "inf", "nan"].contains(&lower.as_str()) {
            return None;
        }
        return Some(Tree::S(text.to_string()));
    }
    None
}

/// Reference Tree of an alias-free document without merge keys; None where the reference is silent.
pub fn ref_tree(n: &Node) -> Option<Tree> {
    match &n.kind {
        Kind::Scalar { text, style } => ref_scalar(text, *style, &n.tag),
        Kind::Alias(_) => None,
        Kind::Seq(v) => {
            if n.tag.is_some() {
                return None;
            }
            let mut out = Vec::new();
            for c in v {
                out.push(ref_tree(c)?);
            }
            Some(Tree::Seq(out))
        }
        Kind::Map(v) => {
            if n.tag.is_some() {
                return None;
            }
            let mut out = Vec::new();
            for (k, x) in v {
                out.push((ref_tree(k)?, ref_tree(x)?));
            }
            Some(Tree::Map(out))
        }
    }
}
