//! Exhaustive enumeration of small document trees (doc::Node) by node count.
use crate::doc::{Kind, Node};
use rayon::prelude::*;

pub struct TreeGen {
    /// leaf nodes usable in value / item position (including aliases and anchored variants)
    pub leaves: Vec<Node>,
    /// leaf nodes usable in key position
    pub key_leaves: Vec<Node>,
    /// anchor choices for collections
    pub anchors: Vec<Option<String>>,
    /// allow collections as mapping keys
    pub complex_keys: bool,
    /// include empty collections as 1-node trees
    pub empty_collections: bool,
}

fn compositions(total: usize, parts: usize) -> Vec<Vec<usize>> {
    // all ordered ways to write total as a sum of `parts` positive integers
    if parts == 0 {
        return if total == 0 { vec![vec![]] } else { vec![] };
    }
    if parts == 1 {
        return if total >= 1 { vec![vec![total]] } else { vec![] };
    }
    let mut out = Vec::new();
    for first in 1..=(total.saturating_sub(parts - 1)) {
        for mut rest in compositions(total - first, parts - 1) {
            let mut v = vec![first];
            v.append(&mut rest);
            out.push(v);
        }
    }
    out
}

impl TreeGen {
    /// by_size[k] = all value-position trees with exactly k nodes (k >= 1)
    pub fn build(&self, max: usize) -> Vec<Vec<Node>> {
        let mut by: Vec<Vec<Node>> = vec![Vec::new(); max + 1];
        let mut keys_by: Vec<Vec<Node>> = vec![Vec::new(); max + 1];
        for k in 1..=max {
            let v = self.of_size(k, &by, &keys_by);
            let kv = if k == 1 {
                self.key_leaves.clone()
            } else if self.complex_keys {
                v.iter().filter(|n| n.is_collection()).cloned().collect()
            } else {
                Vec::new()
            };
            by[k] = v;
            keys_by[k] = kv;
            if k == 1 && self.complex_keys && self.empty_collections {
                // empty collections as keys are left out: `[]: x` is rarely meaningful
            }
        }
        by
    }

    fn of_size(&self, k: usize, by: &[Vec<Node>], keys_by: &[Vec<Node>]) -> Vec<Node> {
        let mut out = Vec::new();
        if k == 1 {
            out.extend(self.leaves.iter().cloned());
            if self.empty_collections {
                for a in &self.anchors {
                    let mut s = Node::seq(vec![]);
                    s.anchor = a.clone();
                    out.push(s);
                    let mut m = Node::map(vec![]);
                    m.anchor = a.clone();
                    out.push(m);
                }
            }
            return out;
        }
        let inner = k - 1;
        // sequences with 1..inner items
        for parts in 1..=inner {
            for comp in compositions(inner, parts) {
                let mut combos: Vec<Vec<Node>> = vec![vec![]];
                for &sz in &comp {
                    let mut next = Vec::new();
                    for c in &combos {
                        for t in &by[sz] {
                            let mut c2 = c.clone();
                            c2.push(t.clone());
                            next.push(c2);
                        }
                    }
                    combos = next;
                }
                for items in combos {
                    for a in &self.anchors {
                        let mut s = Node::seq(items.clone());
                        s.anchor = a.clone();
                        out.push(s);
                    }
                }
            }
        }
        // mappings with 1..inner/2 entries
        for entries in 1..=(inner / 2) {
            for comp in compositions(inner, entries * 2) {
                let mut combos: Vec<Vec<Node>> = vec![vec![]];
                for (i, &sz) in comp.iter().enumerate() {
                    let pool: &Vec<Node> = if i % 2 == 0 { &keys_by[sz] } else { &by[sz] };
                    let mut next = Vec::new();
                    for c in &combos {
                        for t in pool {
                            let mut c2 = c.clone();
                            c2.push(t.clone());
                            next.push(c2);
                        }
                    }
                    combos = next;
                }
                for flat in combos {
                    let mut es = Vec::new();
                    let mut it = flat.into_iter();
                    while let (Some(kn), Some(vn)) = (it.next(), it.next()) {
                        es.push((kn, vn));
                    }
                    for a in &self.anchors {
                        let mut m = Node::map(es.clone());
                        m.anchor = a.clone();
                        out.push(m);
                    }
                }
            }
        }
        out
    }

    /// Call `f` for every tree with exactly `k` nodes, k = by.len() (one more than materialised), in parallel,
    /// without materialising the whole level.
    pub fn for_each_next<A: Send>(
        &self,
        by: &[Vec<Node>],
        init: impl Fn() -> A + Sync + Send,
        f: impl Fn(&mut A, Node) + Sync + Send,
        merge: impl Fn(A, A) -> A + Sync + Send,
    ) -> A {
        let k = by.len();
        let inner = k - 1;
        let mut keys_by: Vec<Vec<Node>> = vec![Vec::new(); k];
        for sz in 1..k {
            keys_by[sz] = if sz == 1 {
                self.key_leaves.clone()
            } else if self.complex_keys {
                by[sz].iter().filter(|n| n.is_collection()).cloned().collect()
            } else {
                Vec::new()
            };
        }
        // work items: (is_map, composition)
        let mut work: Vec<(bool, Vec<usize>)> = Vec::new();
        for parts in 1..=inner {
            for comp in compositions(inner, parts) {
                work.push((false, comp));
            }
        }
        for entries in 1..=(inner / 2) {
            for comp in compositions(inner, entries * 2) {
                work.push((true, comp));
            }
        }
        // split each work item by its first child to get parallel grain
        let mut grains: Vec<(bool, Vec<usize>, usize)> = Vec::new();
        for (is_map, comp) in work {
            let first_pool = if is_map { keys_by[comp[0]].len() } else { by[comp[0]].len() };
            for i in 0..first_pool {
                grains.push((is_map, comp.clone(), i));
            }
        }
        grains
            .into_par_iter()
            .fold(&init, |mut acc, (is_map, comp, first)| {
                let pools: Vec<&Vec<Node>> =
                    comp.iter().enumerate().map(|(i, &sz)| if is_map && i % 2 == 0 { &keys_by[sz] } else { &by[sz] }).collect();
                let mut idx = vec![0usize; comp.len()];
                idx[0] = first;
                loop {
                    let children: Vec<Node> = idx.iter().zip(&pools).map(|(&i, p)| p[i].clone()).collect();
                    for a in &self.anchors {
                        let mut n = if is_map {
                            let mut es = Vec::new();
                            let mut it = children.clone().into_iter();
                            while let (Some(kn), Some(vn)) = (it.next(), it.next()) {
                                es.push((kn, vn));
                            }
                            Node::map(es)
                        } else {
                            Node::seq(children.clone())
                        };
                        n.anchor = a.clone();
                        f(&mut acc, n);
                    }
                    // odometer over positions 1..
                    let mut p = comp.len();
                    loop {
                        if p == 1 {
                            return acc;
                        }
                        p -= 1;
                        idx[p] += 1;
                        if idx[p] < pools[p].len() {
                            break;
                        }
                        idx[p] = 0;
                    }
                }
            })
            .reduce(&init, &merge)
    }
}

/// Structural shrink candidates for a document tree: replace by a child, drop an item/entry,
/// replace a subtree by the leaf `a`, remove an anchor, recursively.
pub fn shrink_node(n: &Node) -> Vec<Node> {
    let mut out = Vec::new();
    // replace by any child
    for c in n.children() {
        out.push(c.clone());
    }
    match &n.kind {
        Kind::Seq(v) => {
            for i in 0..v.len() {
                let mut w = v.clone();
                w.remove(i);
                out.push(Node { kind: Kind::Seq(w), ..n.clone() });
            }
            for i in 0..v.len() {
                for s in shrink_node(&v[i]) {
                    let mut w = v.clone();
                    w[i] = s;
                    out.push(Node { kind: Kind::Seq(w), ..n.clone() });
                }
            }
        }
        Kind::Map(v) => {
            for i in 0..v.len() {
                let mut w = v.clone();
                w.remove(i);
                out.push(Node { kind: Kind::Map(w), ..n.clone() });
            }
            for i in 0..v.len() {
                for s in shrink_node(&v[i].0) {
                    let mut w = v.clone();
                    w[i].0 = s;
                    out.push(Node { kind: Kind::Map(w), ..n.clone() });
                }
                for s in shrink_node(&v[i].1) {
                    let mut w = v.clone();
                    w[i].1 = s;
                    out.push(Node { kind: Kind::Map(w), ..n.clone() });
                }
            }
        }
        Kind::Scalar { text, style } => {
            if !(text == "a" && *style == crate::doc::Style::Plain) {
                out.push(Node { kind: Kind::Scalar { text: "a".into(), style: crate::doc::Style::Plain }, ..n.clone() });
            }
        }
        Kind::Alias(_) => {}
    }
    if n.anchor.is_some() {
        out.push(Node { anchor: None, ..n.clone() });
    }
    if n.tag.is_some() {
        out.push(Node { tag: None, ..n.clone() });
    }
    if n.flow && n.is_collection() {
        out.push(Node { flow: false, ..n.clone() });
    }
    out
}
