//! Counting allocator: per-thread live bytes, peak and cumulative allocation (the C08 observer).
//! serde-saphyr is single-threaded, so a case that runs on one worker thread is measured exactly.
use std::alloc::{GlobalAlloc, Layout, System};
use std::cell::Cell;

pub struct Counting;

thread_local! {
    static LIVE: Cell<isize> = const { Cell::new(0) };
    static PEAK: Cell<isize> = const { Cell::new(0) };
    static TOTAL: Cell<u64> = const { Cell::new(0) };
    static CALLS: Cell<u64> = const { Cell::new(0) };
}

#[inline]
fn add(n: usize) {
    let _ = LIVE.try_with(|l| {
        let v = l.get() + n as isize;
        l.set(v);
        let _ = PEAK.try_with(|p| {
            if v > p.get() {
                p.set(v)
            }
        });
    });
    let _ = TOTAL.try_with(|t| t.set(t.get() + n as u64));
    let _ = CALLS.try_with(|t| t.set(t.get() + 1));
}
#[inline]
fn sub(n: usize) {
    let _ = LIVE.try_with(|l| l.set(l.get() - n as isize));
}

unsafe impl GlobalAlloc for Counting {
    unsafe fn alloc(&self, layout: Layout) -> *mut u8 {
        let p = unsafe { System.alloc(layout) };
        if !p.is_null() {
            add(layout.size());
        }
        p
    }
    unsafe fn dealloc(&self, ptr: *mut u8, layout: Layout) {
        unsafe { System.dealloc(ptr, layout) };
        sub(layout.size());
    }
    unsafe fn alloc_zeroed(&self, layout: Layout) -> *mut u8 {
        let p = unsafe { System.alloc_zeroed(layout) };
        if !p.is_null() {
            add(layout.size());
        }
        p
    }
    unsafe fn realloc(&self, ptr: *mut u8, layout: Layout, new_size: usize) -> *mut u8 {
        let p = unsafe { System.realloc(ptr, layout, new_size) };
        if !p.is_null() {
            sub(layout.size());
            add(new_size);
        }
        p
    }
}

#[derive(Clone, Copy, Debug, Default)]
pub struct Usage {
    /// peak of live bytes above the level at the start of the scope
    pub peak: u64,
    /// bytes allocated in the scope (cumulative, a proxy for work)
    pub total: u64,
    /// allocator calls in the scope
    pub calls: u64,
}

/// Run `f` and report this thread's heap usage during it.
pub fn measure<R>(f: impl FnOnce() -> R) -> (R, Usage) {
    let base = LIVE.with(|l| l.get());
    PEAK.with(|p| p.set(base));
    let t0 = TOTAL.with(|t| t.get());
    let c0 = CALLS.with(|t| t.get());
    let r = f();
    let peak = PEAK.with(|p| p.get());
    let u = Usage { peak: (peak - base).max(0) as u64, total: TOTAL.with(|t| t.get()) - t0, calls: CALLS.with(|t| t.get()) - c0 };
    (r, u)
}
