//! The C01 / C17 input space: token strings over a YAML indicator alphabet (plus raw bytes), a family of
//! target types, every deserialization entry point and a set of option vectors.
use crate::readers::ScheduleReader;
use crate::tree::Tree;
use serde::de::{DeserializeOwned, IgnoredAny};
use serde::Deserialize;
use serde_saphyr::options::DuplicateKeyPolicy;
use serde_saphyr::{RcAnchor, RcWeakAnchor, Spanned};
use std::collections::BTreeMap;

pub const TOKENS: &[&[u8]] = &[
    b"a", b"1", b"~", b"<<", b" ", b"\n", b"\r", b"\t", b"- ", b"? ", b": ", b",", b"[", b"]", b"{", b"}", b"#", b"&a ", b"*a", b"!t ", b"!!str ", b"!!binary ", b"|\n", b">\n", b"'",
    b"\"", b"\\", b"---\n", b"...\n", b"%", "é".as_bytes(), "€".as_bytes(), b"\xef\xbb\xbf", b"\xff", b"\xc3", b"\x00",
];

pub const TARGETS: [&str; 17] = [
    "Tree",
    "serde_json::Value",
    "IgnoredAny",
    "String",
    "&str",
    "i32",
    "f64",
    "bool",
    "ByteBuf",
    "struct S{a:i32,b:Option<String>,c:Vec<E>}",
    "enum E{U,N(i32),T(i32,String),S{x:bool}}",
    "BTreeMap<String,Vec<i32>>",
    "Spanned<Tree>",
    "struct{a:RcAnchor<Tree>,w:Option<RcWeakAnchor<Tree>>}",
    "Vec<Option<String>>",
    "a type whose Deserialize impl reads nothing",
    "a visitor that asks a mapping for a value before any key",
];

pub const ENTRIES: [&str; 9] = [
    "from_str",
    "from_slice",
    "from_reader(whole)",
    "from_reader(1-byte reads)",
    "from_multiple",
    "from_slice_multiple",
    "read (iterator, drained)",
    "with_deserializer_from_str",
    "with_deserializer_from_reader",
];

pub const OPTION_VECTORS: [&str; 9] = [
    "default",
    "budget=None",
    "every budget limit=3",
    "FirstWins, crop_radius=0",
    "LastWins, crop_radius=1",
    "no_schema+strict_booleans+legacy_octal, crop_radius=3",
    "with_snippet=false",
    "alias limits (4,2,2)",
    "angle_conversions (robotics)",
];

pub fn options(i: u8) -> serde_saphyr::Options {
    let mut o = serde_saphyr::Options::default();
    match i {
        0 => {}
        1 => o.budget = None,
        2 => {
            let mut b = serde_saphyr::Budget::default();
            b.max_events = 3;
            b.max_aliases = 3;
            b.max_anchors = 3;
            b.max_depth = 3;
            b.max_documents = 3;
            b.max_nodes = 3;
            b.max_total_scalar_bytes = 3;
            b.max_merge_keys = 3;
            b.alias_anchor_min_aliases = 3;
            b.alias_anchor_ratio_multiplier = 3;
            b.max_reader_input_bytes = Some(3);
            o.budget = Some(b);
        }
        3 => {
            o.duplicate_keys = DuplicateKeyPolicy::FirstWins;
            o.crop_radius = 0;
        }
        4 => {
            o.duplicate_keys = DuplicateKeyPolicy::LastWins;
            o.crop_radius = 1;
        }
        5 => {
            o.no_schema = true;
            o.strict_booleans = true;
            o.legacy_octal_numbers = true;
            o.crop_radius = 3;
        }
        6 => o.with_snippet = false,
        8 => o.angle_conversions = true,
        _ => {
            o.alias_limits.max_total_replayed_events = 4;
            o.alias_limits.max_replay_stack_depth = 2;
            o.alias_limits.max_alias_expansions_per_anchor = 2;
        }
    }
    o
}

#[derive(Debug, Deserialize)]
#[allow(dead_code)]
pub enum E {
    U,
    N(i32),
    T(i32, String),
    S { x: bool },
}
#[derive(Debug, Deserialize)]
#[allow(dead_code)]
pub struct S {
    a: i32,
    b: Option<String>,
    c: Vec<E>,
}
#[derive(Debug, Deserialize)]
#[allow(dead_code)]
pub struct Anch {
    a: RcAnchor<Tree>,
    w: Option<RcWeakAnchor<Tree>>,
}

/// legal but unusual: reads nothing from the deserializer
#[derive(Debug)]
pub struct Inert;
impl<'de> Deserialize<'de> for Inert {
    fn deserialize<D: serde::Deserializer<'de>>(_d: D) -> Result<Self, D::Error> {
        Ok(Inert)
    }
}
/// asks for a mapping and requests a value before it has seen a key
#[derive(Debug)]
pub struct EagerValue;
impl<'de> Deserialize<'de> for EagerValue {
    fn deserialize<D: serde::Deserializer<'de>>(d: D) -> Result<Self, D::Error> {
        struct V;
        impl<'de> serde::de::Visitor<'de> for V {
            type Value = EagerValue;
            fn expecting(&self, f: &mut std::fmt::Formatter) -> std::fmt::Result {
                write!(f, "a mapping")
            }
            fn visit_map<A: serde::de::MapAccess<'de>>(self, mut m: A) -> Result<EagerValue, A::Error> {
                let _: IgnoredAny = m.next_value()?;
                while m.next_entry::<IgnoredAny, IgnoredAny>()?.is_some() {}
                Ok(EagerValue)
            }
        }
        d.deserialize_map(V)
    }
}

/// What one execution produced: the errors it returned (several for the iterator), and how many Ok items.
pub struct Exec {
    pub oks: usize,
    pub errors: Vec<serde_saphyr::Error>,
    /// the iterator did not finish within its item cap
    pub unterminated: bool,
    /// entry point not applicable (e.g. from_str on invalid UTF-8, &str through a reader)
    pub skipped: bool,
}

fn one<T>(r: Result<T, serde_saphyr::Error>) -> Exec {
    match r {
        Ok(_) => Exec { oks: 1, errors: vec![], unterminated: false, skipped: false },
        Err(e) => Exec { oks: 0, errors: vec![e], unterminated: false, skipped: false },
    }
}

fn run_owned<T: DeserializeOwned>(input: &[u8], entry: u8, o: serde_saphyr::Options) -> Exec {
    let skipped = Exec { oks: 0, errors: vec![], unterminated: false, skipped: true };
    let as_str = std::str::from_utf8(input).ok();
    match entry {
        0 => match as_str {
            Some(s) => one(serde_saphyr::from_str_with_options::<T>(s, o)),
            None => skipped,
        },
        1 => one(serde_saphyr::from_slice_with_options::<T>(input, o)),
        2 => one(serde_saphyr::from_reader_with_options::<_, T>(ScheduleReader::fixed(input, 1 << 20), o)),
        3 => one(serde_saphyr::from_reader_with_options::<_, T>(ScheduleReader::fixed(input, 1), o)),
        4 => match as_str {
            Some(s) => one(serde_saphyr::from_multiple_with_options::<T>(s, o)),
            None => skipped,
        },
        5 => one(serde_saphyr::from_slice_multiple_with_options::<T>(input, o)),
        6 => {
            let mut rd = ScheduleReader::fixed(input, 3);
            let cap = input.len() + 2;
            let mut it = serde_saphyr::read_with_options::<_, T>(&mut rd, o);
            let mut ex = Exec { oks: 0, errors: vec![], unterminated: true, skipped: false };
            for _ in 0..=cap {
                match it.next() {
                    None => {
                        ex.unterminated = false;
                        break;
                    }
                    Some(Ok(_)) => ex.oks += 1,
                    Some(Err(e)) => ex.errors.push(e),
                }
            }
            ex
        }
        7 => match as_str {
            Some(s) => one(serde_saphyr::with_deserializer_from_str_with_options(s, o, |d| T::deserialize(d))),
            None => skipped,
        },
        _ => one(serde_saphyr::with_deserializer_from_reader_with_options(ScheduleReader::fixed(input, 2), o, |d| T::deserialize(d))),
    }
}

/// Run one (input, target, entry point, option vector) cell of the space.
pub fn exec(input: &[u8], target: u8, entry: u8, optvec: u8) -> Exec {
    exec_opts(input, target, entry, options(optvec))
}

/// Same, with caller-supplied options.
pub fn exec_opts(input: &[u8], target: u8, entry: u8, o: serde_saphyr::Options) -> Exec {
    match target {
        0 => run_owned::<Tree>(input, entry, o),
        1 => run_owned::<serde_json::Value>(input, entry, o),
        2 => run_owned::<IgnoredAny>(input, entry, o),
        3 => run_owned::<String>(input, entry, o),
        4 => {
            // borrowed target: only the entry points that can lend
            let s = match std::str::from_utf8(input) {
                Ok(s) => s,
                Err(_) => return Exec { oks: 0, errors: vec![], unterminated: false, skipped: true },
            };
            match entry {
                0 => one(serde_saphyr::from_str_with_options::<&str>(s, o)),
                1 => one(serde_saphyr::from_slice_with_options::<&str>(input, o)),
                7 => one(serde_saphyr::with_deserializer_from_str_with_options(s, o, |d| <&str>::deserialize(d))),
                _ => Exec { oks: 0, errors: vec![], unterminated: false, skipped: true },
            }
        }
        5 => run_owned::<i32>(input, entry, o),
        6 => run_owned::<f64>(input, entry, o),
        7 => run_owned::<bool>(input, entry, o),
        8 => run_owned::<serde_bytes::ByteBuf>(input, entry, o),
        9 => run_owned::<S>(input, entry, o),
        10 => run_owned::<E>(input, entry, o),
        11 => run_owned::<BTreeMap<String, Vec<i32>>>(input, entry, o),
        12 => run_owned::<Spanned<Tree>>(input, entry, o),
        13 => run_owned::<Anch>(input, entry, o),
        15 => run_owned::<Inert>(input, entry, o),
        16 => run_owned::<EagerValue>(input, entry, o),
        _ => run_owned::<Vec<Option<String>>>(input, entry, o),
    }
}

/// All renderings of an error; any of them may panic (the caller guards).
pub fn render_all(e: &serde_saphyr::Error) -> Vec<String> {
    let user = serde_saphyr::UserMessageFormatter;
    let mut off = serde_saphyr::RenderOptions::default();
    off.snippets = serde_saphyr::SnippetMode::Off;
    vec![
        e.to_string(),
        e.render(),
        e.render_with_formatter(&user),
        e.render_with_options(off),
        format!("{:?}", e),
        e.without_snippet().to_string(),
    ]
}

/// Reader-based entry points hand the text to saphyr-parser through its buffered (iterator) input. That
/// input returns NUL forever at end of input and the scanner's "read a word" loop does not stop on NUL, so a
/// `%directive` line whose last word runs into the end of input never terminates (DESIGN.md, known finding
/// C01/hang). This predicate over-approximates that class: the last line (not terminated by a line break)
/// starts with '%'.
pub fn reader_hang_suspect(input: &[u8]) -> bool {
    let start = input.iter().rposition(|&b| b == b'\n' || b == b'\r').map(|p| p + 1).unwrap_or(0);
    let mut line = &input[start..];
    if start == 0 && line.starts_with(b"\xef\xbb\xbf") {
        line = &line[3..];
    }
    line.first() == Some(&b'%')
}

pub fn is_reader_entry(entry: u8) -> bool {
    matches!(entry, 2 | 3 | 6 | 8)
}
