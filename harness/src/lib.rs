pub mod common;
pub mod doc;
pub mod engine;
pub mod props;
pub mod raw;
pub mod tree;
pub mod treegen;
pub mod dynv;
