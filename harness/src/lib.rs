pub mod common;
pub mod engine;
pub mod raw;
pub mod tree;
pub mod props;
