//! Direct use of saphyr-parser (independent of serde-saphyr): raw event lists and raw node trees.
use saphyr_parser::{Event, Parser, ScalarStyle};

#[derive(Clone, Debug, PartialEq, Eq, Hash)]
pub enum REv {
    StreamStart,
    StreamEnd,
    DocStart(bool),
    DocEnd,
    Alias(usize),
    Scalar { value: String, style: RStyle, anchor: usize, tag: Option<String> },
    SeqStart { anchor: usize, tag: Option<String> },
    SeqEnd,
    MapStart { anchor: usize, tag: Option<String> },
    MapEnd,
}

#[derive(Clone, Copy, Debug, PartialEq, Eq, Hash)]
pub enum RStyle {
    Plain,
    Single,
    Double,
    Literal,
    Folded,
}

#[derive(Clone, Copy, Debug, PartialEq, Eq, Hash, Default)]
pub struct RPos {
    /// char index
    pub index: usize,
    pub line: usize,
    /// 0-based column
    pub col: usize,
    pub byte: Option<usize>,
}

#[derive(Clone, Debug)]
pub struct RSpanned {
    pub ev: REv,
    pub start: RPos,
    pub end: RPos,
}

fn tag_str(t: &Option<std::borrow::Cow<'_, saphyr_parser::Tag>>) -> Option<String> {
    t.as_ref().map(|t| format!("{}{}", t.handle, t.suffix))
}

/// All raw events of `text` or the scan error message.
pub fn raw_events(text: &str) -> Result<Vec<RSpanned>, String> {
    let mut out = Vec::new();
    let mut p = Parser::new_from_str(text);
    loop {
        match p.next_event() {
            None => break,
            Some(Err(e)) => return Err(format!("{}", e)),
            Some(Ok((ev, span))) => {
                let rev = match ev {
                    Event::Nothing => continue,
                    Event::StreamStart => REv::StreamStart,
                    Event::StreamEnd => REv::StreamEnd,
                    Event::DocumentStart(b) => REv::DocStart(b),
                    Event::DocumentEnd => REv::DocEnd,
                    Event::Alias(id) => REv::Alias(id),
                    Event::Scalar(v, st, a, t) => REv::Scalar {
                        value: v.to_string(),
                        style: match st {
                            ScalarStyle::Plain => RStyle::Plain,
                            ScalarStyle::SingleQuoted => RStyle::Single,
                            ScalarStyle::DoubleQuoted => RStyle::Double,
                            ScalarStyle::Literal => RStyle::Literal,
                            ScalarStyle::Folded => RStyle::Folded,
                        },
                        anchor: a,
                        tag: tag_str(&t),
                    },
                    Event::SequenceStart(a, t) => REv::SeqStart { anchor: a, tag: tag_str(&t) },
                    Event::SequenceEnd => REv::SeqEnd,
                    Event::MappingStart(a, t) => REv::MapStart { anchor: a, tag: tag_str(&t) },
                    Event::MappingEnd => REv::MapEnd,
                };
                let s = span.start;
                let e = span.end;
                let done = rev == REv::StreamEnd;
                out.push(RSpanned {
                    ev: rev,
                    start: RPos { index: s.index(), line: s.line(), col: s.col(), byte: s.byte_offset() },
                    end: RPos { index: e.index(), line: e.line(), col: e.col(), byte: e.byte_offset() },
                });
                if done {
                    break;
                }
            }
        }
    }
    Ok(out)
}

/// Raw node tree of a document (aliases kept as references to anchor ids).
#[derive(Clone, Debug, PartialEq, Eq, Hash)]
pub enum RNode {
    Scalar { value: String, style: RStyle, anchor: usize, tag: Option<String>, start: RPos, end: RPos },
    Seq { items: Vec<RNode>, anchor: usize, tag: Option<String>, start: RPos },
    Map { entries: Vec<(RNode, RNode)>, anchor: usize, tag: Option<String>, start: RPos },
    Alias { id: usize, start: RPos },
}

impl RNode {
    pub fn start(&self) -> RPos {
        match self {
            RNode::Scalar { start, .. } | RNode::Seq { start, .. } | RNode::Map { start, .. } | RNode::Alias { start, .. } => *start,
        }
    }
    pub fn anchor(&self) -> usize {
        match self {
            RNode::Scalar { anchor, .. } | RNode::Seq { anchor, .. } | RNode::Map { anchor, .. } => *anchor,
            RNode::Alias { .. } => 0,
        }
    }
}

fn build(evs: &[RSpanned], i: &mut usize) -> Option<RNode> {
    let e = evs.get(*i)?;
    *i += 1;
    match &e.ev {
        REv::Scalar { value, style, anchor, tag } => Some(RNode::Scalar {
            value: value.clone(),
            style: *style,
            anchor: *anchor,
            tag: tag.clone(),
            start: e.start,
            end: e.end,
        }),
        REv::Alias(id) => Some(RNode::Alias { id: *id, start: e.start }),
        REv::SeqStart { anchor, tag } => {
            let mut items = Vec::new();
            loop {
                if matches!(evs.get(*i)?.ev, REv::SeqEnd) {
                    *i += 1;
                    break;
                }
                items.push(build(evs, i)?);
            }
            Some(RNode::Seq { items, anchor: *anchor, tag: tag.clone(), start: e.start })
        }
        REv::MapStart { anchor, tag } => {
            let mut entries = Vec::new();
            loop {
                if matches!(evs.get(*i)?.ev, REv::MapEnd) {
                    *i += 1;
                    break;
                }
                let k = build(evs, i)?;
                let v = build(evs, i)?;
                entries.push((k, v));
            }
            Some(RNode::Map { entries, anchor: *anchor, tag: tag.clone(), start: e.start })
        }
        _ => None,
    }
}

/// The documents of a stream as raw node trees (None for an empty document), or the scan error.
pub fn raw_documents(text: &str) -> Result<Vec<Option<RNode>>, String> {
    let evs = raw_events(text)?;
    let mut docs = Vec::new();
    let mut i = 0;
    while i < evs.len() {
        match &evs[i].ev {
            REv::DocStart(_) => {
                i += 1;
                if matches!(evs.get(i).map(|e| &e.ev), Some(REv::DocEnd)) {
                    docs.push(None);
                } else {
                    let n = build(&evs, &mut i).ok_or_else(|| "malformed event stream".to_string())?;
                    docs.push(Some(n));
                }
            }
            _ => i += 1,
        }
    }
    Ok(docs)
}

/// Number of documents the parser sees, or scan error.
pub fn raw_doc_count(text: &str) -> Result<usize, String> {
    Ok(raw_events(text)?.iter().filter(|e| matches!(e.ev, REv::DocStart(_))).count())
}
